"""Store family: C06 C07 C08 C09.

L1  MCStore.tla: StoreModel.tla (required effects of Push/Tag/Untag/Delete/GC) explored exhaustively over every
    universe on N nodes and every history of <= MaxOps operations; invariants are the properties' clauses.
L3  StoreMon.tla replays recorded histories of the real memory / OCI-layout / file stores against the model: every
    operation result, every live observation, the raw directory, and the layout reopened read-write / from an
    fs.FS / from a tar must agree with the model state (deterministic model, so L2 = L3).
    Half of the histories end in a concurrent tail: 2-3 operations run as goroutines, released one at a time at the
    `verif`-tagged scheduling points inside the stores (vh.PSched; a goroutine that blocks on a lock held by a parked one
    is detected by a quiet period); StoreMon runs every order of those operations through the model and requires the
    quiescent observation to be the state of one of them (ConcurrentSerializable), and every concurrent Fetch that
    succeeded to have returned matching bytes."""
import json
import os

from vlib import Infra, go_test, l1, log, monitor, read_ndjson, report, trace_any, trace_of

MUT = ("push", "tag", "untag", "delete", "gc", "stray", "strayalt")


def owners(inv, lastop):
    """Which properties a failed judgement belongs to."""
    out = set()
    if inv in ("PredExact", "PredNoDup") or "Pred" in inv:
        out.add("C07")
    if inv == "DiskAltBlobFiles":
        return {"C09"}      # unreachable blob files under another algorithm's directory: "GC removes exactly the blob files ..."
    if inv.startswith("Reopen") or inv.startswith("Disk"):
        out.add("C08")
    if inv.startswith("Live") or inv in ("FetchResult", "ExistsResult", "ResolveResult", "TagsListing", "OpResult"):
        if "Pred" not in inv:
            out.add("C06")
        if lastop in ("delete", "gc"):
            out.add("C09")
    if inv == "NoHang":
        out.add("C09")
    if inv.startswith("Concurrent"):
        out.add("C06")
        if lastop in ("delete", "gc") or inv == "ConcurrentSerializable+gc":
            out.add("C09")      # a Delete / GC in the tail: "leaving every reachable node, tag ... intact"
    if inv == "OpResult" and lastop in ("delete", "gc"):
        out.discard("C06")
        out.add("C09")
    return out


def l1cfg(n, ops):
    return ("CONSTANTS N = %d\n MaxOps = %d\nSPECIFICATION MSpec\nINVARIANTS TagsPointToContent IndexedPresent "
            "DeleteRemovesTarget DeleteOnlyTargetWithoutGC DeleteNeverRemovesLinked DeleteNeverRemovesTagged "
            "DeleteKeepsOtherTags DeleteRemovesItsTags DeleteCascadeComplete GCKeepsReachable GCKeepsTags "
            "GCRemovesOnlyGarbage GCIdempotent GCKeepsPred\nCHECK_DEADLOCK FALSE\n") % (n, ops)


KINDS = {"C06": "memory,oci,file,oci", "C07": "memory,oci,file,oci", "C08": "oci", "C09": "oci"}


def drive(ctx, env, name="drv"):
    out = ctx.sub(name)
    e = {"VH_OUT": out, "VH_SEED": ctx.seed}
    e.update(env)
    r = go_test(ctx, "storefam", "TestDrive", e, timeout=3000)
    summ = json.load(open(os.path.join(out, "summary.json")))
    log("  driver: %d histories, %d events, %s, %d hangs (%.1fs)" % (summ["histories"], summ["events"], summ["per_kind"],
                                                                      summ["hangs"], r["wall_s"]))
    return out, summ


def judge(ctx, out, summ, confirm=True):
    viol = monitor(ctx, "StoreMon", summ["files"], label="L3", heap="4g", par=8)
    scen = {s["id"]: s for s in read_ndjson(os.path.join(out, "scenarios.ndjson"))}
    seen, other = set(), set()
    cache = {}
    for v in sorted(viol, key=lambda v: (v["t"], v["i"])):
        key = (v["file"], v["t"])
        if key not in cache:
            cache[key] = trace_of(v["file"], v["t"], 5000)
        tr = cache[key]
        lastop = ""
        for r in tr:
            if r["i"] > v["i"]:
                break
            if r["e"] in ("op", "pop") and r["op"] in MUT:
                lastop = r["op"]
        if v["inv"].startswith("Concurrent"):
            # the whole tail counts: a Delete or GC among its operations makes it C09's business too
            tail = [r["op"] for r in tr if r["e"] == "pop" and r["i"] <= v["i"]]
            k = max([i for i, r in enumerate(tr) if r["e"] == "par" and r["i"] <= v["i"]] or [0])
            tail = [r["op"] for r in tr[k:] if r["e"] == "pop" and r["i"] <= v["i"]]
            if any(o in ("delete", "gc") for o in tail):
                lastop = "gc" if "gc" in tail else "delete"
        own = owners(v["inv"], lastop)
        if not own:
            raise Infra("judgement %s of StoreMon.tla failed and no property owns it" % v["inv"])
        if ctx.pid not in own:
            other.add(v["inv"])
            continue
        if (v["inv"], v["t"]) in seen:
            continue
        seen.add((v["inv"], v["t"]))
        sc = scen[v["t"]]
        upto = [r for r in tr if r["i"] <= v["i"]]
        report(ctx, "store-history", v["inv"], sc, upto[-12:],
               what="%s failed at event %d of history %d (%s store, autogc=%s autosave=%s, after %s)" % (
                   v["inv"], v["i"], v["t"], sc["kind"], sc["autogc"], sc["autosave"], lastop))
    if other:
        ctx.notes.append("judgements of sibling properties failed in this run (not counted here): %s" % sorted(other))
    return viol


def run(ctx, replay=None):
    if replay:
        body = json.load(open(replay))
        p = os.path.join(ctx.sub("replay"), "scen.ndjson")
        open(p, "w").write(json.dumps(body["scenario"]) + "\n")
        out, summ = drive(ctx, {"VH_REPLAY": p})
        judge(ctx, out, summ)
        return {}
    if ctx.quick:
        l1(ctx, "MCStore", l1cfg(3, 5), name="L1-MCStore-N3-ops5")
    else:
        l1(ctx, "MCStore", l1cfg(3, 7), name="L1-MCStore-N3-ops7")
        l1(ctx, "MCStore", l1cfg(4, 5), name="L1-MCStore-N4-ops5", timeout=3000)
    count = (800 if ctx.pid in ('C08', 'C09') else 400) if ctx.quick else 12000
    out, summ = drive(ctx, {"VH_COUNT": count, "VH_KINDS": KINDS[ctx.pid]})
    judge(ctx, out, summ)
    if summ["hangs"]:
        ctx.notes.append("%d histories ended in a hang" % summ["hangs"])
    scen = read_ndjson(os.path.join(out, "scenarios.ndjson"))
    distinct = {json.dumps([s["kind"], s["nodes"], s["ops"], s["autogc"], s["autosave"], s.get("par"), s.get("choices")]) for s in scen
                if len(s["ops"]) >= 5}
    nops = sum(len(s["ops"]) + len(s.get("par") or []) for s in scen)
    mid = scen[len(scen) // 2]
    helper = {}
    if ctx.pid == "C06":
        import fam_contentops
        helper = fam_contentops.extra(ctx)
    return dict(helper, **{
        "evaluations": nops, "distinct_nontrivial": len(distinct),
        "rule": "one evaluation = one operation of a history executed on a real store (followed by the observations); "
                "distinct_nontrivial counts distinct histories (store kind, universe, options, operation sequence) with "
                "at least 5 operations",
        "traces_validated_against_impl": summ["histories"],
        "samples": [{"scenario": mid, "trace": trace_any(summ["files"], mid["id"], 40)}],
        "histories": summ["histories"], "per_kind": summ["per_kind"], "exhaustive": False,
        "concurrent_tails": sum(1 for s in scen if s.get("par")),
    })
