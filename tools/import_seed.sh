#!/bin/bash
# tools/import_seed.sh <cNN> <m3|m4>...: copies a sub-agent's seeded change from /tmp/seed2 into seeded/ and evaluates it at the quick tier
c="$1"; shift
C=$(echo "$c" | tr c C)
rel() { case "$1" in C01|C02|C03|C04) echo "C01 C02 C03 C04";; C08) echo "C08 C10";; C10) echo "C10 C08";; C13) echo "C13 C14";; *) echo "$1";; esac; }
for m in "$@"; do
  d=/verif/seeded/$C-$m; mkdir -p "$d"
  src=${SEEDSRC:-/tmp/seed2}; cp $src/$c/$m/patch.diff $src/$c/$m/README.md $src/$c/$m/demo.txt $src/$c/$m/*_test.go "$d/" 2>/dev/null
  (cd /repo && git apply --check "$d/patch.diff" 2>&1 | head -1)
  /verif/tools/seed_eval.sh "$d" quick $(rel $C) 2>&1 | grep "^seeded" | cut -c1-220
done
