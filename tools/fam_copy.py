"""Copy family: C01 C02 C03 C04.

L1  CopyGraph.tla exhaustively (every DAG on N nodes, every link-closed initial
    destination, faults, cancellation).
L2  CopyGraphTrace.tla: recorded executions of the real oras.CopyGraph are
    behaviours of CopyGraph.tla (silent internal steps inferred by TLC).
L3  CopyMon.tla: the properties themselves, judged by TLC on every state of every
    recorded execution of the real oras.Copy/CopyGraph/ExtendedCopy(Graph)."""
import collections
import glob
import json
import os

from vlib import (Infra, apalache, go_test, l1, log, monitor, read_ndjson, report, tlc, trace_of)

INVS = {
    "C01": {"SuccessComplete", "SuccessBytes", "EdgesResolvable", "PresentBytes", "RootTagged", "ReturnedRoot", "NothingElse"},
    "C02": {"ClosedAtPush", "PushAfterSucc", "ClosedFinal", "FaultSurfaces", "NoSpuriousError", "NoHang",
            "RetrySucceeds"},
    "C03": {"ExtAllAncestors", "ExtAllBytes", "ExtDepthBound", "SuccessComplete", "SuccessBytes", "RootTagged",
            "ReturnedRoot"},
    "C04": {"InFlightSrc", "InFlightDst", "PushOnce", "BlobFetchOnce", "CbPreOnce", "CbPostAfterPre",
            "CbMountedGrammar", "CbMountedPresent", "CbSkippedAlone", "CbSkippedPresent", "CbPostAfterSuccessors", "CbPostAfterPush",
            "CallbackErrorReturned", "TransferredNotified", "Quiescent", "PermitReleasedOnlyIfHeld"},
}
MACHINERY = {"KnownNode", "DstMonotone"}   # a failure of these is a harness defect, never a verdict

L1_INV = ("ClosedInv FaultSurfaces NoSpuriousError AllQuiet SuccessComplete SemInv OpsHoldPermit SingleOwner "
          "OnlyOwnerWorks DoneMeansPresent")


def l1cfg(n, c, faults, cancel, live=False):
    return ("CONSTANTS N = %d\n C = %d\n MaxFaults = %d\n MaxCancel = %d\nSPECIFICATION %s\nINVARIANTS %s\n"
            "PROPERTIES PushAfterSucc%s\n") % (n, c, faults, cancel, "FairSpec" if live else "Spec", L1_INV,
                                               " Terminates" if live else "")


PLANS = {
    ("C01", "quick"): "exh:3:400,crafted:60:3,random:600,remote:500",
    ("C01", "thorough"): "exh:4:2000,crafted:3000:20,random:20000,remote:15000",
    ("C02", "quick"): "faults:3:2,cancel:3:2,crafted:30:10,faultsR:10:2,random:400,ext:400,extf:400,remote:400",
    ("C02", "thorough"): "faults:4:6,cancel:4:3,exh:3:400,crafted:2000:100,faultsR:300:4,random:20000,ext:20000,extf:10000,remote:10000",
    ("C03", "quick"): "ext:1200,extf:1200",
    ("C03", "thorough"): "ext:40000,extf:40000",
    ("C04", "quick"): "exh:3:400,faults:3:1,crafted:40:2,random:600,ext:200,remote:600",
    ("C04", "thorough"): "exh:4:2000,faults:4:3,crafted:2000:20,random:20000,ext:5000,remote:15000",
}


def limiter(ctx):
    """C04, the limiter by itself (Limiter.tla): TLC over every reachable state for C = 2, four tasks, and an inductive
    invariant discharged by Apalache (Init => IndInv; IndInv /\\ Next => IndInv' from every state satisfying IndInv)."""
    l1(ctx, "Limiter", "CONSTANTS C = 2\n Task = {1, 2, 3, 4}\nSPECIFICATION Spec\nINVARIANT IndInv\nCHECK_DEADLOCK FALSE\n",
       name="L1-Limiter-C2-T4")
    a = apalache(ctx, "Limiter", ["--cinit=CInit", "--init=Init", "--inv=IndInv", "--length=0"], "Limiter-Init=>IndInv")
    b = apalache(ctx, "Limiter", ["--cinit=CInit", "--init=IndInv", "--inv=IndInv", "--length=1"], "Limiter-IndInv-inductive")
    if "error" in (a, b):
        raise Infra("Apalache found a counterexample to the inductive invariant of Limiter.tla")
    if not ctx.quick:
        # vacuity guard: with the seeded defect (ended cleared before a failing Acquire) the invariant must break
        c = apalache(ctx, "Limiter", ["--cinit=CInit", "--init=IndInv", "--next=BadNext", "--inv=IndInv", "--length=1"],
                     "Limiter-BadNext-must-break")
        if c == "ok":
            raise Infra("Limiter.tla: the invariant does not notice a permit released without being held")


def run_l1(ctx):
    p = ctx.pid
    if p == "C04":
        limiter(ctx)
    if ctx.quick:
        if p == "C02":
            l1(ctx, "CopyGraph", l1cfg(3, 2, 1, 1), name="L1-CopyGraph-N3-C2-f1-cancel")
            l1(ctx, "CopyGraph", l1cfg(3, 1, 1, 1, live=True), name="L1-CopyGraph-N3-C1-live")
            l1(ctx, "CopyGraph", l1cfg(4, 2, 1, 0), name="L1-CopyGraph-N4-C2-f1")
        else:
            l1(ctx, "CopyGraph", l1cfg(3, 2, 1, 1), name="L1-CopyGraph-N3-C2-f1-cancel")
            l1(ctx, "CopyGraph", l1cfg(4, 2, 0, 0), name="L1-CopyGraph-N4-C2")
    else:
        for c in (1, 2, 3):
            l1(ctx, "CopyGraph", l1cfg(4, c, 1, 0), name="L1-CopyGraph-N4-C%d-f1" % c, extra=["-coverage", "1"]
               if c == 2 else None)
        l1(ctx, "CopyGraph", l1cfg(4, 2, 0, 1), name="L1-CopyGraph-N4-C2-cancel")
        l1(ctx, "CopyGraph", l1cfg(3, 2, 2, 1), name="L1-CopyGraph-N3-C2-f2-cancel")
        l1(ctx, "CopyGraph", l1cfg(3, 2, 1, 1, live=True), name="L1-CopyGraph-N3-C2-live")
        l1(ctx, "CopyGraph", l1cfg(5, 2, 0, 0), name="L1-CopyGraph-N5-C2", timeout=2400)


def split_l2(ctx, files, max_events):
    """Selects copygraph traces and groups them by (N, C) for CopyGraphTrace."""
    groups = collections.defaultdict(list)
    total = 0
    for f in files:
        cur, key = None, None
        for line in open(f):
            if '"e":"init"' in line:
                r = json.loads(line)
                if cur and key:
                    groups[key].extend(cur)
                    total += len(cur)
                cur, key = [], None
                if (r["api"] == "copygraph" and r["n"] <= 5 and r["root"] == r["n"] and total < max_events
                        and r["srckind"] == "memory" and r["dstkind"] == "memory" and r["cancel"] >= 0
                        and "foreign" not in r["kinds"]
                        and not any(f[2] in ("mid", "long", "race") for f in r["faults"])):      # a stream that breaks half-way / another writer are not in CopyGraph.tla
                    key = (r["n"], r["c"])
            if cur is not None:
                cur.append(line)
        if cur and key:
            groups[key].extend(cur)
            total += len(cur)
    out = []
    d = ctx.sub("l2")
    for (n, c), lines in sorted(groups.items()):
        # bounded files: split on init boundaries
        chunk, k = [], 0
        def flush():
            nonlocal chunk, k
            if chunk:
                p = os.path.join(d, "l2-N%d-C%d-%02d.ndjson" % (n, c, k))
                open(p, "w").writelines(chunk)
                out.append((n, c, p, len(chunk)))
                chunk, k = [], k + 1
        for line in lines:
            if '"e":"init"' in line and len(chunk) > 4000:
                flush()
            chunk.append(line)
        flush()
    return out


def run_l2(ctx, files):
    from concurrent.futures import ThreadPoolExecutor
    parts = split_l2(ctx, files, 30000 if ctx.quick else 400000)
    conf = {"files": len(parts), "events": 0, "accepted_events": 0, "nonconforming": []}

    def one(ix_part):
        ix, (n, c, path, nlines) = ix_part
        outp = os.path.join(ctx.sub("mon-out"), "L2-%03d.json" % ix)
        cfg = ('CONSTANTS\n N = %d\n C = %d\n MaxFaults = 0\n MaxCancel = 1\n TraceFile = "trace.ndjson"\n'
               ' OutFile = "%s"\nSPECIFICATION TSpec\nINVARIANTS ClosedInv SemInv OpsHoldPermit OnlyOwnerWorks '
               'DoneMeansPresent\nCONSTRAINT HW\nPOSTCONDITION Report\nCHECK_DEADLOCK FALSE\n') % (n, c, outp)
        r = tlc(ctx, "CopyGraphTrace", cfg, files={"trace.ndjson": path}, workers=1, timeout=1500, heap="4g",
                name="L2-%03d" % ix, dfs=True)
        return path, outp, nlines, r
    with ThreadPoolExecutor(max_workers=8) as ex:
        for path, outp, nlines, r in ex.map(one, list(enumerate(parts))):
            ctx.mon.append({"name": r["name"], "generated": r["generated"], "distinct": r["distinct"],
                            "wall_s": r["wall_s"], "events": nlines})
            conf["events"] += nlines
            consumed = 0
            if os.path.exists(outp):
                consumed = json.load(open(outp))["consumed"]
            conf["accepted_events"] += consumed
            if not r["ok"] or consumed != nlines:
                lines = open(path).readlines()
                first = json.loads(lines[min(consumed, len(lines) - 1)])
                why = "invariant of CopyGraph.tla violated" if not r["ok"] else "no matching action"
                conf["nonconforming"].append({"file": os.path.basename(path), "line": consumed + 1, "event": first,
                                              "why": why})
    conf["conforms"] = not conf["nonconforming"]
    for nc in conf["nonconforming"][:5]:
        log("NONCONFORMANCE property=%s L2 CopyGraphTrace %s line %d (%s): %s" % (
            ctx.pid, nc["file"], nc["line"], nc["why"], json.dumps(nc["event"])[:200]))
    log("  L2 CopyGraphTrace %d files %d/%d events accepted" % (conf["files"], conf["accepted_events"], conf["events"]))
    return conf


def scen_index(outdir):
    idx = {}
    for s in read_ndjson(os.path.join(outdir, "scenarios.ndjson")):
        idx[s["id"]] = s
    return idx


SEM_PANIC = "semaphore: released more than held"


class DriverPanic(Exception):
    """The driver process died because a goroutine of the library panicked with the limiter's complaint."""

    def __init__(self, sc, outdir):
        Exception.__init__(self, "library panic in scenario %s" % sc.get("id"))
        self.sc, self.outdir = sc, outdir


def drive(ctx, plans, replay=None, name="drv", sync=False):
    out = ctx.sub(name)
    env = {"VH_OUT": out, "VH_PLANS": plans, "VH_SEED": ctx.seed}
    if replay:
        env["VH_REPLAY"] = replay
    if sync:
        env["VH_SYNC"] = "1"
    try:
        r = go_test(ctx, "copyfam", "TestDrive", env, timeout=3000)
    except Infra as e:
        cur = os.path.join(out, "current.json")
        if ("panic: " + SEM_PANIC) in getattr(e, "out", "") and os.path.exists(cur):
            raise DriverPanic(json.load(open(cur)), out)
        raise
    summ = json.load(open(os.path.join(out, "summary.json")))
    log("  driver: %d executions, %d events, %d failed calls, %d hangs (%.1fs)" % (
        summ["executions"], summ["events"], summ["errors"], summ["hangs"], r["wall_s"]))
    return out, summ


def judge(ctx, outdir, summ, invs, confirm=True):
    viol = monitor(ctx, "CopyMon", summ["files"], label="L3")
    bad_machinery = [v for v in viol if v["inv"] in MACHINERY]
    if bad_machinery:
        raise Infra("harness self-check failed: %s" % bad_machinery[:3])
    known = set().union(*INVS.values()) | MACHINERY
    unowned = sorted({v["inv"] for v in viol} - known)
    if unowned:
        raise Infra("judgements of CopyMon.tla that no property owns failed: %s" % unowned)
    idx = scen_index(outdir)
    mine = [v for v in viol if v["inv"] in invs]
    other = [v for v in viol if v["inv"] not in invs]
    if other:
        names = sorted({v["inv"] for v in other})
        ctx.notes.append("judgements of sibling properties failed in this run (not counted here): %s" % names)
        log("  note: %d failed judgements belong to sibling properties: %s" % (len(other), names))
    # one report per (invariant, scenario)
    seen = set()
    unrepro, confirmed = [], 0
    for v in mine:
        if (v["inv"], v["t"]) in seen:
            continue
        seen.add((v["inv"], v["t"]))
        sc = idx.get(v["t"])
        if sc is None:
            raise Infra("violation refers to unknown scenario %s" % v["t"])
        if confirm and len(seen) <= 12:
            if not any(reproduce(ctx, sc, v["inv"], k) for k in range(3)):
                unrepro.append((v["inv"], v["t"]))
                log("  note: %s of scenario %d did not reproduce on 3 replays; not reported" % (v["inv"], v["t"]))
                continue
            confirmed += 1
        report(ctx, "copy-scenario", v["inv"], sc, trace_of(v["file"], v["t"]),
               what="%s failed at event %d of scenario %d (api=%s C=%s faults=%s cancel=%s)" % (
                   v["inv"], v["i"], v["t"], sc["api"], sc["c"], sc.get("faults"), sc.get("cancel")))
    if unrepro and not confirmed:
        raise Infra("no violation reproduced on replay: %s" % unrepro[:5])
    if unrepro:
        ctx.notes.append("unreproduced judgements dropped: %s" % unrepro)
    return viol


def reproduce(ctx, sc, inv, attempt=0):
    """Re-executes the scenario (same schedule) on the real code and judges it again."""
    d = ctx.sub("repro-%d-%d" % (sc["id"], attempt))
    p = os.path.join(d, "scen.ndjson")
    with open(p, "w") as f:
        f.write(json.dumps(sc) + "\n")
    out, summ = drive(ctx, "", replay=p, name="repro-%d-%d-out" % (sc["id"], attempt))
    viol = monitor(ctx, "CopyMon", summ["files"], label="L3r%d-%d" % (sc["id"], attempt))
    return any(v["inv"] == inv for v in viol)


def read_ndjson_tolerant(path):
    out = []
    for line in open(path):
        try:
            out.append(json.loads(line))
        except ValueError:
            break       # the process died in the middle of this line
    return out


def panicked(ctx, sc):
    """The library made the driver process panic with the limiter's complaint.  The scenario is replayed alone, with every
    event flushed; when the crash reproduces, the recorded prefix plus a `panic` event is judged by CopyMon.tla."""
    for k in range(3):
        d = ctx.sub("panic-%d" % k)
        p = os.path.join(d, "scen.ndjson")
        with open(p, "w") as f:
            f.write(json.dumps(sc) + "\n")
        try:
            drive(ctx, "", replay=p, name="panic-%d-out" % k, sync=True)
        except DriverPanic as dp:
            files = sorted(glob.glob(os.path.join(dp.outdir, "trace-*.ndjson")))
            if not files:
                raise Infra("the replay of the panicking scenario left no trace")
            evs = read_ndjson_tolerant(files[-1])
            t = evs[-1]["t"] if evs else 1
            evs.append({"e": "panic", "what": SEM_PANIC, "t": t, "i": (evs[-1]["i"] if evs else 0) + 1})
            with open(files[-1], "w") as f:
                for ev in evs:
                    f.write(json.dumps(ev) + "\n")
            viol = monitor(ctx, "CopyMon", [files[-1]], label="L3panic")
            mine = [v for v in viol if v["inv"] in INVS["C04"]]
            if not any(v["inv"] == "PermitReleasedOnlyIfHeld" for v in mine):
                raise Infra("CopyMon did not judge the panic event")
            seen = set()
            for v in mine:
                if v["inv"] in seen:
                    continue
                seen.add(v["inv"])
                report(ctx, "copy-scenario", v["inv"], sc, evs[-40:],
                       what="%s failed at event %d of scenario %s (api=%s C=%s cberr=%s cancel=%s): the library panicked with %r" % (
                           v["inv"], v["i"], sc.get("id"), sc["api"], sc["c"], sc.get("cberr"), sc.get("cancel"), SEM_PANIC))
            return {"evaluations": 1, "distinct_nontrivial": 1, "traces_validated_against_impl": 1, "exhaustive": False,
                    "driver_died": "the library panicked (%s); the remaining scenarios of this run were not executed" % SEM_PANIC}
    raise Infra("the driver died with a library panic (%s) in scenario %s, which did not reproduce on 3 replays" % (
        SEM_PANIC, sc.get("id")))


TWIN_INVS = {
    "C01": {"TwinSuccessComplete", "TwinEdgesResolvable", "TwinRootTagged", "TwinReturnedRoot", "TwinBothReturned"},
    "C02": {"TwinClosedAtPush", "TwinPushAfterSucc", "TwinClosedFinal", "TwinNoSpuriousError", "TwinNoHang"},
    "C04": {"TwinPreThenPost", "TwinSkippedAlone"},
}


def twin(ctx, replay=None):
    """Two concurrent Copy calls of one root into one destination (harness/copyfam/twin_test.go, spec/TwinMon.tla)."""
    out = ctx.sub("twin")
    env = {"VH_OUT": out, "VH_SEED": ctx.seed, "VH_TWIN": 400 if ctx.quick else 20000}
    if replay:
        env["VH_REPLAY"] = replay
    r = go_test(ctx, "copyfam", "TestTwin", env, timeout=3000)
    summ = json.load(open(os.path.join(out, "summary.json")))
    log("  twin copies: %d executions, %d hangs (%.1fs)" % (summ["executions"], summ["hangs"], r["wall_s"]))
    viol = monitor(ctx, "TwinMon", summ["files"], label="L3")
    known = set().union(*TWIN_INVS.values())
    unowned = sorted({v["inv"] for v in viol} - known)
    if unowned:
        raise Infra("judgements of TwinMon.tla that no property owns failed: %s" % unowned)
    scen = {s["id"]: s for s in read_ndjson(os.path.join(out, "scenarios.ndjson"))}
    seen = set()
    for v in viol:
        if v["inv"] not in TWIN_INVS[ctx.pid] or (v["inv"], v["t"]) in seen:
            continue
        seen.add((v["inv"], v["t"]))
        tr = trace_of(v["file"], v["t"], 400)
        report(ctx, "twin-copy", v["inv"], scen[v["t"]], tr[-14:], what="%s failed in twin copy %d (dst %s, root %d)" % (
            v["inv"], v["t"], scen[v["t"]]["dstkind"], scen[v["t"]]["root"]))
    return summ["executions"]


def run(ctx, replay=None):
    pid = ctx.pid
    invs = INVS[pid]
    if replay:
        body = json.load(open(replay))
        d = ctx.sub("replay")
        p = os.path.join(d, "scen.ndjson")
        open(p, "w").write(json.dumps(body["scenario"]) + "\n")
        if body["scenario"].get("api") == "twincopy":
            twin(ctx, replay=p)
            return {}
        out, summ = drive(ctx, "", replay=p)
        judge(ctx, out, summ, invs, confirm=False)
        return finish(ctx, summ, None, {})
    run_l1(ctx)
    try:
        out, summ = drive(ctx, PLANS[(pid, ctx.tier)])
    except DriverPanic as dp:
        if pid != "C04":
            raise Infra("the driver died: the library panicked with %r in scenario %s (api=%s C=%s); the limiter's "
                        "accounting is judged by C04" % (SEM_PANIC, dp.sc.get("id"), dp.sc.get("api"), dp.sc.get("c")))
        return panicked(ctx, dp.sc)
    judge(ctx, out, summ, invs)
    conf = run_l2(ctx, summ["files"]) if pid in ("C01", "C02", "C04") else None
    extra = {}
    if pid in TWIN_INVS:
        extra["twin_copy_executions"] = twin(ctx)
    return finish(ctx, summ, conf, extra)


def finish(ctx, summ, conf, extra):
    out = os.path.dirname(summ["files"][0])
    scen = read_ndjson(os.path.join(out, "scenarios.ndjson"))
    # distinct non-trivial scenarios: distinct (graph, call, faults, schedule) in which the library transferred
    # at least one node or a fault/cancellation fired
    keys = set()
    for s in scen:
        nontrivial = len(s.get("choices") or []) >= 3
        if nontrivial:
            keys.add(json.dumps([s["nodes"], s["api"], s["root"], s["dst0"], s["c"], s["depth"], s["faults"],
                                 s["cancel"], s["cberr"], s.get("choices"), s["refdst"], s["maproot"], s["dstref"]]))
    sample_t = scen[len(scen) // 2]["id"] if scen else 0
    sample_trace = []
    for f in summ["files"]:
        sample_trace = trace_of(f, sample_t, 60)
        if sample_trace:
            break
    cov = {
        "evaluations": summ["executions"],
        "distinct_nontrivial": len(keys),
        "rule": "one evaluation = one execution of the real library call under one gate-level schedule and fault "
                "plan; non-trivial = the schedule has at least 3 gated storage operations; distinct = distinct "
                "(graph, call, options, fault plan, full schedule) tuples",
        "traces_validated_against_impl": summ["executions"],
        "samples": [{"scenario": scen[len(scen) // 2] if scen else None, "trace": sample_trace}],
        "plans": summ["plans"], "failed_calls": summ["errors"], "hangs": summ["hangs"],
        "exhaustive": False,
        "impl_conformance": conf,
        "explanation": "states/transitions sum the exhaustive L1 runs of CopyGraph.tla and the TLC runs over "
                       "recorded traces (L2 CopyGraphTrace, L3 CopyMon); see l1_runs / trace_states",
    }
    cov.update(extra)
    return cov
