"""A small parser for the values TLC prints (state dumps): numbers, strings, booleans, <<tuples>>, {sets},
[records], (functions written k :> v @@ k2 :> v2).  Tuples become lists, records dicts, functions lists of [k, v]."""
import re

_TOK = re.compile(r'\s*(<<|>>|\|->|:>|@@|[\[\]{}(),]|"(?:[^"\\]|\\.)*"|-?\d+|[A-Za-z_][A-Za-z_0-9]*)')


def tokens(s):
    pos, out = 0, []
    while pos < len(s):
        m = _TOK.match(s, pos)
        if not m:
            if s[pos:].strip() == "":
                break
            raise ValueError("cannot tokenize at %r" % s[pos:pos + 30])
        out.append(m.group(1))
        pos = m.end()
    return out


def parse(s):
    toks = tokens(s)
    v, i = _val(toks, 0)
    if i != len(toks):
        raise ValueError("trailing tokens %r" % toks[i:i + 5])
    return v


def _val(t, i):
    x = t[i]
    if x == "<<":
        out, i = [], i + 1
        while t[i] != ">>":
            v, i = _val(t, i)
            out.append(v)
            if t[i] == ",":
                i += 1
        return out, i + 1
    if x == "{":
        out, i = [], i + 1
        while t[i] != "}":
            v, i = _val(t, i)
            out.append(v)
            if t[i] == ",":
                i += 1
        return out, i + 1
    if x == "[":
        out, i = {}, i + 1
        while t[i] != "]":
            k = t[i]
            assert t[i + 1] == "|->", t[i:i + 3]
            v, i = _val(t, i + 2)
            out[k] = v
            if t[i] == ",":
                i += 1
        return out, i + 1
    if x == "(":
        out, i = [], i + 1
        while t[i] != ")":
            k, i = _val(t, i)
            assert t[i] == ":>", t[i - 2:i + 2]
            v, i = _val(t, i + 1)
            out.append([k, v])
            if t[i] == "@@":
                i += 1
        return out, i + 1
    if x.startswith('"'):
        return x[1:-1], i + 1
    if x == "TRUE":
        return True, i + 1
    if x == "FALSE":
        return False, i + 1
    if re.fullmatch(r"-?\d+", x):
        return int(x), i + 1
    return x, i + 1


def states(dump_path):
    """Yields one dict {var: value} per state of a TLC -dump file."""
    cur = None
    with open(dump_path) as f:
        for line in f:
            if line.startswith("State "):
                if cur is not None:
                    yield _state(cur)
                cur = []
            elif cur is not None:
                cur.append(line)
    if cur:
        yield _state(cur)


def _state(lines):
    text = "".join(lines)
    out = {}
    parts = re.split(r"^/\\ ", text, flags=re.M)
    for p in parts:
        p = p.strip()
        if not p:
            continue
        name, _, val = p.partition(" = ")
        out[name.strip()] = parse(val)
    return out
