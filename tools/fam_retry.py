"""C17: re-sent requests carry the whole body; retries are bounded and paced.

L1  Retry.tla: the retry loop as a state machine over every server script of <= 3-4 answers x body kind x MaxRetry x
    cancellation point; invariants are the property's clauses; liveness (Terminates) under fairness.
A   RetryCases.tla emits the case space; the driver replays it into the real retry.Transport under synctest's virtual
    clock (pauses measured exactly), plus the auth client over the retrying transport, plus GenericPolicy /
    ExponentialBackoff over parameter classes including 0 and extreme values.
L3  RetryJudge.tla: body completeness per attempt, attempt bound, pause bounds, Retry-After, non-retryable answers
    returned at once, cancellation.  L2: attempts and outcome equal Run(case) of RetryModel.tla."""
import json
import os

from vlib import Infra, go_test, l1, log, monitor, report, tlc, trace_of


def run(ctx, replay=None):
    maxlen = 3 if ctx.quick else 4
    cases = os.path.join(ctx.sub("cases"), "cases.json")
    if replay:
        body = json.load(open(replay))
        json.dump([body["scenario"]["c"]] if "c" in body["scenario"] else [], open(cases, "w"))
    else:
        l1(ctx, "Retry", "CONSTANT MaxLen = %d\nSPECIFICATION FairSpec\nINVARIANTS Bounded OneShotOnce NonRetryableAtOnce "
           "LastAnswerReturned CancelStops ModelAgrees\nPROPERTY Terminates\nCHECK_DEADLOCK FALSE\n" % maxlen,
           name="L1-Retry-len%d" % maxlen, timeout=2400)
        r = tlc(ctx, "RetryCases", 'CONSTANTS MaxLen = %d\n OutFile = "%s"\n' % (maxlen, cases), workers=1, timeout=900, name="emit",
                heap="6g")
        if not os.path.exists(cases):
            raise Infra("case emission failed:\n" + r["out"][-2000:])
    out = ctx.sub("drv")
    r = go_test(ctx, "retryfam", "TestDrive", {"VH_OUT": out, "VH_CASES": cases}, timeout=3000)
    summ = json.load(open(os.path.join(out, "summary.json")))
    log("  driver: %d cases of the model, %d auth-over-retry runs, %d policy evaluations (%.1fs)" % (
        summ["cases"], summ["stack"], summ["policy"], r["wall_s"]))
    viol = monitor(ctx, "RetryJudge", summ["files"], cfg_extra="CONSTANT MaxLen = %d\n" % maxlen, spec="JSpec", label="L3",
                   heap="4g", par=6)
    nonconf = 0
    for m in os.listdir(ctx.sub("mon-out")):
        nonconf += len(json.load(open(os.path.join(ctx.sub("mon-out"), m))).get("nonconf", []))
    if nonconf:
        log("NONCONFORMANCE property=C17 L2: %d cases differ from Run(case) of RetryModel.tla" % nonconf)
    seen = set()
    for v in viol:
        rec = trace_of(v["file"], v["t"], 2)[0]
        key = (v["inv"], rec["kind"], json.dumps(rec.get("c", rec.get("name", rec.get("case")))))
        if key in seen:
            continue
        seen.add(key)
        sc = {k: rec[k] for k in rec if k in ("kind", "c", "name", "body", "maxretry", "attempt", "backoffns", "factor", "jitter",
                                               "status", "retryafter")}
        report(ctx, "retry-case", v["inv"], sc, [rec], what="%s: %s" % (v["inv"], json.dumps(rec)[:400]))
    return {
        "evaluations": summ["records"], "distinct_nontrivial": summ["cases"],
        "rule": "one evaluation = one call through the real retry.Transport for one case of the TLC-emitted case space "
                "(script <= %d x body kind x MaxRetry x cancellation point), or one auth-over-retry run, or one policy "
                "evaluation; every case is distinct" % maxlen,
        "traces_validated_against_impl": summ["records"], "samples": trace_of(summ["files"][0], 4000, 2)[:1],
        "exhaustive": True, "impl_conformance": {"conforms": nonconf == 0, "differing_cases": nonconf},
    }
