#!/bin/bash
# tools/seed_eval.sh <seeded dir> <tier> <ids...>: evaluates the checks against a seeded change in a scratch worktree
# (VERIF_REPO), leaving /repo alone. Prints one line per check.
here="$(dirname "$(dirname "$(readlink -f "$0")")")"
sd="$(readlink -f "$1")"; tier="$2"; shift 2
name=$(basename "$(dirname "$sd")")-$(basename "$sd")
wt=/tmp/wte/$name
rm -rf "$wt"; git -C /repo worktree prune; git -C /repo worktree add -q --detach "$wt" HEAD || exit 2
git -C "$wt" apply "$sd/patch.diff" || { echo "patch does not apply"; exit 2; }
for id in "$@"; do
  out=$(VERIF_REPO="$wt" VERIF_NOEVIDENCE=1 "$here/check" "$id" "$tier" 2>&1); rc=$?
  invs=$(echo "$out" | grep -oE "^  [A-Za-z]+( failed|:)" | sed 's/ failed//; s/://' | sort | uniq -c | sort -rn | awk '{printf "%s(%s) ", $2, $1}')
  [ $rc -eq 2 ] && echo "$out" | tail -5 | cut -c1-300
  echo "$name $id $tier rc=$rc VIOLATION=$(echo "$out" | grep -c '^VIOLATION') NONCONFORMANCE=$(echo "$out" | grep -c '^NONCONFORMANCE') $invs"
done
git -C /repo worktree remove --force "$wt"
