"""C14: client-maintained referrers indexes lose no update under concurrency.

L1  Referrers.tla: syncutil.Merge batching (assign / commit / complete), the index read-modify-write and the deletion of
    the superseded index, for NP concurrent processes on one subject, every choice of push/delete operations and every
    exact pre-existing index; IndexExact and NoDangling in every quiescent state of every interleaving.
B   real remote.Repository (capability set to 'no Referrers API') against the in-process registry: concurrent pushes and
    deletions of referrers of one or two subjects; the HTTP exchanges are scheduled at a gate under synctest (seeded and
    exhaustive-prefix schedules), plus un-gated rounds with real parallelism; pre-existing indexes with duplicates and
    empty entries; an injected failure of the old-index deletion; SkipReferrersGC.
L3  ReferrersMon.tla judges the quiescent observation made through a fresh Repository and the registry's own content.
Capability clause ("a repository's detected referrers capability never flips"):
L1  Capability.tla: SetReferrersCapability / Referrers / Push / Delete as the sequence of their loads, requests and
    compare-and-swaps, every interleaving, registry answer allowed to change; Monotone (action property) and EvidenceSound
    (the monitor's evidence rules agree with the modelled state in every reachable state).
B   capability rounds: an unconfigured Repository, concurrent SetReferrersCapability / Referrers / Push / Delete calls and a
    registry that may flip its answer, gate-scheduled; every exchange logged with the call that issued it.
L3  CapabilityMon.tla derives what each returned call proves about the capability and rejects contradicting evidence."""
import json
import os

from vlib import Infra, go_test, l1, log, monitor, read_ndjson, report, trace_any, trace_of


def drive(ctx, env, test="TestDrive", sub="drv"):
    out = ctx.sub(sub)
    e = {"VH_OUT": out, "VH_SEED": ctx.seed}
    e.update(env)
    r = go_test(ctx, "referrersfam", test, e, timeout=3000)
    summ = json.load(open(os.path.join(out, "summary.json")))
    log("  driver %s: %d rounds, %d events, %d hangs (%.1fs)" % (test, summ["scenarios"], summ["events"], summ["hangs"], r["wall_s"]))
    return out, summ


def judge(ctx, module, kind, out, summ):
    viol = monitor(ctx, module, summ["files"], label="L3", heap="3g", par=6)
    scen = {s["id"]: s for s in read_ndjson(os.path.join(out, "scenarios.ndjson"))}
    seen = set()
    for v in viol:
        if (v["inv"], v["t"]) in seen:
            continue
        seen.add((v["inv"], v["t"]))
        tr = trace_of(v["file"], v["t"], 100)
        report(ctx, kind, v["inv"], scen[v["t"]], tr, what="%s failed in round %d: ops=%s pre=%s -> %s" % (
            v["inv"], v["t"], scen[v["t"]]["ops"], scen[v["t"]]["pre"], json.dumps(tr[-1])[:300]))
    return scen


def run(ctx, replay=None):
    cout = csumm = out = summ = None
    if replay:
        body = json.load(open(replay))
        p = os.path.join(ctx.sub("replay"), "scen.ndjson")
        open(p, "w").write(json.dumps(body["scenario"]) + "\n")
        if "truth" in body["scenario"]:
            cout, csumm = drive(ctx, {"VH_REPLAY": p}, "TestCapability", "cap")
        else:
            out, summ = drive(ctx, {"VH_REPLAY": p})
    else:
        l1(ctx, "Referrers", "CONSTANT NP = %d\nSPECIFICATION Spec\nINVARIANTS IndexExact NoDangling\nCHECK_DEADLOCK FALSE\n"
           % (3 if ctx.quick else 4), name="L1-Referrers", timeout=3000)
        l1(ctx, "Capability", "CONSTANTS NP = %d\n MaxFlips = %d\nSPECIFICATION Spec\nINVARIANTS TypeOK EvidenceSound DetectionFaithful "
           "LockHeldInPing\nPROPERTIES Monotone\nCHECK_DEADLOCK FALSE\n" % ((3, 1) if ctx.quick else (4, 2)), name="L1-Capability", timeout=3000)
        out, summ = drive(ctx, {"VH_GATED": 1200 if ctx.quick else 40000, "VH_STRESS": 300 if ctx.quick else 5000})
        cout, csumm = drive(ctx, {"VH_CAP": 1500 if ctx.quick else 20000}, "TestCapability", "cap")
    scen, cscen = {}, {}
    if out:
        scen = judge(ctx, "ReferrersMon", "referrers-round", out, summ)
    if cout:
        cscen = judge(ctx, "CapabilityMon", "capability-round", cout, csumm)
    first = summ or csumm
    mid = sorted(scen)[len(scen) // 2] if scen else 1
    return {
        "evaluations": (summ["scenarios"] if summ else 0) + (csumm["scenarios"] if csumm else 0),
        "distinct_nontrivial": len({json.dumps([s["ops"], s["pre"], s.get("choices"), s["subjects"], s["dirty"], s["faildel"], s.get("failidx"), s["skipgc"]])
                                    for s in scen.values()}) + len({json.dumps([s["ops"], s["truth"], s.get("choices")]) for s in cscen.values()}),
        "rule": "one evaluation = one round of 2-6 concurrent calls through one real Repository (one gate-level schedule of its HTTP "
                "exchanges, or one un-gated run): referrer pushes/deletions on a registry without the Referrers API, or capability "
                "rounds (SetReferrersCapability/Referrers/Push/Delete with a registry that may change its answer); distinct = "
                "distinct (operations, pre-existing content, options, schedule)",
        "traces_validated_against_impl": (summ["scenarios"] if summ else 0) + (csumm["scenarios"] if csumm else 0),
        "samples": trace_any(first["files"], mid, 12), "exhaustive": False,
    }
