"""C13: a remote Repository is a faithful, spec-conforming view of the registry.

L1  Registry.tla is the server model (state, allowed request forms, Serve); MCRegistry.tla explores it (request
    sequences over a small universe) for the model's own invariants.
B   a real remote.Repository is driven through API histories (push, fetch, exists, resolve, tag, push/fetch by
    reference, delete, mount, predecessors, tags, seek) against the harness's in-process registry under every
    capability profile, with single-field corruptions of otherwise valid responses.
L2  RegistryMon.tla replays every logged exchange through Serve: the in-process registry answers and changes state as
    the model does (the fake is validated against the TLA+ model, not trusted).
L3  RegistryMon.tla: RequestAllowed for every request, ViewFaithful for every API result, ContradictionFails, Seek."""
import json
import os

from vlib import Infra, go_test, l1, log, monitor, read_ndjson, report, trace_any, trace_of

FAKE = {"FakeStatus", "FakeState", "FakeSubjectHeader", "FakeDigestHeader"}


def drive(ctx, env):
    out = ctx.sub("drv")
    e = {"VH_OUT": out, "VH_SEED": ctx.seed}
    e.update(env)
    r = go_test(ctx, "remotefam", "TestDrive", e, timeout=3000)
    summ = json.load(open(os.path.join(out, "summary.json")))
    log("  driver: %d histories, %d events (%.1fs)" % (summ["scenarios"], summ["events"], r["wall_s"]))
    return out, summ


def run(ctx, replay=None):
    if replay:
        body = json.load(open(replay))
        p = os.path.join(ctx.sub("replay"), "scen.ndjson")
        open(p, "w").write(json.dumps(body["scenario"]) + "\n")
        out, summ = drive(ctx, {"VH_REPLAY": p})
    else:
        l1(ctx, "MCRegistry", "CONSTANT MaxReq = %d\nSPECIFICATION Spec\nINVARIANTS TagsPointToManifests UploadsBelong "
           "AllowedAnswered DeleteRemovesTags\nCHECK_DEADLOCK FALSE\n" % (3 if ctx.quick else 4), name="L1-MCRegistry", timeout=2400)
        out, summ = drive(ctx, {"VH_COUNT": 600 if ctx.quick else 60000})
    viol = monitor(ctx, "RegistryMon", summ["files"], label="L3", heap="4g", par=6)
    fake = [v for v in viol if v["inv"] in FAKE]
    if fake:
        v = fake[0]
        tr = trace_of(v["file"], v["t"], 4000)
        rec = [x for x in tr if x["i"] == v["i"]][0]
        raise Infra("the in-process registry disagrees with Registry.tla (%s) at %s" % (v["inv"], json.dumps(rec)[:600]))
    scen = {s["id"]: s for s in read_ndjson(os.path.join(out, "scenarios.ndjson"))}
    seen = set()
    for v in viol:
        if (v["inv"], v["t"]) in seen:
            continue
        seen.add((v["inv"], v["t"]))
        tr = trace_of(v["file"], v["t"], 4000)
        upto = [x for x in tr if x["i"] <= v["i"]]
        k = len(upto) - 1
        while k > 0 and upto[k]["e"] != "call":
            k -= 1
        window = [{a: b for a, b in x.items() if a != "state"} for x in upto[k:]]
        report(ctx, "remote-history", v["inv"], scen[v["t"]], window,
               what="%s failed at event %d of history %d: %s" % (v["inv"], v["i"], v["t"], json.dumps(window[0])[:200]))
    mid = sorted(scen)[len(scen) // 2] if scen else 0
    sample = [{a: b for a, b in x.items() if a != "state"} for x in trace_any(summ["files"], mid, 12)]
    return {
        "evaluations": summ["events"], "distinct_nontrivial": summ["scenarios"],
        "rule": "one evaluation = one recorded event (API call, HTTP exchange, API result); distinct_nontrivial counts API "
                "histories (8-25 calls each over a generated universe and capability profile)",
        "traces_validated_against_impl": summ["scenarios"], "samples": sample, "exhaustive": False,
    }
