#!/usr/bin/env python3
"""Prints the table of DESIGN.md §B.1 from the evidence files (quick tier)."""
import json
import os

V = os.path.dirname(os.path.dirname(os.path.abspath(__file__)))
print("| id | L1 runs (generated/distinct) | evaluations | distinct | trace events | wall |")
print("|---|---|---|---|---|---|")
for n in range(1, 21):
    pid = "C%02d" % n
    ev = json.load(open(os.path.join(V, "evidence", pid + ".json")))
    c = ev["coverage"]
    l1 = "; ".join("%s %d/%d" % (r["name"].replace("L1-", ""), r["generated"], r["distinct"]) for r in c.get("l1_runs", []))
    print("| %s | %s | %s | %s | %s | %d s |" % (pid, l1, c.get("evaluations"), c.get("distinct_nontrivial"), c.get("trace_events"), ev["wall_s"]))
