"""C15: listings return every item exactly once and never over-read metadata.

L1  Paging.tla: the client loop against the specification's paginating server over the full case space (list length,
    last, client page size, server cap, Link form, callback failure page, artifact-type filter applied or not by the
    server, oversize document): delivered prefix, completeness, stop at callback error, bounded requests.
A   PagingCases.tla emits the case space; the driver runs the real Tags / Repositories / Referrers against a scripted
    paginating server that counts the bytes consumed from every response body.
L3  PagingJudge.tla: delivery once and in order, callback error returned, nothing read beyond MaxMetadataBytes, oversize
    documents are errors, request paths.  L2: pages, requests and outcome equal Run(case) (which also validates the
    scripted server against the model's server)."""
import json
import os

from vlib import Infra, go_test, l1, log, monitor, report, tlc, trace_of


def run(ctx, replay=None):
    maxlen = 3 if ctx.quick else 4
    cases = os.path.join(ctx.sub("cases"), "cases.json")
    if replay:
        body = json.load(open(replay))
        json.dump([body["scenario"]["c"]], open(cases, "w"))
    else:
        l1(ctx, "Paging", "CONSTANT MaxLen = %d\nSPECIFICATION Spec\nINVARIANTS DeliveredPrefix CompleteWhenOk "
           "StopsAtCallbackError BoundedRequests\nCHECK_DEADLOCK FALSE\n" % maxlen, name="L1-Paging-len%d" % maxlen, timeout=2400)
        r = tlc(ctx, "PagingCases", 'CONSTANTS MaxLen = %d\n OutFile = "%s"\nSPECIFICATION Spec\nCHECK_DEADLOCK FALSE\n' % (maxlen, cases),
                workers=1, timeout=900, name="emit", heap="6g")
        if not os.path.exists(cases):
            raise Infra("case emission failed:\n" + r["out"][-2000:])
    out = ctx.sub("drv")
    r = go_test(ctx, "pagefam", "TestDrive", {"VH_OUT": out, "VH_CASES": cases}, timeout=3000)
    summ = json.load(open(os.path.join(out, "summary.json")))
    log("  driver: %d cases (%.1fs)" % (summ["cases"], r["wall_s"]))
    viol = monitor(ctx, "PagingJudge", summ["files"], label="L3", heap="4g", par=6)
    nonconf = 0
    for m in os.listdir(ctx.sub("mon-out")):
        nonconf += len(json.load(open(os.path.join(ctx.sub("mon-out"), m))).get("nonconf", []))
    if nonconf:
        log("NONCONFORMANCE property=C15 L2: %d cases differ from Run(case) of PagingModel.tla" % nonconf)
    seen = set()
    for v in viol:
        rec = trace_of(v["file"], v["t"], 2)[0]
        key = (v["inv"], json.dumps(rec["c"], sort_keys=True))
        if key in seen:
            continue
        seen.add(key)
        report(ctx, "paging-case", v["inv"], {"c": rec["c"]}, [rec], what="%s: %s -> pages=%s outcome=%s reqs=%s" % (
            v["inv"], json.dumps(rec["c"]), rec["pages"], rec["outcome"], json.dumps(rec["reqs"])[:300]))
    return {
        "evaluations": summ["records"], "distinct_nontrivial": summ["cases"],
        "rule": "one evaluation = one listing call of the real client for one case of the TLC-emitted case space; all cases "
                "are distinct; lists of up to %d items" % maxlen,
        "traces_validated_against_impl": summ["records"], "samples": trace_of(summ["files"][0], 5000, 2)[:1],
        "exhaustive": True, "impl_conformance": {"conforms": nonconf == 0, "differing_cases": nonconf},
    }
