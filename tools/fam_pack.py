"""C19: PackManifest produces a valid, self-consistent, pushable manifest.

L1  PackCases.tla: the decision table of Pack.tla over the whole case space x recogniser verdicts (sanity
    invariants), and emission of the case space (direction A: spec -> code).
L3  PackJudge.tla compares what the real packers did for every emitted case with Expected(case)."""
import json
import os

from vlib import go_test, l1, log, monitor, report, trace_of

def run(ctx, replay=None):
    cases = os.path.join(ctx.sub("cases"), "cases.json")
    l1(ctx, "PackCases", 'CONSTANT OutFile = "%s"\nSPECIFICATION Spec\nINVARIANTS TableTotal NoPushImpliesNoManifest '
       'OkShape ValidAccepted InvalidRejected\nCHECK_DEADLOCK FALSE\n' % cases, name="L1-PackCases")
    if replay:
        body = json.load(open(replay))
        json.dump([body["scenario"]["c"]], open(cases, "w"))
    out = ctx.sub("drv")
    rounds = 1 if ctx.quick else 6
    if replay:
        rounds = 12
    r = go_test(ctx, "packfam", "TestDrive", {"VH_OUT": out, "VH_SEED": ctx.seed, "VH_CASES": cases,
                                             "VH_ROUNDS": rounds}, timeout=1800)
    summ = json.load(open(os.path.join(out, "summary.json")))
    log("  driver: %d cases x %d rounds = %d calls, %d succeeded (%.1fs)" % (summ["cases"], rounds, summ["records"],
                                                                           summ["ok"], r["wall_s"]))
    viol = monitor(ctx, "PackJudge", summ["files"], label="L3", heap="4g", par=8)
    seen = set()
    for v in viol:
        tr = trace_of(v["file"], v["t"], 2)
        rec = tr[0]
        key = (v["inv"], json.dumps(rec["c"], sort_keys=True))
        if key in seen:
            continue
        seen.add(key)
        sc = {"c": rec["c"], "at": "".join(rec["atc"]), "cfgmt": "".join(rec["cfgc"]), "created": "".join(rec["createdc"]),
              "res": rec["res"], "npush": rec["npush"]}
        report(ctx, "pack-case", v["inv"], sc, tr, what="%s: %s" % (v["inv"], json.dumps(sc)))
    sample = trace_of(summ["files"][0], 100, 2)
    return {
        "evaluations": summ["records"], "distinct_nontrivial": summ["cases"],
        "rule": "one evaluation = one call of the real PackManifest/Pack for one case of the TLC-emitted case space "
                "(version x artifactType class x config class x config annotations x layers x subject x annotations x "
                "target) with concrete strings drawn per round; distinct = distinct cases; every case is non-trivial "
                "(it reaches a packer)",
        "traces_validated_against_impl": summ["records"],
        "samples": sample[:1], "exhaustive": True,
        "explanation": "the abstract case space is enumerated completely by TLC; concrete media-type and timestamp "
                       "strings are sampled per class and judged character-wise by the TLA+ recognisers",
    }
