"""C20: references parse exactly per grammar, round-trip, and stay in their URL slot.

L1  RefBuild.tla: every string up to length L over the grammar's alphabet is a state; the automaton and the
    structural formalisation of the repository grammar agree, verdicts are total, accepted strings re-assemble.
L3  RefJudge.tla judges what the real ParseReference / String / Repository.ParseReference / request URLs did
    for every enumerated and generated string (expected outcome computed in TLA+ from RefGrammar.tla)."""
import json
import os

from vlib import go_test, l1, log, monitor, report

INVS = {"MustAccept", "MustReject", "Parts", "Format", "RoundTrip", "RepoMustAccept", "RepoMustReject",
        "RepoSameReference", "RepoStaysHome", "UrlPath", "UrlNoQuery"}


def record(path, i):
    with open(path) as f:
        for k, line in enumerate(f, 1):
            if k == i:
                return json.loads(line)
    return None


def pretty(r):
    r = dict(r)
    for k, v in list(r.items()):
        if isinstance(v, list) and all(isinstance(x, str) and len(x) <= 1 for x in v):
            r[k] = "".join(v)
    return r


def run(ctx, replay=None):
    L = 5 if ctx.quick else 6
    out = ctx.sub("drv")
    env = {"VH_OUT": out, "VH_SEED": ctx.seed, "VH_LEN": L, "VH_GEN": 15000 if ctx.quick else 150000,
           "VH_URLS": 3000 if ctx.quick else 20000}
    if replay:
        body = json.load(open(replay))
        env["VH_ONLY"] = json.dumps(body["scenario"])
    else:
        l1(ctx, "RefBuild", "CONSTANT L = %d\nSPECIFICATION Spec\nINVARIANTS RepoEquiv VerdictTotal AcceptedShape "
           "UnjudgedIsLenient\nCHECK_DEADLOCK FALSE\n" % L, name="L1-RefBuild-L%d" % L,
           extra=None if ctx.quick else ["-coverage", "1"])
    r = go_test(ctx, "reffam", "TestDrive", env, timeout=1200)
    summ = json.load(open(os.path.join(out, "summary.json")))
    log("  driver: %d records (%d exhaustive up to length %d, %d accepted, %d references sent through a Repository) %.1fs"
        % (summ["records"], summ["exhaustive_records"], L, summ["accepted"], summ["url_refs"], r["wall_s"]))
    viol = monitor(ctx, "RefJudge", summ["files"], label="L3", heap="6g", par=6)
    seen = set()
    for v in viol:
        rec = record(v["file"], v["i"])
        key = (v["inv"], json.dumps(rec.get("s")), rec.get("e"))
        if key in seen:
            continue
        seen.add(key)
        sc = pretty(rec)
        report(ctx, "ref-record", v["inv"], sc, [rec], what="%s: %s" % (v["inv"], json.dumps(sc)[:300]))
    sample = pretty(record(summ["files"][0], 1000) or {})
    return {
        "evaluations": summ["records"], "distinct_nontrivial": summ["accepted"] + summ["url_refs"],
        "rule": "one evaluation = one input string given to the real parser (or one request URL recorded); "
                "non-trivial = the string was accepted (it then also went through String/re-parse) or it produced "
                "a recorded request; all inputs of the exhaustive part are distinct by construction",
        "traces_validated_against_impl": len(summ["files"]),
        "samples": [sample, pretty(record(summ["files"][-1], 5) or {})],
        "exhaustive": True, "exhaustive_length": L,
        "explanation": "exhaustive over {a,A,0,.,_,-,/,:,@}^<=L for whole strings and for paths behind registry 'r'; "
                       "generated long digests/tags/registries/mutations beyond it",
    }
