#!/usr/bin/env python3
"""Regenerates /verif/MANIFEST.json from the table below (single source of truth
for what is claimed)."""
import json
import os

VERIF = os.path.dirname(os.path.dirname(os.path.abspath(__file__)))

BASELINE = ("cd /repo && GOFLAGS=-mod=mod go test -vet=off -count=1 -timeout 25m ./...")

TECH = "TLA+ specification model-checked with TLC; bound to the code by TLC trace validation of recorded executions"

CLAIMS = {
    "C01": dict(
        text="CopyGraph.tla (tracker, limiter, errgroup scopes) is model-checked exhaustively for every DAG on <=4-5 "
             "nodes and every link-closed initial destination; the real oras.Copy/CopyGraph is then executed under "
             "every gate-level schedule of small graphs and seeded schedules of larger ones, each execution is "
             "validated by TLC as a behaviour of CopyGraph.tla (L2) and judged by the monitor CopyMon.tla (L3): "
             "success implies every non-foreign reachable node present with identical bytes and the reference "
             "resolving to the returned root. Sources: memory, OCI layout, a real remote.Repository over the in-process "
             "registry (Referrers API or tag schema); destinations: memory, OCI layout, file store, remote.Repository, the "
             "last also with blob mounting from the source repository (MountFrom lists that succeed at once, after a "
             "failing repository, or not at all) and OnMounted.",
        note="Trusted: TLC, SHA-256 as ideal hash, the JSON codecs, testing/synctest's durable-blocking detection, "
             "memory stores as environment. Schedules are enumerated at the granularity of storage operations and "
             "callbacks.",
        ref="3 C01", technique=TECH + " (CopyGraphTrace.tla, CopyMon.tla) under exhaustive gate-level schedules"),
    "C02": dict(
        text="Same specification with fault points (operation x node x before/after), callback errors and caller "
             "cancellation; L1 checks closure in every state, fault surfacing, quiescence and termination under "
             "fairness; the real code is run with every single fault and a cancellation at every gate step of "
             "every small graph, each failed call is retried fault-free, and TLC judges closure at every push, "
             "error surfacing, absence of hangs and retry completion on the recorded traces.",
        note="Cooperative environment: a storage operation released after cancellation returns the context error. "
             "A hang is 'all goroutines durably blocked and the call has not returned' as reported by synctest.",
        ref="3 C02", technique=TECH + " with fault and cancellation enumeration"),
    "C03": dict(
        text="ExtendedCopy/ExtendedCopyGraph of the real library over random DAGs with referrers, indexes and shared "
             "sub-graphs, every start node, depth 0..3, gated random schedules, faults; CopyMon.tla computes the "
             "upward closure and the depth-bounded ancestor graphs from the generator's edge list and judges the "
             "destination's final content. A second plan (extf) adds artifact-type and annotation filters (exact, "
             "partial, empty-type and key-only regexes over manifests with and without artifactType, indexes with "
             "artifactType, annotated manifests) with depth limits from memory, OCI-layout and REMOTE sources: a real "
             "remote.Repository over the in-process registry, with the Referrers API under a server page limit of "
             "1-2 descriptors (the filters' ReferrerLister fast path) or with the referrers tag schema; CopyMon's "
             "followed-predecessor relation PredF is the source's own relation (referrers only for a remote source) "
             "restricted to the manifests that satisfy the filter as the property words it.",
        note="Predecessor ground truth is the generator's edge list (never content.Successors); only the regular-expression "
             "match itself is delegated to Go's regexp. Fixed in /repo: F10 (artifactType ignored on sources without "
             "the Referrers API). Docker media types are left out of filter scenarios (the property does not say what "
             "their artifact type is); file-store and reopened-OCI sources are not used as extended-copy sources yet.",
        ref="3 C03", technique=TECH + " (CopyMon.tla ExtAllAncestors / ExtDepthBound)"),
    "C04": dict(
        text="SemInv (permits = started regions <= Concurrency), OpsHoldPermit, OnlyOwnerWorks are invariants of "
             "CopyGraph.tla checked exhaustively; on recorded executions CopyMon.tla counts in-flight source and "
             "destination operations, pushes and blob fetches per node and checks the callback grammar and order. "
             "Limiter.tla models internal/syncutil/limit.go alone; its invariant (permits = regions not ended <= C) is "
             "checked by TLC and discharged as an inductive invariant by Apalache.",
        note="An operation is in flight from the moment the library calls the storage until it returns (time parked "
             "at the gate included); a source read until the stream it returned is closed. A limiter panic "
             "('released more than held') that kills the driver is replayed alone and judged (PermitReleasedOnlyIfHeld).",
        ref="3 C04", technique=TECH + " (CopyMon.tla accounting monitors)"),
    "C05": dict(
        text="VerifyIngest.tla states the requirement from the property text (MustFail / Trailing / Good over scripted "
             "readers and descriptors) and transcribes VerifyReader.Read/Verify, ensureEOF, ReadAll (io.ReadFull), "
             "CopyBuffer (io.CopyBuffer) and LimitStorage; MCVerify checks on every case that the algorithm meets the "
             "requirement; the emitted case space is replayed into ReadAll, FetchAll, NewVerifyReader and the Push paths "
             "of memory, OCI store, OCI storage, file store (named, unnamed, custom fallback) and LimitStorage, plus "
             "concurrent good/bad pushers under one digest; VerifyJudge.tla judges every outcome (error, Exists, Fetch "
             "bytes, files under blobs/) against the requirement and against the transcribed algorithm.",
        note="Streams are finite (<= 2/3 bytes quick/thorough, sizes -1..len+1); a reader that returns (0,nil) for ever "
             "is out of scope. The caching proxy (internal/cas.Proxy) is an internal package and is exercised only "
             "through the copy family. A Push may accept or reject bytes beyond Size (only readers must report them). "
             "Every store is also asked through the plain (untitled) descriptor; good and bad pushers of one digest / name race under a controlled scheduler (reads of the scripted readers and the library's verif points) in the memory, OCI and file stores.",
        ref="3 C05", technique="TLA+ requirement + transcribed algorithm model-checked with TLC; TLC-emitted cases replayed "
                              "into the code and judged by TLC"),
    "C06": dict(
        text="StoreModel.tla states the stores as a content set plus a tag map with the required result and effect of "
             "Push/Fetch/Exists/Tag/Resolve/Untag/Delete/Tags; MCStore.tla explores the model exhaustively; random "
             "operation histories (repeats, re-tags, missing content, empty and unknown references, named and unnamed "
             "file-store blobs) are executed on the real memory, OCI-layout and file stores and StoreMon.tla replays "
             "the model alongside, comparing every result and the full observable projection after every step. Half of the "
             "histories end in a concurrent tail: 2-3 operations run as goroutines released one at a time at the "
             "verif-tagged scheduling points inside the stores (storage check/act steps, tag resolver, predecessor "
             "index); StoreMon.tla runs every order of those operations through the model (ExpectOn) and requires the "
             "quiescent observation to be the state of one of them, and every concurrent Fetch that succeeded to have "
             "returned matching bytes.",
        note="The concurrent clause is judged on the quiescent state (as the property words it), not on the results "
             "returned by the concurrent calls. Schedules are best-effort controlled (a goroutine blocked on a lock "
             "held by a parked one is detected by a quiet period); the judgement does not depend on the schedule. "
             "References are never another node's digest string.",
        ref="3 C06", technique=TECH + " (StoreMon.tla, deterministic model replayed against recorded histories)"),
    "C07": dict(
        text="Same histories and model; after every step Predecessors is read for every node of the universe (present or "
             "not) from the live store and, for OCI layouts, from the layout reopened read-write, through os.DirFS and "
             "from a tar of it, and compared as a set and for duplicates with Pred of the model, including after "
             "Delete, GC and reopen and for every push order the generator draws.",
        note="Known finding F14 (a reachable manifest de-listed by GC is unknown to a reopened layout once its tagged "
             "ancestor is deleted without AutoGC) is matched by signature and not counted.",
        ref="3 C07", technique=TECH + " (StoreMon.tla PredExact / LivePred / ReopenPred)"),
    "C08": dict(
        text="OCI-layout histories of Push/Tag/Untag/Delete/GC/SaveIndex with AutoSaveIndex and AutoGC on and off; after "
             "every mutating step the raw directory is read (oci-layout and index.json parse, every blob file name is the "
             "digest of its bytes, every named index entry points to an existing blob of the recorded size, named "
             "entries equal the model's tag map) and the layout is reopened three ways; every observation must equal "
             "the model state, hence the live store.",
        note="With AutoSaveIndex off the driver calls SaveIndex before looking at the directory, as the property allows. "
             "Concurrent tails (see C06) include a GC racing with Tag/Push; validity of the directory as an image layout is judged after them whatever the model state.",
        ref="3 C08", technique=TECH + " (StoreMon.tla Disk* / Reopen*)"),
    "C09": dict(
        text="DelSet and GCResult of StoreModel.tla are the required effects written from the property; MCStore.tla checks "
             "on every universe of 3-4 nodes and every history of <= 5-7 operations that they never remove a linked or "
             "tagged node, never touch another tag, are maximal, keep everything reachable and are idempotent; on the "
             "real OCI store every Delete (AutoGC on/off) and GC (also with stray blob files) must return ok, terminate "
             "(watchdog) and leave exactly the model's content, tags and predecessor relation.",
        note="Fixed in /repo while building this check: F1 F2 F3 F5 F15 (see known_findings.json). "
             "A Delete or GC inside a concurrent tail is scheduled at the library's verif points (storage steps, GC sweep); ConcurrentSerializable is also owned by C09 then. Fixed in /repo: F18.",
        ref="3 C09", technique=TECH + " (MCStore.tla invariants; StoreMon.tla OpResult / Live* after delete and gc)"),
    "C10": dict(
        text="OciCrash.tla models every OCI-layout operation as the sequence of its file-system steps (OciSteps.tla) with a "
             "crash before every step and checks, exhaustively over small universes and histories, that a store reopened "
             "from the disk alone opens, lists only existing blobs, shows the tag map of before or after the interrupted "
             "operation and keeps the effects of completed ones. On the real code a driver binary runs scripted "
             "histories; strace records the victim operation's system calls and then kills the process (SIGKILL injected "
             "at syscall entry) before each of them in turn; after every kill the directory is inspected and reopened and "
             "CrashMon.tla evaluates the same invariants, and compares the recorded system calls with the model's steps.",
        note="Crash = process death; power loss (page cache, directory fsync) is not modelled. Crash points are the entries "
             "of the file-system system calls the victim issues on its (locked) main thread; a kill before a read-only call "
             "equals a kill before the next mutating one. Victims: Push (blob, manifest), Tag, Untag, Delete (cascades), "
             "GC, Tag+SaveIndex with AutoSaveIndex off.",
        ref="3 C10", technique="TLA+ crash model checked with TLC; strace-injected kills of the real process at every system "
                              "call, recoveries judged by TLC (trace validation)"),
    "C11": dict(
        text="TarExtract.tla models a POSIX-like tree (symbolic and hard links, inodes), Go's lexical Clean/Join/Rel and "
             "the extraction algorithm (resolveRelToBase with its parent-symlink walk, ensureLinkPath, writeFile, "
             "MkdirAll, os.Link, os.Symlink with remove-and-retry) plus named-blob pushes; TLC explores every sequence of "
             "regular / directory / symlink / hard-link entries and titles up to depth 3-5 over a name and link-target "
             "universe (relative, absolute, with .., through earlier links, naming files in the process's cwd) with "
             "OutsideUnchanged as invariant; every reachable tree's sequence is then replayed into a real file.Store in a "
             "sandbox and TarJudge.tla checks that nothing outside the working directory was created, changed, re-moded "
             "or deleted, that lexically escaping names were rejected, and that the real tree equals the model's.",
        note="Linux path semantics; TMPDIR is pointed inside the sandbox and excluded; timestamps and link counts are not "
             "judged. Fixed in /repo while building this check: F7, F8, F16. "
             "Also working directories that already hold a dangling / escaping symbolic link before anything is pushed, and every multi-entry sequence once more with one archive per entry. Fixed in /repo: F7, F8, F16, F19.",
        ref="3 C11", technique="TLA+ model of the file system and the extraction algorithm checked with TLC; TLC-enumerated "
                              "archives replayed into the code, outcome judged and compared with the model by TLC"),
    "C12": dict(
        text="FileRoundTrip.tla defines the expected restored tree (same paths, types, bytes, link targets; modes masked by "
             "the umask unless PreservePermissions; SkipUnpack keeps the gzip blob under the name) over the case space "
             "shape x {TarReproducible, PreservePermissions, SkipUnpack, ForceCAS, IgnoreNoName} x intermediate store (memory, OCI layout, file, a remote Repository over a full and over a minimal registry), which TLC emits; the "
             "driver materialises each shape (nesting, empty directories and files, 120-character and non-ASCII names, "
             "relative and dangling symlinks, modes 0444/0600/0755/0666/0700/0775, a file larger than the copy buffer) "
             "twice with different timestamps, runs Add -> PackManifest -> Copy -> Copy on real stores and RoundJudge.tla "
             "compares the restored tree with the abstract source tree, the descriptor with the stored bytes, the two "
             "descriptors of reproducible tars, duplicate names, and requires a tampered uncompressed digest to fail.",
        note="tar/PAX/gzip byte-level encoding is exercised, not modelled; the specification sees the abstract tree. umask "
             "022 is set by the driver; the check runs as root. The remote intermediate is a Repository over the in-process reference registry with every capability on; with IgnoreNoName the pipeline ends with CopyGraph (no manifest is kept to tag). "
             "Symbolic links carry their own mtimes (lutimes) in the reproducibility comparison; same-bytes files behind a legitimately absent (non-distributable) named layer.",
        ref="3 C12", technique="TLA+ expectation function; TLC-emitted cases replayed through the real pipeline, outcome judged by TLC"),
    "C13": dict(
        text="Registry.tla is the distribution specification as a server model (state per repository, the allowed request forms "
             "with exact path and permitted query keys, Serve) and MCRegistry.tla explores it; a real remote.Repository is driven "
             "through generated API histories (push, fetch, exists, resolve by tag and digest, tag, push/fetch by reference, "
             "delete, mount from another repository, predecessors, tags, Seek/Read sequences on fetched blobs) against the "
             "harness's in-process registry under random capability profiles (Referrers API, digest headers, range, mount, page "
             "limit), with single-field corruptions (digest header, length, media type, body) of otherwise valid responses; "
             "RegistryMon.tla replays every logged exchange through Serve (the in-process registry is thereby validated against "
             "the model), judges every request against the allowed forms, every API result against the model state, that a call "
             "which received a contradicting response failed, and Seek/Read against a reader over the blob.",
        note="'Allowed by the specification' is relative to the request forms written in Registry.tla. Known finding F17 "
             "(Resolve by tag needs the optional Docker-Content-Digest header) is matched by signature. Fixed in /repo: F11. "
             "Profiles also vary: Referrers API or client-maintained tag schema, a Referrers page limit, server- or "
             "client-side artifactType filtering (Repository.Referrers with a filter), content negotiation on Accept with a "
             "manifest under a user media type listed in Repository.ManifestMediaTypes. Histories are sequential; client "
             "page-size options are not varied.",
        ref="3 C13", technique=TECH + " (RegistryMon.tla: exchanges replayed on the registry model, API results judged)"),
    "C14": dict(
        text="Referrers.tla models syncutil.Merge's batching protocol (assign / commit / complete with the pending queue), the index "
             "read-modify-write and the deletion of the superseded index for NP concurrent pushes/deletions, every pre-existing "
             "index and every interleaving (IndexExact, NoDangling in every quiescent state); Capability.tla models "
             "SetReferrersCapability / Referrers / Push / Delete as their loads, requests and compare-and-swaps with a registry that "
             "may change its answer (Monotone; EvidenceSound validates the monitor's rules). A real remote.Repository is driven "
             "against the in-process registry without the Referrers API: 2-6 concurrent pushes/deletions of referrers of one or "
             "two subjects, HTTP exchanges scheduled at a gate under synctest plus un-gated parallel rounds, pre-existing indexes "
             "with duplicates and empty entries, an injected failure of the old-index deletion, SkipReferrersGC; ReferrersMon.tla "
             "judges the listing seen by a fresh Repository against the live manifests (each once, artifact type, annotations), "
             "dangling indexes, and the index-delete error; capability rounds (unconfigured Repository, concurrent "
             "SetReferrersCapability/Referrers/Push/Delete, registry flipping its answer) are judged by CapabilityMon.tla.",
        note="Equality with 'what a registry with the Referrers API would list' is judged as equality with the live manifests naming "
             "the subject and their artifact type/annotations, which is what the in-process registry's Referrers API lists (C13 "
             "validates that registry against Registry.tla). A Delete that returns the index-delete error leaves its manifest in "
             "place (Delete stops at the error): such a referrer may or may not be listed. Schedules are controlled at HTTP "
             "exchanges only: races inside Merge between exchanges and between loadReferrersState and the compare-and-swap are "
             "explored in the model, not forced in the code. Failures of index fetch/push are not injected yet.",
        ref="3 C14", technique=TECH + " (ReferrersMon.tla / CapabilityMon.tla over gate-scheduled concurrent rounds)"),
    "C15": dict(
        text="PagingModel.tla gives the distribution specification's paginating server and the client loop as functions; "
             "Paging.tla checks over the full case space (list of <= 3-4 items, last, client page size, server cap, Link form "
             "absolute / path-relative / query-only / with extra parameters, callback failure page, artifact-type filter "
             "applied or not by the server, a document larger than MaxMetadataBytes) that every wanted item is delivered "
             "once, in order, and the loop stops at a callback error; the emitted cases are run through the real "
             "Repository.Tags, Registry.Repositories and Repository.Referrers against a scripted server that counts the bytes "
             "consumed from each response, and PagingJudge.tla checks delivery, error propagation, the read limit and the "
             "request paths, and that pages, requests and outcome equal the model's run.",
        note="The OCI-layout Tags listing is a fourth API of the same case space (api ocitags: a sorted universe of names of "
             "which a subset are tags, last any name of the universe, tag or not; read-write store and the layout opened "
             "read-only). The scripted server is itself validated against PagingModel (L2). "
             "Oversize cases and a quarter of the others are also served without a Content-Length.",
        ref="3 C15", technique="TLA+ model of client loop and server model-checked with TLC; TLC-emitted cases replayed into the "
                              "code, judged and compared with the model by TLC"),
    "C16": dict(
        text="Auth.tla models auth.Client.Do for Bearer registries with the scope-keyed cache and the Once-coalesced token "
             "fetch for up to 3 concurrent requests over two hosts and every realm placement, with NoLeak, Bounded, ReuseKey and "
             "one-fetch-per-key as invariants over all interleavings; the real auth.Client then serves generated histories "
             "(sequential, identical concurrent calls, concurrent mixes over two registries that share a hostname and differ in "
             "the port only; none/Basic/Bearer schemes; realms on "
             "the own host, a token service or the other registry; password, refresh-token and access-token credentials; scope "
             "hints in any order and duplication; scheme changes; shared, single-context and no cache) through a gated innermost "
             "RoundTripper under synctest, and AuthMon.tla judges every outgoing request (which known secrets it carries, also "
             "inside Basic material, and where it goes), every call (send and fetch bounds, non-401 result), coalescing, the "
             "scope set of every attached token and CleanScopes against the canonical form.",
        note="Redirects performed by net/http below the auth client are not modelled. The single-context cache is documented to "
             "ignore scopes; ReuseKey is instantiated with host only for it. "
             "Coalescing rounds may contain a request with a deadline whose credential lookup waits for it; resource names with colons in scope strings. "
             "Scripted alias scenarios: a registry used anonymously whose challenge names the other registry's host as its service (per-registry realm URLs, tokfor). Fixed in /repo: F20.",
        ref="3 C16", technique=TECH + " (AuthMon.tla; gate-level schedules of concurrent requests)"),
    "C17": dict(
        text="Retry.tla transcribes retry.Transport.RoundTrip (attempt loop, policy decision, rewind through GetBody, pause, "
             "cancellation) over every server script of <= 3-4 answers (200, 401, 404, 408, 429 with/without Retry-After, "
             "5xx, timeout, other transport error) x body kind (none, replayable, one-shot) x MaxRetry 0..3 x cancellation "
             "point, with the property's clauses as invariants and termination under fairness; the emitted case space is "
             "replayed into the real transport under synctest's virtual clock so that every pause is measured exactly, the "
             "auth client is run over the retrying transport for Basic/Bearer challenge sequences, and GenericPolicy / "
             "ExponentialBackoff are evaluated over attempt, backoff, factor, jitter, Retry-After classes including 0 and "
             "extreme values; RetryJudge.tla checks every record against the clauses and against the model's prediction.",
        note="The floating-point formula of ExponentialBackoff is observed and bounded, not specified. Fixed in /repo: F9. "
             "Bodies of unknown length (ContentLength 0 with a Body), replayable and one-shot, in the auth-over-retry runs.",
        ref="3 C17", technique="TLA+ state machine model-checked with TLC (safety + liveness); TLC-emitted cases replayed into "
                              "the code under a virtual clock, judged and compared with the model by TLC"),
    "C18": dict(
        text="CredModel.tla states the docker config file as an abstract document (foreign top-level keys, entries with auth, "
             "identity/registry tokens, legacy username/password and unknown fields) with the required effect of Put, Get "
             "(exact key, else legacy URL key) and Delete; MCCred.tla checks RoundTrip, DeleteJustThat, OthersPreserved and "
             "Atomic (save as file-system steps with a crash before each) exhaustively; on the real FileStore CredMon.tla "
             "replays sequential histories over several initial documents and address forms comparing every result and "
             "the parsed file (and its mode) after every step, judges concurrent rounds of 3-5 Get/Put/Delete by searching "
             "the sequential orders, and judges the file found after a SIGKILL injected (strace) at every system call of "
             "Put and Delete.",
        note="Crash = process death. The abstract document compares JSON values canonically (key order and whitespace are "
             "not significant). Concurrent rounds are un-gated (real parallelism). "
             "A Put whose save was made to fail and is retried on the same store; write faults (RLIMIT_FSIZE sweep) during a save.",
        ref="3 C18", technique=TECH + " (CredMon.tla incl. linearization search; strace kill injection)"),
    "C19": dict(
        text="Pack.tla states the four packers as a decision table over (version, artifactType class, config class, "
             "config annotations, layers, subject, annotations, target); PackCases.tla model-checks the table and emits "
             "the whole case space, which the Go driver replays into the real PackManifest/Pack with a recording "
             "target; PackJudge.tla compares the returned descriptor, the stored bytes, the parsed manifest, the "
             "recorded pushes and a second call with Expected(case), judging media types (RFC 6838) and created "
             "timestamps (RFC 3339) character by character.",
        note="The media-type rejection clause is applied to PackManifest (documented to validate); the deprecated Pack "
             "entry points are judged on their success clauses and on created-time rejection. Calendar validity of "
             "timestamps beyond field ranges is not modelled.",
        ref="3 C19", technique="TLA+ decision table model-checked with TLC; TLC-generated cases replayed into the code and "
                              "judged by TLC (conformance in direction spec -> code)"),
    "C20": dict(
        text="RefGrammar.tla formalises the documented grammar twice (automaton and structural) and RefBuild.tla checks "
             "them against each other on every string up to length 5/6 over the grammar's alphabet; the real "
             "ParseReference, Reference.String, Repository.ParseReference and the URLs a Repository requests are "
             "recorded for the same exhaustive set plus generated long digests, tags, registries and mutations, and "
             "RefJudge.tla computes the expected outcome for each record in TLA+ and compares.",
        note="Registry authorities outside the must-accept (host[:port] over [A-Za-z0-9.-]) and must-reject classes "
             "and strings ending in a bare ':' or '@' are not judged for acceptance, as the property states. "
             "Registered digest algorithms are sha256/sha384/sha512.",
        ref="3 C20", technique="TLA+ recognisers model-checked with TLC; TLC judges records of the real parser (trace "
                              "validation, exhaustive to a length bound)"),
}

NOT_YET = {}


def main():
    checks = []
    for pid in sorted(CLAIMS):
        c = CLAIMS[pid]
        checks.append({
            "property_id": pid,
            "quick_cmd": "./check %s quick" % pid,
            "thorough_cmd": "./check %s thorough" % pid,
            "evidence_file": "/verif/evidence/%s.json" % pid,
            "replay_cmd_template": "./check %s quick --replay {path}" % pid,
            "engine": "tlc+go-harness",
            "level_claimed": {"category": "model_checking", "text": c["text"], "design_ref": "DESIGN.md " + c["ref"]},
            "level_note": c["note"],
            "technique": c["technique"],
        })
    props = [json.loads(l)["id"] for l in open(os.path.join(VERIF, "properties.jsonl"))]
    na = [{"property_id": p, "reason": NOT_YET.get(p, "check not built yet in this round; planned with the same "
                                                      "technique (see DESIGN.md section 10)")}
          for p in props if p not in CLAIMS]
    hooks_commits = []
    hp = os.path.join(VERIF, "hooks_commits.txt")
    if os.path.exists(hp):
        hooks_commits = [x.strip() for x in open(hp) if x.strip()]
    m = {
        "version": 1,
        "setup_cmd": "./setup.sh",
        "hooks": {"guard": "verif", "enable": "go build/test -tags verif (the harness always passes -tags verif)",
                  "baseline_off_cmd": BASELINE, "source_commits": hooks_commits, "add_only": True},
        "engines": [{"name": "tlc+go-harness", "path": "/verif/check",
                     "serves_properties": sorted(CLAIMS),
                     "kind_free_text": "TLA+ specs in /verif/spec checked by TLC 1.8; Go drivers in /verif/harness "
                                       "(go1.26.8, testing/synctest gate scheduler) record ndjson traces of the real "
                                       "library which TLC validates against the specs"}],
        "checks": checks,
        "not_applicable": na,
        "notes": "Exit 0: held on everything explored; exit 1 + VIOLATION line: a TLA+ monitor rejected what the real "
                 "code did (reproduced on replay); exit 2: the machinery could not decide. KNOWN-FINDING lines refer "
                 "to /verif/known_findings.json.",
    }
    with open(os.path.join(VERIF, "MANIFEST.json"), "w") as f:
        json.dump(m, f, indent=1)
    print("MANIFEST.json: %d checks, %d not_applicable" % (len(checks), len(na)))


if __name__ == "__main__":
    main()
