#!/usr/bin/env python3
"""/verif/check <property> <quick|thorough> [--replay <file>]"""
import importlib
import os
import sys
import traceback

sys.path.insert(0, os.path.dirname(os.path.abspath(__file__)))
import vlib  # noqa: E402

FAMILY = {
    "C20": "fam_ref",
    "C19": "fam_pack",
    "C05": "fam_ingest",
    "C10": "fam_crash",
    "C11": "fam_tar",
    "C12": "fam_round",
    "C18": "fam_cred",
    "C17": "fam_retry",
    "C15": "fam_page",
    "C13": "fam_remote",
    "C14": "fam_referrers",
    "C16": "fam_auth",
    "C06": "fam_store", "C07": "fam_store", "C08": "fam_store", "C09": "fam_store",
    "C01": "fam_copy", "C02": "fam_copy", "C03": "fam_copy", "C04": "fam_copy",
}
LEVEL = "model_checking"


def main(argv):
    if len(argv) < 2:
        print(__doc__)
        return 2
    pid = argv[1]
    tier = argv[2] if len(argv) > 2 and not argv[2].startswith("--") else os.environ.get("VERIF_TIER", "quick")
    if tier not in ("quick", "thorough"):
        tier = "quick"
    replay = None
    if "--replay" in argv:
        replay = argv[argv.index("--replay") + 1]
    try:
        seed = int(os.environ.get("VERIF_SEED", "1"))
    except ValueError:
        seed = 1
    if pid not in FAMILY:
        print("unknown property", pid)
        return 2
    ctx = vlib.Ctx(pid, tier, seed)
    vlib.log("== %s %s seed=%d" % (pid, tier, seed))
    try:
        fam = importlib.import_module(FAMILY[pid])
        cov = fam.run(ctx, replay=replay)
        if not replay and os.environ.get("VERIF_NOEVIDENCE") != "1":
            vlib.evidence(ctx, LEVEL, cov, getattr(fam, "ASSUMPTIONS", {}).get(pid, []))
        if ctx.violations:
            vlib.log("== %s: %d violation(s)" % (pid, len(ctx.violations)))
            return 1
        vlib.log("== %s: held on everything explored (%d known finding(s)) in %.0fs" % (
            pid, len(ctx.known), __import__("time").time() - ctx.t0))
        return 0
    except vlib.Infra as e:
        vlib.log("INFRA property=%s could not decide: %s" % (pid, e))
        return 2
    except Exception:
        traceback.print_exc()
        vlib.log("INFRA property=%s machinery crashed" % pid)
        return 2
    finally:
        if os.environ.get("VERIF_KEEP") != "1":
            ctx.cleanup()
        else:
            vlib.log("scratch kept at", ctx.work)


if __name__ == "__main__":
    sys.exit(main(sys.argv))
