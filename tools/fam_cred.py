"""C18: the credentials file store round-trips secrets and never damages the config file.

L1  MCCred.tla: CredModel.tla (required effect of Put/Get/Delete on the abstract docker config document) over a small
    universe with legacy URL keys, foreign keys and unknown fields; the save as file-system steps with a crash before
    each; invariants RoundTrip, DeleteJustThat, OthersPreserved, FileFollowsMemory, Atomic.
L3  CredMon.tla on recorded executions of the real FileStore: sequential histories (every result and the parsed file
    after every step equal the model), concurrent rounds (the final file equals the model after some sequential order;
    TLC searches the orders) and real kills (strace SIGKILL at every system call of a Put / Delete): the file is the
    complete old or the complete new document."""
import json
import subprocess
import os
import shutil
from concurrent.futures import ThreadPoolExecutor

from fam_crash import TRACE, parse_calls, run_cmd
from vlib import Infra, go_build, go_test, l1, log, monitor, report, trace_of

INITS = [
    "",
    '{"credsStore":"desktop","auths":{"https://a.io/":{"auth":"bGVnYWN5OnB3","email":"l@a.io"},"b.io:5000":{"username":"olduser","password":"oldpass"}}}',
    '{"auths":{"c.io":{"auth":"dTpw","registrytoken":"rt","unknown":{"k":[1,2]}}},"psFormat":"table"}',
]
VICTIMS = [
    {"op": "put", "addr": "a.io", "cred": {"User": "alice", "Pass": "s:e:cret", "Refresh": "", "Access": ""}},
    {"op": "put", "addr": "b.io:5000", "cred": {"User": "", "Pass": "", "Refresh": "r1", "Access": "t1"}},
    {"op": "delete", "addr": "b.io:5000", "cred": {"User": "", "Pass": "", "Refresh": "", "Access": ""}},
    {"op": "delete", "addr": "c.io", "cred": {"User": "", "Pass": "", "Refresh": "", "Access": ""}},
]


def crash_scenario(drv, base, sid, init, victim):
    d = os.path.join(base, "k%d" % sid)
    os.makedirs(d)
    opf = os.path.join(d, "op.json")
    json.dump(victim, open(opf, "w"))

    def fresh(name):
        p = os.path.join(d, name, "cfg", "config.json")
        os.makedirs(os.path.dirname(p))
        if init:
            open(p, "w").write(init)
            os.chmod(p, 0o644)
        return p
    p0 = fresh("rec")
    before = json.loads(run_cmd([drv, "inspect", p0]).stdout)
    logr = os.path.join(d, "rec.log")
    r = run_cmd(["strace", "-f", "-qq", "-o", logr, "-e", "trace=" + TRACE, drv, "victim", p0, opf])
    calls, marked, done = parse_calls(logr, d)
    if not marked or not done:
        raise Infra("credentials crash scenario %d: recording failed: %s" % (sid, r.stderr[-300:]))
    hosts = [[a, a.replace("https://", "").replace("http://", "").split("/")[0]] for a in
             ["a.io", "b.io:5000", "https://a.io/", "c.io", victim["addr"]]]
    recs = [{"e": "init", "doc": before["doc"], "exists": before["exists"], "hosts": hosts, "raw": init}]
    vic = {"op": victim["op"], "addr": victim["addr"], "userchars": list(victim["cred"]["User"]),
           "cred": {"user": victim["cred"]["User"], "pass": victim["cred"]["Pass"], "refresh": victim["cred"]["Refresh"],
                    "access": victim["cred"]["Access"]}}
    kills = 0
    for k in range(1, len(calls) + 1):
        c = calls[k - 1]
        for attempt in range(2):
            pk = fresh("k%d_%d" % (k, attempt))
            logk = os.path.join(d, "k%d.log" % k)
            run_cmd(["strace", "-f", "-qq", "-o", logk, "-e", "trace=" + TRACE, "-e",
                     "inject=%s:signal=SIGKILL:when=%d" % (c["name"], c["occ"]), drv, "victim", pk, opf])
            got, marked, done = parse_calls(logk, d)
            if marked and not done and [x["name"] for x in got] == [x["name"] for x in calls[:k]]:
                break
        else:
            # the calls made before the operation starts vary between runs (runtime housekeeping): a run that was not
            # killed inside the operation is not a crash point of it
            if not (marked and not done):
                continue
        found = json.loads(run_cmd([drv, "inspect", pk]).stdout)
        found.update({"e": "crash", "k": k, "call": c["name"], "victim": vic})
        recs.append(found)
        kills += 1
    after = json.loads(run_cmd([drv, "inspect", p0]).stdout)
    after.update({"e": "crash", "k": 0, "call": "none", "victim": vic})
    recs.append(after)
    # write faults: no file may grow beyond n bytes (RLIMIT_FSIZE, write fails with EFBIG), for a sweep of n
    size = os.path.getsize(p0) if os.path.exists(p0) else 0
    for n in sorted({0, 1, 10, size // 4, size // 2, max(size - 1, 0), size + 64}):
        pw = fresh("w%d" % n)
        env = dict(os.environ, VERIF_FSIZE=str(n))
        p = subprocess.run([drv, "victim", pw, opf], capture_output=True, text=True, env=env)
        if p.returncode not in (0, 4) or "VERIF-DONE" not in p.stderr:
            raise Infra("credentials write-fault scenario %d (limit %d) did not run: %s" % (sid, n, p.stderr[-300:]))
        found = json.loads(run_cmd([drv, "inspect", pw]).stdout)
        found.update({"e": "wfault", "limit": n, "res": "ok" if p.returncode == 0 else "err", "victim": vic})
        recs.append(found)
        kills += 1
    shutil.rmtree(d, ignore_errors=True)
    return recs, kills


def run(ctx, replay=None):
    if not replay:
        l1(ctx, "MCCred", "CONSTANT MaxOps = %d\nSPECIFICATION Spec\nINVARIANTS RoundTrip DeleteJustThat OthersPreserved "
           "FileFollowsMemory Atomic\nCHECK_DEADLOCK FALSE\n" % (3 if ctx.quick else 4), name="L1-MCCred")
    out = ctx.sub("drv")
    r = go_test(ctx, "credfam", "TestDrive", {"VH_OUT": out, "VH_SEED": ctx.seed, "VH_COUNT": 300 if ctx.quick else 6000,
                                             "VH_CONC": 400 if ctx.quick else 6000}, timeout=3000)
    summ = json.load(open(os.path.join(out, "summary.json")))
    log("  driver: %d sequential histories, %d concurrent rounds, %d operations (%.1fs)" % (
        summ["histories"], summ["concurrent"], summ["ops"], r["wall_s"]))
    files = list(summ["files"])
    # real kills
    drv = go_build(ctx, "cmd/creddrv", os.path.join(ctx.sub("bin"), "creddrv"))
    base = ctx.sub("crash")
    jobs = [(i + 1, init, v) for i, (init, v) in enumerate((a, b) for a in INITS for b in VICTIMS)]
    crashfile = os.path.join(ctx.sub("trace"), "crash-000.ndjson")
    kills = 0
    with ThreadPoolExecutor(max_workers=8) as ex, open(crashfile, "w") as f:
        for sid, (recs, k) in zip([j[0] for j in jobs], ex.map(lambda j: crash_scenario(drv, base, *j), jobs)):
            kills += k
            for i, rec in enumerate(recs, 1):
                rec["t"], rec["i"] = 100000 + sid, i
                f.write(json.dumps(rec, separators=(",", ":")) + "\n")
    files.append(crashfile)
    log("  crash driver: %d (document, operation) pairs, %d killed or write-faulted runs" % (len(jobs), kills))
    viol = monitor(ctx, "CredMon", files, label="L3", heap="4g", par=4)
    seen = set()
    for v in viol:
        if (v["inv"], v["t"]) in seen:
            continue
        seen.add((v["inv"], v["t"]))
        tr = trace_of(v["file"], v["t"], 200)
        upto = [x for x in tr if x["i"] <= v["i"]]
        sc = {"history": v["t"], "init": upto[0].get("raw"), "ops": [x for x in upto if x["e"] in ("op", "conc", "crash", "wfault")][-6:]}
        report(ctx, "cred-history", v["inv"], sc, upto[-4:], what="%s failed at event %d of history %d: %s" % (
            v["inv"], v["i"], v["t"], json.dumps(upto[-1])[:400]))
    return {
        "evaluations": summ["ops"] + kills, "distinct_nontrivial": summ["histories"] + summ["concurrent"] + kills,
        "rule": "one evaluation = one Put/Get/Delete on a real FileStore (sequential histories over 5 initial documents and "
                "5 address forms, or concurrent rounds of 3-5 operations) or one killed process; distinct_nontrivial counts "
                "histories, concurrent rounds and kills",
        "traces_validated_against_impl": summ["histories"] + summ["concurrent"] + len(jobs),
        "samples": trace_of(files[0], 3, 8), "kills": kills, "exhaustive": False,
    }
