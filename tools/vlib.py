"""Shared machinery of /verif/check: scratch space, Go driver runs, TLC runs,
known findings, replay files, evidence files.

Verdict rule (DESIGN.md 1.2): only a judgement by a TLA+ monitor over what the
real code in /repo did yields VIOLATION (exit 1); anything the machinery could
not decide is exit 2; everything else is exit 0."""
import hashlib
import json
import os
import re
import shutil
import subprocess
import sys
import tempfile
import time
from concurrent.futures import ThreadPoolExecutor

VERIF = os.path.dirname(os.path.dirname(os.path.abspath(__file__)))
SPEC = os.path.join(VERIF, "spec")
HARNESS = os.path.join(VERIF, "harness")
GO = "go1.26.8"
GOENV = {"GOFLAGS": "-mod=mod", "GOPROXY": "off", "GOSUMDB": "off", "GOTOOLCHAIN": "local",
         "CGO_ENABLED": "0"}
NCPU = os.cpu_count() or 4


class Infra(Exception):
    """The machinery could not decide (exit 2)."""


def log(*a):
    print(*a, flush=True)


class Ctx:
    def __init__(self, pid, tier, seed):
        self.pid, self.tier, self.seed = pid, tier, seed
        self.t0 = time.time()
        self.work = tempfile.mkdtemp(prefix="verif-%s-" % pid)
        self.l1 = []          # results of exhaustive model checking runs
        self.mon = []         # results of monitor / trace validation runs
        self.violations = []  # dicts: inv, scenario, trace, file
        self.known = []       # matched known findings
        self.notes = []
        self.samples = []
        self.cov = {}
        self.assumptions = []

    def sub(self, name):
        p = os.path.join(self.work, name)
        os.makedirs(p, exist_ok=True)
        return p

    def cleanup(self):
        shutil.rmtree(self.work, ignore_errors=True)

    @property
    def quick(self):
        return self.tier == "quick"


# ---------------------------------------------------------------- Go drivers

def harness_dir(ctx):
    """/verif/harness, or (development aid only: VERIF_REPO=<worktree>) a scratch copy of it whose go.mod replaces
    oras-go by that worktree, so that a seeded change can be evaluated without touching /repo."""
    alt = os.environ.get("VERIF_REPO")
    if not alt:
        return HARNESS
    d = os.path.join(ctx.work, "harness")
    if not os.path.exists(d):
        shutil.copytree(HARNESS, d)
        gm = open(os.path.join(d, "go.mod")).read().replace("=> /repo", "=> " + alt)
        open(os.path.join(d, "go.mod"), "w").write(gm)
    return d


def go_sync_sum():
    """The harness module replaces oras-go by /repo; its go.sum must cover /repo's."""
    src = "/repo/go.sum"
    dst = os.path.join(HARNESS, "go.sum")
    try:
        a = open(src).read()
        b = open(dst).read() if os.path.exists(dst) else ""
        have = set(b.splitlines())
        missing = [x for x in a.splitlines() if x not in have]
        if missing:
            with open(dst, "a") as f:
                f.write("\n".join(missing) + "\n")
    except OSError as e:
        raise Infra("go.sum: %s" % e)


def go_test(ctx, pkg, run, env, timeout=1800, tags="verif", race=False):
    """Runs one driver (a Go test function) of the harness against /repo's
    current working tree."""
    go_sync_sum()
    e = dict(os.environ)
    e.update(GOENV)
    e.update({k: str(v) for k, v in env.items()})
    e["TMPDIR"] = ctx.sub("gotmp")      # t.TempDir() of a driver that dies would otherwise stay behind in /tmp
    if race:
        e["CGO_ENABLED"] = "1"
    cmd = [GO, "test", "-count=1", "-tags", tags, "-timeout", "%ds" % timeout, "-run", "^%s$" % run, "./%s/" % pkg]
    if race:
        cmd.insert(2, "-race")
    t = time.time()
    p = subprocess.run(cmd, cwd=harness_dir(ctx), env=e, stdout=subprocess.PIPE, stderr=subprocess.STDOUT, text=True,
                       timeout=timeout + 60)
    if p.returncode != 0:
        e = Infra("driver %s/%s failed (exit %d):\n%s" % (pkg, run, p.returncode, p.stdout[-4000:]))
        e.out = p.stdout
        raise e
    return {"wall_s": round(time.time() - t, 2), "out": p.stdout}


def go_build(ctx, pkg, out, tags="verif"):
    go_sync_sum()
    e = dict(os.environ)
    e.update(GOENV)
    p = subprocess.run([GO, "build", "-tags", tags, "-o", out, "./%s/" % pkg], cwd=harness_dir(ctx), env=e,
                       stdout=subprocess.PIPE, stderr=subprocess.STDOUT, text=True, timeout=900)
    if p.returncode != 0:
        raise Infra("build %s failed:\n%s" % (pkg, p.stdout[-4000:]))
    return out


# ---------------------------------------------------------------------- TLC

TLC_CP = "/opt/veriftools/tla/tla2tools.jar:/opt/veriftools/tla/CommunityModules-deps.jar"
_STATES = re.compile(r"(\d+) states generated, (\d+) distinct states found")


def tlc(ctx, module, cfg_text, files=None, workers=1, timeout=1800, heap="4g", extra=None, name=None, dfs=False):
    """Runs TLC on spec/<module>.tla with the given configuration text in a
    scratch copy of spec/. files: {name-in-scratch: source path}."""
    name = name or module
    d = ctx.sub("tlc-" + name)
    for f in os.listdir(SPEC):
        if f.endswith(".tla"):
            shutil.copy(os.path.join(SPEC, f), d)
    with open(os.path.join(d, module + ".cfg"), "w") as f:
        f.write(cfg_text)
    for k, v in (files or {}).items():
        dstp = os.path.join(d, k)
        if os.path.abspath(v) != os.path.abspath(dstp):
            if os.path.lexists(dstp):
                os.remove(dstp)
            os.symlink(os.path.abspath(v), dstp)
    jtmp = os.path.join(d, "jtmp")      # TLC leaves an empty tlc-<n> directory per run in java.io.tmpdir
    os.makedirs(jtmp, exist_ok=True)
    jopts = ["-Xmx" + heap, "-Xss128m", "-XX:+UseParallelGC", "-Djava.io.tmpdir=" + jtmp]
    if dfs:
        jopts.append("-Dtlc2.tool.queue.IStateQueue=StateDeque")
    cmd = ["timeout", str(timeout), "java"] + jopts + ["-cp", TLC_CP, "tlc2.TLC", "-workers", str(workers),
                                                          "-metadir", os.path.join(d, "meta"), "-config",
                                                          module + ".cfg"] + (extra or []) + [module + ".tla"]
    t = time.time()
    p = subprocess.run(cmd, cwd=d, stdout=subprocess.PIPE, stderr=subprocess.STDOUT, text=True)
    if p.returncode not in (0, 124) and "states generated" not in p.stdout and "Error: " not in p.stdout:
        # the JVM itself failed (resources); try once more
        time.sleep(3)
        shutil.rmtree(os.path.join(d, "meta"), ignore_errors=True)
        p = subprocess.run(cmd, cwd=d, stdout=subprocess.PIPE, stderr=subprocess.STDOUT, text=True)
    out = p.stdout
    m = _STATES.findall(out)
    res = {"name": name, "module": module, "rc": p.returncode, "wall_s": round(time.time() - t, 2),
           "generated": int(m[-1][0]) if m else 0, "distinct": int(m[-1][1]) if m else 0,
           "ok": p.returncode == 0 and "No error has been found" in out, "out": out, "dir": d}
    if p.returncode == 124:
        raise Infra("TLC %s timed out after %ds" % (name, timeout))
    return res


def tlc_require_ok(res):
    if not res["ok"]:
        raise Infra("TLC run %s did not complete cleanly (rc=%s):\n%s" % (res["name"], res["rc"], res["out"][-3000:]))
    return res


def l1(ctx, module, cfg_text, workers=None, timeout=1800, heap="12g", name=None, extra=None):
    """Exhaustive model checking of the design (does not look at /repo).  A
    counterexample here is a defect of the specification, i.e. of the machinery."""
    r = tlc(ctx, module, cfg_text, workers=workers or NCPU, timeout=timeout, heap=heap, name=name or ("L1-" + module),
            extra=extra)
    if "TLC threw an unexpected exception" in r["out"] and (workers or NCPU) > 1:
        # seen once in many hundred runs ("Attempted to check equality of integer 3 with non-integer ...", not
        # reproducible): TLC's worker threads are not fully safe on shared lazily normalised values. A specification
        # error shows again with one worker and is then reported.
        log("  (TLC raised an unexpected exception with %d workers; running %s again with one worker)" % (workers or NCPU, name or module))
        r = tlc(ctx, module, cfg_text, workers=1, timeout=timeout * 4, heap=heap, name=name or ("L1-" + module), extra=extra)
    tlc_require_ok(r)
    ctx.l1.append({k: r[k] for k in ("name", "module", "generated", "distinct", "wall_s")})
    log("  L1 %-28s %9d states generated %9d distinct  %.1fs" % (r["name"], r["generated"], r["distinct"], r["wall_s"]))
    return r


def apalache(ctx, module, args, name, timeout=300):
    """Runs `apalache-mc check <args> <module>.tla` in a scratch copy of the module; returns "ok", "error" (the checker found
    a counterexample) or "unavailable" (could not run / timed out)."""
    d = ctx.sub("apalache-" + name)
    shutil.copy(os.path.join(SPEC, module + ".tla"), d)
    t = time.time()
    e = dict(os.environ)
    jt = os.path.join(d, "jtmp")
    os.makedirs(jt, exist_ok=True)
    e["TMPDIR"] = jt       # the launcher makes its java.io.tmpdir with mktemp -t (SANY's temporary directories)
    try:
        p = subprocess.run(["apalache-mc", "check", "--out-dir=" + os.path.join(d, "out")] + args + [module + ".tla"], cwd=d,
                           env=e, stdout=subprocess.PIPE, stderr=subprocess.STDOUT, text=True, timeout=timeout)
    except (OSError, subprocess.TimeoutExpired) as e:
        log("  Apalache %-28s unavailable (%s)" % (name, type(e).__name__))
        return "unavailable"
    res = "ok" if "EXITCODE: OK" in p.stdout else "error" if "Checker has found an error" in p.stdout else "unavailable"
    log("  Apalache %-28s %s  %.1fs" % (name, res, time.time() - t))
    ctx.notes.append("apalache %s: %s" % (name, res))
    return res


def monitor(ctx, module, trace_files, cfg_extra="", par=8, timeout=1800, heap="3g", label="L3", postcondition="Consumed",
            spec="Spec", dfs=False):
    """Runs a trace specification once per trace file (single worker each, several
    in parallel) and returns the list of violations [{t,i,inv,file}]."""
    def one(ix_path):
        ix, path = ix_path
        outp = os.path.join(ctx.sub("mon-out"), "%s-%s-%03d.json" % (label, module, ix))
        cfg = ('CONSTANTS\n  TraceFile = "trace.ndjson"\n  OutFile = "%s"\nSPECIFICATION %s\n'
               'CHECK_DEADLOCK FALSE\n%s%s\n') % (
            outp, spec, ("POSTCONDITION %s\n" % postcondition) if postcondition else "", cfg_extra)
        r = tlc(ctx, module, cfg, files={"trace.ndjson": path}, workers=1, timeout=timeout, heap=heap,
                name="%s-%s-%03d" % (label, module, ix), dfs=dfs)
        return path, outp, r
    viol, n_gen, n_dist = [], 0, 0
    with ThreadPoolExecutor(max_workers=par) as ex:
        for path, outp, r in ex.map(one, list(enumerate(trace_files))):
            if not r["ok"] or not os.path.exists(outp):
                raise Infra("%s run of %s on %s failed (rc=%s):\n%s" % (label, module, path, r["rc"], r["out"][-3000:]))
            j = json.load(open(outp))
            for v in j["viol"]:
                v["file"] = path
                viol.append(v)
            n_gen += r["generated"]
            n_dist += r["distinct"]
            ctx.mon.append({"name": r["name"], "generated": r["generated"], "distinct": r["distinct"],
                            "wall_s": r["wall_s"], "events": j.get("consumed", 0)})
    log("  %s %-24s %d files %9d states  %d judgements failed" % (label, module, len(trace_files), n_dist, len(viol)))
    return viol


# ------------------------------------------------------------ known findings

def load_known(pid):
    p = os.path.join(VERIF, "known_findings.json")
    if not os.path.exists(p):
        return []
    return [k for k in json.load(open(p))["findings"] if pid in k["property"].split(",")]


def match_known(known, inv, sc):
    """A finding's signature is a Python expression over the failing invariant
    name `inv` and the scenario `sc` (see known_findings.json)."""
    for k in known:
        if k.get("status") != "finding":
            continue   # a fixed entry suppresses nothing
        try:
            if eval(k["match"], {"__builtins__": {"any": any, "all": all, "len": len, "set": set, "str": str,
                                                   "sorted": sorted, "isinstance": isinstance, "dict": dict,
                                                   "list": list, "int": int, "min": min, "max": max}},
                    {"inv": inv, "sc": sc}):
                return k
        except Exception:
            continue
    return None


# ------------------------------------------------------------------ verdicts

def write_replay(ctx, kind, inv, scenario, trace=None, extra=None):
    if os.environ.get("VERIF_NOEVIDENCE") == "1":
        return "(not written)"
    os.makedirs(os.path.join(VERIF, "replays"), exist_ok=True)
    body = {"property": ctx.pid, "kind": kind, "invariant": inv, "scenario": scenario, "trace": trace or [],
            "seed": ctx.seed, "tier": ctx.tier}
    body.update(extra or {})
    h = hashlib.sha1(json.dumps([kind, inv, scenario], sort_keys=True).encode()).hexdigest()[:12]
    p = os.path.join(VERIF, "replays", "%s-%s-%s.json" % (ctx.pid, inv, h))
    with open(p, "w") as f:
        json.dump(body, f, indent=1)
    return p


def report(ctx, kind, inv, scenario, trace=None, extra=None, what=None):
    """Registers one failed judgement: known finding or violation."""
    k = match_known(load_known(ctx.pid), inv, scenario)
    if k is not None:
        if k["id"] not in [x["id"] for x in ctx.known]:
            ctx.known.append(k)
            log("KNOWN-FINDING: property=%s %s [%s] %s" % (ctx.pid, k["id"], inv, k["text"]))
        return False
    if len(ctx.violations) >= 40:      # enough replay files; keep counting
        ctx.violations.append({"inv": inv, "replay": None})
        return True
    p = write_replay(ctx, kind, inv, scenario, trace, extra)
    if len(ctx.violations) < 20:
        log("VIOLATION property=%s replay=%s" % (ctx.pid, p))
        if what:
            log("  " + what)
    ctx.violations.append({"inv": inv, "replay": p})
    return True


_TRACE_INDEX = {}
_T_RE = re.compile(rb'"t":(\d+)[,}]')


def _trace_index(path):
    """Offsets of the lines of an ndjson file by the trace numbers they mention (built once per file and size: a change
    that fails thousands of judgements must not make the report quadratic in the size of the trace)."""
    key = (path, os.path.getsize(path))
    idx = _TRACE_INDEX.get(key)
    if idx is None:
        idx = {}
        off = 0
        with open(path, "rb") as f:
            for line in f:
                for m in set(_T_RE.findall(line)):
                    idx.setdefault(int(m), []).append(off)
                off += len(line)
        _TRACE_INDEX[key] = idx
    return idx


def trace_of(path, t, limit=400):
    """Extracts trace number t from an ndjson file."""
    out = []
    offs = _trace_index(path).get(t, [])[:limit]
    with open(path, "rb") as f:
        for off in offs:
            f.seek(off)
            out.append(json.loads(f.readline()))
    return out


def trace_any(files, t, limit=400):
    """trace_of over several trace files: the first file that holds trace t; else the first trace of the first file."""
    for f in files:
        tr = trace_of(f, t, limit)
        if tr:
            return tr
    return trace_of(files[0], 1, limit) if files else []


def evidence(ctx, level, coverage, assumptions=None):
    os.makedirs(os.path.join(VERIF, "evidence"), exist_ok=True)
    states = sum(x["distinct"] for x in ctx.l1) + sum(x["distinct"] for x in ctx.mon)
    trans = sum(x["generated"] for x in ctx.l1) + sum(x["generated"] for x in ctx.mon)
    cov = {"states": states, "transitions": trans,
           "l1_runs": ctx.l1, "trace_runs": len(ctx.mon),
           "trace_states": sum(x["distinct"] for x in ctx.mon),
           "trace_events": sum(x.get("events", 0) for x in ctx.mon),
           "known_findings_seen": [k["id"] for k in ctx.known],
           "notes": ctx.notes}
    cov.update(coverage)
    ev = {"property_id": ctx.pid, "tier": ctx.tier, "seed": ctx.seed, "level": level, "coverage": cov,
          "assumptions": (assumptions or []) + ctx.assumptions, "wall_s": round(time.time() - ctx.t0, 2),
          "violations": len(ctx.violations)}
    p = os.path.join(VERIF, "evidence", ctx.pid + ".json")
    with open(p, "w") as f:
        json.dump(ev, f, indent=1)
    return p


def read_ndjson(path):
    with open(path) as f:
        return [json.loads(x) for x in f if x.strip()]
