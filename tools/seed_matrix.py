#!/usr/bin/env python3
"""tools/seed_matrix.py [--eval] [seed names...]: writes seeded/<name>/meta.json for every seeded change and, with --eval,
re-evaluates the checks against each change in a scratch worktree (tools/seed_eval.sh) and records which checks and
which judgements catch it.  Also writes seeded/MATRIX.md."""
import json
import os
import re
import subprocess
import sys

VERIF = os.path.dirname(os.path.dirname(os.path.abspath(__file__)))
SEEDED = os.path.join(VERIF, "seeded")

RELATED = {"C01": ["C01", "C02", "C03", "C04"], "C02": ["C01", "C02", "C03", "C04"], "C03": ["C01", "C02", "C03", "C04"],
           "C04": ["C01", "C02", "C03", "C04"], "C06": ["C06"], "C07": ["C07"], "C08": ["C08", "C10"], "C09": ["C09"],
           "C10": ["C10", "C08"], "C13": ["C13", "C14"], "C12": ["C12", "C02"]}


def needs_of(readme):
    """The paragraph of the sub-agent's README that says what it takes for the violation to manifest."""
    m = re.search(r"^#+[^\n]*(needed|manifest|trigger)[^\n]*\n(.*?)(?=^#+ |\Z)", readme, re.S | re.M | re.I)
    text = (m.group(2) if m else readme[:1200]).strip()
    return re.sub(r"\s+", " ", text)[:1500]


def main():
    args = [a for a in sys.argv[1:] if not a.startswith("--")]
    do_eval = "--eval" in sys.argv
    names = args or sorted(d for d in os.listdir(SEEDED) if os.path.isdir(os.path.join(SEEDED, d)))
    jobs = 1
    for a in sys.argv[1:]:
        if a.startswith("--jobs="):
            jobs = int(a.split("=")[1])
    rows = []

    def evaluate(name):
        d = os.path.join(SEEDED, name)
        pid = name.split("-")[0]
        ids = RELATED.get(pid, [pid])
        p = subprocess.run([os.path.join(VERIF, "tools", "seed_eval.sh"), d, "quick"] + ids, capture_output=True, text=True)
        return name, ids, p.stdout
    results = {}
    if do_eval:
        from concurrent.futures import ThreadPoolExecutor
        with ThreadPoolExecutor(max_workers=jobs) as ex:
            for name, ids, out in ex.map(evaluate, names):
                results[name] = (ids, out)
                print(name, "evaluated", flush=True)
    for name in names:
        d = os.path.join(SEEDED, name)
        pid = name.split("-")[0]
        mp = os.path.join(d, "meta.json")
        meta = json.load(open(mp)) if os.path.exists(mp) else {}
        readme = open(os.path.join(d, "README.md")).read() if os.path.exists(os.path.join(d, "README.md")) else ""
        confirm = open(os.path.join(d, "confirm.txt")).read().strip().splitlines() if os.path.exists(os.path.join(d, "confirm.txt")) else []
        demo = [f for f in os.listdir(d) if f.endswith("_test.go")]
        meta.update({
            "seed": name, "property": pid,
            "origin": "written by a sub-agent that saw only the property text and its own scratch worktree of /repo",
            "patch": "patch.diff", "demonstration": demo,
            "needs_to_manifest": needs_of(readme),
            "confirmed": {"how": "tools/confirm_seed.sh: scratch worktree of /repo HEAD, patch applied, go build, the whole existing "
                                 "suite, then the demonstration with the patch and again with the patch reverted",
                          "result": confirm},
        })
        if do_eval:
            ids, stdout = results[name]
            det = {}
            for line in stdout.splitlines():
                m = re.match(r"\S+ (C\d\d) quick rc=(\d+) VIOLATION=(\d+) NONCONFORMANCE=(\d+) ?(.*)", line)
                if m:
                    det[m.group(1)] = {"rc": int(m.group(2)), "violations": int(m.group(3)), "nonconformance": int(m.group(4)),
                                       "judgements": m.group(5).strip()}
            meta["evaluated"] = {"how": "tools/seed_eval.sh <seed> quick " + " ".join(ids) + " (checks run against a scratch worktree "
                                        "with the patch applied, VERIF_REPO)", "checks": det}
            meta["caught_by"] = sorted(k for k, v in det.items() if v["rc"] == 1)
            meta["not_evaluated"] = sorted(set(ids) - set(det)) + sorted(k for k, v in det.items() if v["rc"] not in (0, 1))
            print(name, meta["caught_by"], flush=True)
        json.dump(meta, open(mp, "w"), indent=1)
        rows.append(meta)
    with open(os.path.join(SEEDED, "MATRIX.md"), "w") as f:
        f.write("# Seeded changes and the checks that catch them (quick tier)\n\n| seed | property | caught by | judgements |\n|---|---|---|---|\n")
        for name in sorted(d for d in os.listdir(SEEDED) if os.path.isdir(os.path.join(SEEDED, d))):
            mp = os.path.join(SEEDED, name, "meta.json")
            if not os.path.exists(mp):
                continue
            m = json.load(open(mp))
            ev = m.get("evaluated", {}).get("checks", {})
            f.write("| %s | %s | %s | %s |\n" % (name, m["property"], ", ".join(m.get("caught_by", [])) or "-",
                                                 "; ".join("%s: %s" % (k, v["judgements"]) for k, v in sorted(ev.items()) if v["rc"] == 1)))


if __name__ == "__main__":
    main()
