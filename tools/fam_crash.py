"""C10: a process crash never leaves an OCI layout unreadable, corrupt or half-updated.

L1  OciCrash.tla: every operation as its file-system steps, a crash before every step, invariants after reopening from
    the disk alone (exhaustive over small universes and histories).
B   real kills: a driver binary runs a scripted history; the victim operation's system calls are recorded with strace,
    then the victim is re-run once per system call with SIGKILL injected at that call's entry; after every kill the
    directory is inspected and reopened.
L2  CrashMon.tla: the recorded system-call sequence (abstracted to step kinds) equals StepsOf(victim) of OciSteps.tla.
L3  CrashMon.tla: the OciCrash invariants hold on every real recovery."""
import json
import os
import re
import shutil
import subprocess
from concurrent.futures import ThreadPoolExecutor

from vlib import Infra, go_build, l1, log, monitor, report, trace_of

TRACE = "openat,write,pwrite64,close,renameat,renameat2,rename,unlinkat,unlink,mkdirat,mkdir,fchmodat,chmod,fchmod,fsync,ftruncate,linkat,symlinkat"
MUTATING = {"write", "pwrite64", "renameat", "renameat2", "rename", "unlinkat", "unlink", "mkdirat", "mkdir", "fchmodat",
            "fchmodat2", "chmod", "fchmod", "ftruncate", "linkat", "symlinkat", "close", "fsync"}
LINE = re.compile(r"^(\d+)\s+(\w+)\((.*)$")


def l1cfg(n, ops, atomic="TRUE", save="TRUE"):
    return ("CONSTANTS N = %d\n MaxOps = %d\n AtomicIndex = %s\n SaveBeforeSweep = %s\nSPECIFICATION CSpec\nINVARIANTS CanReopen "
            "EntriesNameExistingBlobs TagMapBeforeOrAfter ReturnedEffectsPresent NothingInvented QuiescentDisk\n"
            "CHECK_DEADLOCK FALSE\n") % (n, ops, atomic, save)


def run_cmd(cmd, timeout=60):
    return subprocess.run(cmd, stdout=subprocess.PIPE, stderr=subprocess.PIPE, text=True, timeout=timeout)


def parse_calls(logpath, root):
    """Main-thread system calls after the marker: [(name, args, occurrence-of-name-on-that-thread, creates)]."""
    lines = open(logpath, errors="replace").read().splitlines()
    main = None
    counts = {}
    calls, after, done = [], False, False
    for ln in lines:
        m = LINE.match(ln)
        if not m:
            continue
        pid, name, args = m.group(1), m.group(2), m.group(3)
        if main is None:
            main = pid
        if pid != main:
            continue
        counts[name] = counts.get(name, 0) + 1
        if name == "write" and "VERIF-MARK" in args:
            after = True
            continue
        if name == "write" and "VERIF-DONE" in args:
            done = True
            break
        if after:
            if name == "openat" and not ("O_CREAT" in args or "O_TRUNC" in args):
                continue      # a read-only open changes nothing on disk
            if name in MUTATING or name == "openat":
                calls.append({"name": name, "args": args[:200], "occ": counts[name]})
    return calls, after, done


def abstract(calls, digests):
    """System calls -> step kinds of OciSteps.tla: [[kind, node]]."""
    out = []
    fd_kind = {}
    for c in calls:
        n, a = c["name"], c["args"]
        node = 0
        for d, k in digests.items():
            if d in a:
                node = k
        if n == "openat":
            fd = re.search(r"=\s*(\d+)\s*$", a)
            kind = "ingest" if "/ingest/" in a else "idxtmp" if "index.json.tmp" in a else "idx" if "index.json" in a else "other"
            if fd:
                fd_kind[fd.group(1)] = (kind, node)
            if kind == "ingest":
                out.append(["mktemp", node])
            elif kind == "idx" and "O_TRUNC" in a:
                out.append(["truncidx", 0])
        elif n in ("write", "pwrite64"):
            fd = re.match(r"(\d+),", a)
            kind, nd = fd_kind.get(fd.group(1), ("other", 0)) if fd else ("other", 0)
            if kind == "ingest":
                if not out or out[-1] != ["writetemp", nd]:
                    out.append(["writetemp", nd])
            elif kind == "idxtmp":
                if not out or out[-1] != ["writetmp", 0]:
                    out.append(["writetmp", 0])
            elif kind == "idx":
                if not out or out[-1] != ["writeidx", 0]:
                    out.append(["writeidx", 0])
        elif n in ("fchmodat", "fchmodat2", "chmod", "fchmod"):
            if "/ingest/" in a:
                out.append(["chmod", node])
        elif n in ("renameat", "renameat2", "rename"):
            if "/ingest/" in a and "/blobs/" in a:
                out.append(["renameblob", node])
            elif "index.json.tmp" in a:
                out.append(["renameidx", 0])
        elif n in ("unlinkat", "unlink"):
            if "/blobs/" in a:
                out.append(["unlink", node])
    return out


def ann_of(op):
    """The annotation signature of the descriptor a tag operation hands over (crashdrv tagDesc / annSig)."""
    return "verif.variant=v%d;" % op["av"] if op.get("av") not in (None, 0, 7) else ""   # (7: a reference-name annotation only)


def one_scenario(ctx, drv, sc, base, max_points):
    """Returns the trace records of one scenario (or raises Infra)."""
    sid = sc["id"]
    d = os.path.join(base, "s%d" % sid)
    os.makedirs(d)
    scf = os.path.join(d, "scen.json")
    json.dump(sc, open(scf, "w"))
    tmpl = os.path.join(d, "tmpl")
    p = run_cmd([drv, "setup", tmpl, scf])
    if p.returncode != 0:
        raise Infra("scenario %d: setup failed: %s" % (sid, p.stderr[-300:]))
    init = json.loads(run_cmd([drv, "describe", tmpl, scf]).stdout)
    digests = init.pop("digests")
    recs = [init]
    for op in sc["setup"] or []:
        recs.append({"e": "op", "op": op["op"], "n": op.get("n", 0), "ref": op.get("ref", ""), "ann": ann_of(op)})
    # recording run
    rdir = os.path.join(d, "rec")
    shutil.copytree(tmpl, rdir, symlinks=True)
    log_r = os.path.join(d, "rec.log")
    p = run_cmd(["strace", "-f", "-qq", "-o", log_r, "-e", "trace=" + TRACE, drv, "victim", rdir, scf])
    calls, marked, done = parse_calls(log_r, rdir)
    if not marked or not done or p.returncode not in (0, 4):
        raise Infra("scenario %d: recording run failed (rc=%s marked=%s done=%s): %s" % (sid, p.returncode, marked, done,
                                                                                       p.stderr[-300:]))
    v = sc["victim"]
    recs.append({"e": "victim", "op": "tag" if v["op"] in ("tagsave", "tagsaveflip") else v["op"], "n": v.get("n", 0), "ref": v.get("ref", ""), "ann": ann_of(v),
                 "res": "ok" if p.returncode == 0 else "err", "steps": abstract(calls, digests), "ncalls": len(calls),
                 "calls": [c["name"] for c in calls]})
    found = json.loads(run_cmd([drv, "inspect", rdir, scf]).stdout)
    recs.append({"e": "crash", "k": 0, "call": "none", "found": found})
    # one killed run per system call
    points = list(range(1, len(calls) + 1))
    if len(points) > max_points:
        step = len(points) / float(max_points)
        points = sorted({points[int(i * step)] for i in range(max_points)} | {1, len(calls)})
    for k in points:
        c = calls[k - 1]
        diverged = False
        for attempt in range(2):
            kdir = os.path.join(d, "k%d" % k)
            shutil.rmtree(kdir, ignore_errors=True)
            shutil.copytree(tmpl, kdir, symlinks=True)
            log_k = os.path.join(d, "k%d.log" % k)
            p = run_cmd(["strace", "-f", "-qq", "-o", log_k, "-e", "trace=" + TRACE, "-e",
                         "inject=%s:signal=SIGKILL:when=%d" % (c["name"], c["occ"]), drv, "victim", kdir, scf])
            got, marked, done = parse_calls(log_k, kdir)
            # the killed run must have issued exactly the first k-1 calls of the recording, then the k-th
            names = [x["name"] for x in got]
            want = [x["name"] for x in calls[:k]]
            if marked and not done and names == want:
                break
        else:
            # The order in which an operation removes several nodes is not deterministic (map iteration), so a run
            # can legitimately differ from the recording.  A run that was killed inside the operation is a crash
            # point of SOME execution of it and is judged as such; anything else cannot be used.
            if marked and done:
                continue  # this execution ordered its calls differently and never reached the kill point
            if not marked:
                # the process was killed before it reached the operation: the number of such calls made while the store
                # is being opened varies between runs (runtime housekeeping); not a crash point of the operation
                continue
            diverged = True
        found = json.loads(run_cmd([drv, "inspect", kdir, scf]).stdout)
        recs.append({"e": "crash", "k": k, "call": c["name"], "found": found, "diverged": diverged})
        shutil.rmtree(kdir, ignore_errors=True)
    shutil.rmtree(d, ignore_errors=True)
    return recs


def run(ctx, replay=None):
    drv = go_build(ctx, "cmd/crashdrv", os.path.join(ctx.sub("bin"), "crashdrv"))
    scf = os.path.join(ctx.sub("scen"), "scen.ndjson")
    if replay:
        body = json.load(open(replay))
        open(scf, "w").write(json.dumps(body["scenario"]) + "\n")
    else:
        if ctx.quick:
            l1(ctx, "OciCrash", l1cfg(3, 4), name="L1-OciCrash-N3-ops4")
        else:
            l1(ctx, "OciCrash", l1cfg(3, 5), name="L1-OciCrash-N3-ops5")
            l1(ctx, "OciCrash", l1cfg(4, 4), name="L1-OciCrash-N4-ops4", timeout=3000)
        count = 40 if ctx.quick else 2000
        p = run_cmd([drv, "gen", str(count), str(ctx.seed), scf])
        if p.returncode != 0:
            raise Infra("scenario generation failed: " + p.stderr)
    scens = [json.loads(x) for x in open(scf) if x.strip()]
    base = ctx.sub("runs")
    max_points = 40 if ctx.quick else 200

    def work(sc):
        return sc, one_scenario(ctx, drv, sc, base, max_points)
    tracefile = os.path.join(ctx.sub("trace"), "trace-000.ndjson")
    kills = 0
    victims = {}
    with ThreadPoolExecutor(max_workers=12) as ex, open(tracefile, "w") as out:
        for sc, recs in ex.map(work, scens):
            for i, r in enumerate(recs, 1):
                r["t"], r["i"] = sc["id"], i
                out.write(json.dumps(r, separators=(",", ":")) + "\n")
                if r["e"] == "crash" and r["k"] > 0:
                    kills += 1
            victims[sc["victim"]["op"]] = victims.get(sc["victim"]["op"], 0) + 1
    log("  crash driver: %d scenarios %s, %d killed runs" % (len(scens), victims, kills))
    viol = monitor(ctx, "CrashMon", [tracefile], cfg_extra="CONSTANTS\n AtomicIndex = TRUE\n SaveBeforeSweep = TRUE\n",
                   label="L3", heap="3g")
    j = json.load(open([os.path.join(ctx.sub("mon-out"), f) for f in os.listdir(ctx.sub("mon-out"))][0]))
    nonconf = j.get("nonconf", [])
    if nonconf:
        ex = trace_of(tracefile, nonconf[0]["t"], 400)
        vic = [r for r in ex if r["e"] == "victim"]
        log("NONCONFORMANCE property=C10 L2: %d victims' system calls differ from StepsOf in OciSteps.tla, e.g. scenario %d %s"
            % (len(nonconf), nonconf[0]["t"], json.dumps(vic[0]["steps"]) if vic else ""))
    byid = {s["id"]: s for s in scens}
    seen = set()
    for v in viol:
        if v["inv"] in ("SetupResult",):
            raise Infra("setup of scenario %d did not behave like the model" % v["t"])
        if (v["inv"], v["t"]) in seen:
            continue
        seen.add((v["inv"], v["t"]))
        tr = trace_of(tracefile, v["t"], 400)
        rec = [r for r in tr if r["i"] == v["i"]][0]
        report(ctx, "crash-scenario", v["inv"], byid[v["t"]], [rec],
               what="%s: scenario %d victim %s killed before system call %s (%s): %s" % (
                   v["inv"], v["t"], json.dumps(byid[v["t"]]["victim"]), rec.get("k"), rec.get("call"),
                   json.dumps(rec.get("found"))[:300]))
    sample = trace_of(tracefile, scens[0]["id"], 12) if scens else []
    return {
        "evaluations": kills, "distinct_nontrivial": kills,
        "rule": "one evaluation = one real process killed (SIGKILL injected by strace at the entry of the k-th system call of "
                "the victim operation) followed by an inspection and reopening of the directory; every (scenario, k) is "
                "distinct; non-trivial: the victim had begun (the marker was written) and had not returned",
        "traces_validated_against_impl": len(scens), "samples": sample[:6],
        "victims": victims, "exhaustive": False,
        "impl_conformance": {"conforms": not nonconf, "victims_with_differing_steps": len(nonconf)},
        "explanation": "crash model is process death; every file-system system call of the victim on the main thread is a "
                       "crash point (up to %d per victim)" % max_points,
    }
