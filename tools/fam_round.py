"""C12: files and directories added to a file store come back identical.

L1  FileRoundTrip.tla: the expectation function (modes under the umask, SkipUnpack) and the option x shape case space
    (sanity invariants of the mode masking).
A   RoundCases.tla emits the case space; the driver materialises every shape twice (different timestamps), runs
    Add -> PackManifest -> Copy to an intermediate store -> Copy into a second file store on the real code.
L3  RoundJudge.tla compares the restored tree with the abstract source tree (paths, types, bytes, link targets, modes
    masked unless PreservePermissions), the descriptor with the stored bytes, the two descriptors of a reproducible
    tar, duplicates under two names, and requires a tampered uncompressed digest to fail the unpack."""
import json
import os

from vlib import Infra, go_test, l1, log, monitor, report, tlc, trace_of


def run(ctx, replay=None):
    cases = os.path.join(ctx.sub("cases"), "cases.json")
    if replay:
        body = json.load(open(replay))
        json.dump([body["scenario"]["c"]], open(cases, "w"))
    else:
        l1(ctx, "FileRoundTrip", "SPECIFICATION Spec\nINVARIANTS MaskIdempotent MaskOnlyRemoves\nCHECK_DEADLOCK FALSE\n",
           name="L1-FileRoundTrip")
        r = tlc(ctx, "RoundCases", 'CONSTANT OutFile = "%s"\nSPECIFICATION Spec\nCHECK_DEADLOCK FALSE\n' % cases, workers=1, timeout=300, name="emit")
        if not os.path.exists(cases):
            raise Infra("case emission failed:\n" + r["out"][-2000:])
        if ctx.quick:
            # the full product is 960 cases; quick takes every shape x option set with one intermediate kind each
            allc = json.load(open(cases))
            kinds = ["memory", "oci", "file", "remote", "remotemin"]
            combos = sorted({json.dumps({"shape": c["shape"], "opts": c["opts"]}, sort_keys=True) for c in allc})
            want = {k: kinds[(j + ctx.seed) % 5] for j, k in enumerate(combos)}
            pick = [c for c in allc if c["inter"] == want[json.dumps({"shape": c["shape"], "opts": c["opts"]}, sort_keys=True)]]
            json.dump(pick, open(cases, "w"))
    out = ctx.sub("drv")
    r = go_test(ctx, "roundfam", "TestDrive", {"VH_OUT": out, "VH_CASES": cases}, timeout=3000)
    summ = json.load(open(os.path.join(out, "summary.json")))
    log("  driver: %d cases, %d records (%.1fs)" % (summ["cases"], summ["records"], r["wall_s"]))
    viol = monitor(ctx, "RoundJudge", summ["files"], label="L3", heap="3g")
    seen = set()
    for v in viol:
        rec = trace_of(v["file"], v["t"], 2)[0]
        key = (v["inv"], json.dumps(rec["c"], sort_keys=True), rec["kind"])
        if key in seen:
            continue
        seen.add(key)
        sc = {"c": rec["c"], "kind": rec["kind"]}
        report(ctx, "round-case", v["inv"], sc, [rec], what="%s: %s %s msg=%s" % (v["inv"], rec["kind"], json.dumps(rec["c"]),
                                                                                   rec.get("msg", "")))
    return {
        "evaluations": summ["records"], "distinct_nontrivial": summ["cases"],
        "rule": "one evaluation = one run of the whole pipeline on real stores for one (shape, option set, intermediate "
                "store) case (plus duplicate-name and tampered-digest runs); every case is distinct and non-trivial",
        "traces_validated_against_impl": summ["records"], "samples": trace_of(summ["files"][0], 2, 2)[:1],
        "exhaustive": not ctx.quick,
    }
