#!/bin/bash
# tools/confirm_seed.sh <seed dir containing patch.diff, demo.txt, demo test> <name>
# Confirms a seeded change in a scratch worktree: suite passes with it, the demo fails with it and passes without.
sd="$1"; name="$2"
export GOFLAGS=-mod=mod GOPROXY=off GOSUMDB=off
wt=/tmp/wtc/$name
rm -rf "$wt"; git -C /repo worktree prune; git -C /repo worktree add -q --detach "$wt" HEAD || exit 2
res="$sd/confirm.txt"; : > "$res"
cd "$wt" || exit 2
git apply "$sd/patch.diff" || { echo "patch does not apply" >> "$res"; exit 2; }
go build ./... >> "$res" 2>&1 && echo "BUILD ok" >> "$res"
go test -vet=off -count=1 ./... > "$sd/suite_with_change.log" 2>&1
echo "SUITE with change: $(grep -c '^ok' "$sd/suite_with_change.log") ok, $(grep -c '^FAIL' "$sd/suite_with_change.log") FAIL lines; failing tests: $(grep -E '^--- FAIL' "$sd/suite_with_change.log" | tr '\n' ' ')" >> "$res"
target=$(grep -m1 -oE '[A-Za-z0-9_./-]+_test\.go' "$sd/demo.txt")
demo=$(ls "$sd"/*_test.go | head -1)
mkdir -p "$(dirname "$wt/$target")"; cp "$demo" "$wt/$target"
pkgdir=$(dirname "$target"); [ "$pkgdir" = "." ] && pkg="." || pkg="./$pkgdir"
runre=$(grep -oE "\-run[ =]+['\"]?[^ '\"]+" "$sd/demo.txt" | head -1 | sed -E "s/-run[ =]+['\"]?//")
[ -z "$runre" ] && runre="."
go test -vet=off -count=1 -run "$runre" "$pkg" > "$sd/demo_with_change.log" 2>&1; a=$?
git apply -R "$sd/patch.diff"
go test -vet=off -count=1 -run "$runre" "$pkg" > "$sd/demo_clean.log" 2>&1; b=$?
echo "DEMO ($pkg -run $runre): with change exit=$a, clean exit=$b" >> "$res"
cd /; git -C /repo worktree remove --force "$wt"
cat "$res"
