"""Growth of the specification beyond the listed properties (DESIGN §7.1): the helper API of content.go.

L1  MCContentOps.tla: every case of ContentOps.tla's case space (operation x reference x platform x limits x target
    route) is a state; invariants are sanity properties of the outcome functions (ResultSane, SelectSound,
    FailedCallsChangeNothing).
A   ContentOpsCases.tla emits the case space; harness/contentopsfam replays every case into the real oras.Resolve /
    Fetch / FetchBytes / Tag / TagN / PushBytes / TagBytesN on a memory store, an OCI layout and a remote repository.
L2  ContentOpsJudge.tla: outcome, returned node, returned bytes, media type and the reference map read back equal the
    model's.  No listed property is about these helpers: a difference is a NONCONFORMANCE (exit 0), never a violation.
It runs as part of C06's check (the helpers operate on C06's targets)."""
import json
import os

from vlib import Infra, go_test, l1, log, monitor, tlc, trace_of


def extra(ctx):
    l1(ctx, "MCContentOps", "SPECIFICATION Spec\nINVARIANTS ResultSane SelectSound FailedCallsChangeNothing\n",
       name="L1-ContentOps")
    cases = os.path.join(ctx.sub("co-cases"), "cases.json")
    r = tlc(ctx, "ContentOpsCases", 'CONSTANT OutFile = "%s"\n' % cases, workers=1, timeout=600, name="emit-contentops")
    if not os.path.exists(cases):
        raise Infra("ContentOps case emission failed:\n" + r["out"][-2000:])
    out = ctx.sub("co-drv")
    r = go_test(ctx, "contentopsfam", "TestDrive", {"VH_OUT": out, "VH_CASES": cases}, timeout=1800)
    summ = json.load(open(os.path.join(out, "summary.json")))
    viol = monitor(ctx, "ContentOpsJudge", summ["files"], spec="JSpec", label="L2")
    log("  helper API (content.go): %d cases, %d calls on real targets %s, %d differ from ContentOps.tla (%.1fs)" % (
        summ["cases"], summ["records"], json.dumps(summ["per_target"]), len(viol), r["wall_s"]))
    seen = set()
    for v in viol:
        rec = trace_of(v["file"], v["t"], 2)[0]
        key = (v["inv"], json.dumps(rec["c"], sort_keys=True), rec["target"])
        if key in seen:
            continue
        seen.add(key)
        if len(seen) <= 10:
            log("NONCONFORMANCE property=%s L2 ContentOps %s on %s: case %s gave res=%s n=%s refs=%s" % (
                ctx.pid, v["inv"], rec["target"], json.dumps(rec["c"]), rec["res"], rec["n"], json.dumps(rec["refs"])))
    return {"helper_api_conformance": {"cases": summ["cases"], "calls": summ["records"], "per_target": summ["per_target"],
                                       "differing": len(seen), "conforms": not seen}}
