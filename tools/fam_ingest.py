"""C05: only content matching its descriptor ever becomes visible in a store.

L1  MCVerify.tla: on every case (stream x chunking x ending x descriptor) the transcribed VerifyReader / ReadAll /
    CopyBuffer algorithm meets the requirement written from the property text.
A   VerifyCases.tla emits the same case space; the Go driver replays it into the real readers and store Push paths.
L3  VerifyJudge.tla judges every outcome against the requirement; L2: outcome equals the transcribed algorithm's."""
import json
import os

from vlib import Infra, go_test, l1, log, monitor, report, tlc, tlc_require_ok, trace_any, trace_of

INVS = {"ReaderOnlyMatching", "ReaderReturnsDescribedBytes", "PushMustFail", "FailedPushInvisible",
        "FailedPushLeavesNoBlobFile", "VisibleMatchesDescriptor", "ExistsMeansFetchable", "BlobFilesComplete"}


def consts(maxlen):
    return "CONSTANTS MaxLen = %d\n NegSizes = TRUE\n FixedNeg = TRUE\n" % maxlen


def run(ctx, replay=None):
    maxlen = 2 if ctx.quick else 3
    cases = os.path.join(ctx.sub("cases"), "cases.json")
    if replay:
        body = json.load(open(replay))
        json.dump([body["scenario"]["c"]], open(cases, "w"))
        consumers = body["scenario"]["consumer"]
    else:
        l1(ctx, "MCVerify", consts(3) + "SPECIFICATION Spec\nINVARIANTS OnlyMatchingReadAll OnlyMatchingCopy GoodAccepted\n"
           "CHECK_DEADLOCK FALSE\n", name="L1-MCVerify-len3")
        if not ctx.quick:
            l1(ctx, "MCVerify", consts(4) + "SPECIFICATION Spec\nINVARIANTS OnlyMatchingReadAll OnlyMatchingCopy "
               "GoodAccepted\nCHECK_DEADLOCK FALSE\n", name="L1-MCVerify-len4")
        r = tlc(ctx, "VerifyCases", consts(maxlen) + ' OutFile = "%s"\n' % cases, workers=1, timeout=600, name="emit")
        if not os.path.exists(cases):
            raise Infra("case emission failed:\n" + r["out"][-2000:])
        consumers = ""
    out = ctx.sub("drv")
    r = go_test(ctx, "ingestfam", "TestDrive", {"VH_OUT": out, "VH_CASES": cases, "VH_CONSUMERS": consumers,
                                               "VH_CONC": 0 if replay else (40 if ctx.quick else 400)}, timeout=3000)
    summ = json.load(open(os.path.join(out, "summary.json")))
    log("  driver: %d cases x consumers = %d records, %d accepted, %d concurrent rounds (%.1fs)" % (
        summ["cases"], summ["records"], summ["ok"], summ["concurrent_rounds"], r["wall_s"]))
    viol = monitor(ctx, "VerifyJudge", summ["files"], cfg_extra=consts(maxlen if not replay else 4), spec="JSpec", label="L3",
                   heap="4g", par=8)
    # L2 result is in the same output files
    nonconf = 0
    for m in os.listdir(ctx.sub("mon-out")):
        j = json.load(open(os.path.join(ctx.sub("mon-out"), m)))
        nonconf += len(j.get("nonconf", []))
    if nonconf:
        log("NONCONFORMANCE property=C05 L2: %d outcomes differ from the transcribed algorithm of VerifyIngest.tla" % nonconf)
    sanity = [v for v in viol if v["inv"] == "GoodAccepted"]
    if sanity:
        ctx.notes.append("%d good pushes/reads were refused (not a C05 violation; the check would be vacuous)" % len(sanity))
        log("  note: %d good inputs were refused (vacuity guard, not a verdict)" % len(sanity))
    seen = set()
    for v in viol:
        if v["inv"] == "GoodAccepted":
            continue
        rec = trace_of(v["file"], v["t"], 2)[0]
        key = (v["inv"], rec["consumer"], json.dumps(rec["c"], sort_keys=True))
        if key in seen:
            continue
        seen.add(key)
        sc = {"c": rec["c"], "consumer": rec["consumer"], "concurrent": rec.get("concurrent", False)}
        report(ctx, "ingest-case", v["inv"], sc, [rec], what="%s: consumer=%s case=%s outcome=%s" % (
            v["inv"], rec["consumer"], json.dumps(rec["c"]), json.dumps({k: rec[k] for k in rec if k not in ("c", "t", "i", "e")})))
    sample = trace_any(summ["files"], min(summ["records"] // 3 or 1, 5000), 2)
    return {
        "evaluations": summ["records"], "distinct_nontrivial": summ["records"] - summ["concurrent_rounds"],
        "rule": "one evaluation = one (case, consumer) pair replayed into the real code; cases come from the TLC-emitted "
                "case space (stream <= %d bytes x cut x EOF/error x chunking x zero-reads x digest x size -1..%d); every "
                "pair is distinct; all are non-trivial (a reader is consumed)" % (maxlen, maxlen + 1),
        "traces_validated_against_impl": summ["records"],
        "samples": sample[:1], "exhaustive": True,
        "impl_conformance": {"conforms": nonconf == 0, "differing_outcomes": nonconf},
        "per_consumer": summ["per_consumer"],
    }
