"""C11: the file store never writes outside its working directory by default.

L1  TarExtract.tla: POSIX-like tree with symbolic and hard links, Go's lexical path functions, the extraction
    algorithm of content/file/utils.go and named-blob pushes; TLC explores every sequence of entries up to Depth over
    the name / link-target universe (one path per distinct tree) and checks OutsideUnchanged.
A   the dump of reachable states is the test input: every state's archive (and named pushes) is replayed into a real
    file.Store in a sandbox (working directory, outside files, process cwd).
L3  TarJudge.tla: nothing outside changed; lexically escaping entries / titles were rejected.
L2  TarJudge.tla: the real tree and error outcome equal the model state's."""
import json
import os

import tlaval
from vlib import Infra, go_test, log, monitor, report, tlc, tlc_require_ok, trace_of


def cfg(depth, named, hard="TRUE", nofollow="TRUE", view="view"):
    return ("CONSTANTS Depth = %d\n FixHardLink = %s\n FixNoFollow = %s\n FixNamed = TRUE\n Named = %s\nSPECIFICATION Spec\nINVARIANT OutsideUnchanged\n"
            "VIEW %s\nCHECK_DEADLOCK FALSE\n") % (depth, hard, nofollow, named, view)


def explore(ctx, depth, named, name, view="view"):
    """Runs TLC on TarExtract and returns the reachable states as replayable cases."""
    dump = os.path.join(ctx.sub("dump"), name)
    r = tlc(ctx, "TarExtract", cfg(depth, named, view=view), workers=os.cpu_count() or 4, timeout=2400, heap="12g",
            name="L1-" + name, extra=["-dump", dump])
    tlc_require_ok(r)
    ctx.l1.append({k: r[k] for k in ("name", "module", "generated", "distinct", "wall_s")})
    log("  L1 %-28s %9d states generated %9d distinct  %.1fs" % (r["name"], r["generated"], r["distinct"], r["wall_s"]))
    cases, unsafe = [], 0
    for st in tlaval.states(dump + ".dump"):
        data = st["data"]
        tree = []
        outside_ok = not st["unknownEscape"]
        for p, o in st["fs"]:
            if o["t"] == "none" or p == []:
                continue
            tree.append({"p": p, "t": o["t"], "tgt": o["tgt"], "tabs": o["tabs"],
                         "new": o["t"] == "file" and data[o["ino"] - 1] == "new"})
            if p[0] != "w":
                orig = {("v",): "file", ("c",): "dir", ("c", "v"): "file"}.get(tuple(p))
                if orig != o["t"] or (o["t"] == "file" and data[o["ino"] - 1] == "new"):
                    outside_ok = False
        if not outside_ok:
            unsafe += 1
        cases.append({"id": len(cases) + 1, "hist": st["hist"], "failed": st["failed"], "tree": tree,
                      "model_outside_ok": outside_ok, "risk": st.get("risk", []), "nomodel": False})
    return cases, unsafe


def E(k, name, tg=None, nabs=False, tabs=False):
    return {"k": k, "name": name, "nabs": nabs, "tg": tg or [], "tabs": tabs}


def followups(cases):
    """For every enumerated tree that holds a symbolic link resolving outside of the working directory: the same
    sequence followed by one more entry / push that goes at or through that link (no model prediction attached)."""
    out, seen, reps = [], set(), {}
    for c in sorted(cases, key=lambda c: len(c["hist"])):
        if c["failed"] or not c.get("risk"):
            continue
        for p, how, where in c["risk"]:
            if p[:1] != ["w"]:
                continue
            # the escape depends on where the link goes: a few representative trees per (link, resolution)
            key = json.dumps([p, how, where])
            reps[key] = reps.get(key, 0) + 1
            if reps[key] > 4:
                continue
            rel = p[1:]
            more = [E("reg", rel), E("dir", rel), E("dir", rel + ["x", "y"]), E("dir", rel + ["x"]), E("reg", rel + ["x"]),
                    E("reg", rel + ["v"]), E("named", rel), E("named", rel + ["v"]), E("named", rel + ["x", "y"]),
                    E("hard", ["d", "a"], tg=rel + ["v"]), E("hard", ["d", "a"], tg=["d"] + rel[1:] + ["v"]),
                    E("sym", rel + ["x"], tg=["v"])]
            for e in more:
                h = c["hist"] + [e]
                k = json.dumps(h)
                if k in seen:
                    continue
                seen.add(k)
                out.append({"hist": h, "failed": False, "tree": [], "nomodel": True})
    return out


def prepopulated():
    """Working directories that already hold a symbolic link leading outside (left by an earlier run, another tool or an
    earlier push) before anything is pushed: dangling or not, relative or absolute; then one or two entries / named
    pushes at or through it, in one archive and one archive per entry (no model prediction attached)."""
    out = []
    links = [(["..", "..", "x"], False), (["..", "..", "c"], False), (["..", "..", "v"], False),
             (["x"], True), (["c"], True), (["v"], True)]
    rel = ["d", "l"]
    singles = [E("reg", rel), E("dir", rel), E("dir", rel + ["x", "y"]), E("dir", rel + ["x"]), E("reg", rel + ["x"]),
               E("reg", rel + ["v"]), E("named", rel), E("named", rel + ["v"]), E("named", rel + ["x"]), E("named", rel + ["x", "y"]),
               E("named", rel + ["..", "escaped"]), E("named", ["w"] + rel + ["..", "escaped"], nabs=True),
               E("named", ["w"] + rel + ["x"], nabs=True), E("named", ["w"] + rel, nabs=True),
               E("hard", ["d", "a"], tg=rel + ["v"]), E("hard", ["d", "a"], tg=rel), E("sym", rel + ["x"], tg=["v"]),
               E("sym", ["d", "s"], tg=["l", "v"]), E("sym", ["d", "s"], tg=["l"])]
    pairs = [[E("dir", ["d", "k"]), E("reg", rel)], [E("reg", ["d", "k"]), E("reg", rel + ["x"])],
             [E("sym", ["d", "s"], tg=["l"]), E("reg", ["d", "s"])], [E("sym", ["d", "s"], tg=["l"]), E("reg", ["d", "s", "x"])],
             [E("sym", ["d", "s"], tg=["l"]), E("named", ["d", "s", "x"])], [E("dir", ["d", "k"]), E("named", rel)],
             [E("reg", ["d", "k"]), E("hard", ["d", "a"], tg=rel + ["v"]), E("reg", ["d", "a"])]]
    for tg, tabs in links:
        pre = {"k": "presym", "name": ["d", "l"], "nabs": False, "tg": tg, "tabs": tabs}
        for seq in [[e] for e in singles] + pairs:
            for split in (False, True):
                if split and len(seq) == 1:
                    continue
                out.append({"hist": [pre] + seq, "failed": False, "tree": [], "nomodel": True, "split": split})
    return out


def run(ctx, replay=None):
    if replay:
        body = json.load(open(replay))
        cases = [body["scenario"]]
        unsafe = 0
    else:
        depth = 3 if ctx.quick else 4
        cases, unsafe = explore(ctx, depth, "FALSE", "TarExtract-D%d" % depth)
        # sequences with named-blob pushes (title annotations) after / between archives
        c2, u2 = explore(ctx, depth + 1, "TRUE", "TarExtract-named-D%d" % (depth + 1))
        seen = {json.dumps(c["hist"]) for c in cases}
        for c in c2:
            if json.dumps(c["hist"]) not in seen and any(e["k"] == "named" for e in c["hist"]):
                c["id"] = len(cases) + 1
                cases.append(c)
        unsafe += u2
        # every rejected entry on every tree of depth <= 2 (a rejected entry leaves the tree unchanged and is
        # otherwise collapsed by the VIEW)
        c3, u3 = explore(ctx, 2, "TRUE", "TarExtract-rejected-D2", view="viewr")
        seen = {json.dumps(c["hist"]) for c in cases}
        for c in c3:
            if json.dumps(c["hist"]) not in seen:
                c["id"] = len(cases) + 1
                cases.append(c)
        fu = followups(cases)
        for c in fu:
            c["id"] = len(cases) + 1
            cases.append(c)
        log("  %d follow-up entries appended to trees that hold an escaping link" % len(fu))
        pp = prepopulated()
        for c in pp:
            c["id"] = len(cases) + 1
            cases.append(c)
        # every follow-up and enumerated multi-entry archive once more with one archive per entry (a second push finds
        # what the first one left behind)
        extra = []
        for c in cases:
            if not c.get("split") and not c.get("presplit") and sum(1 for e in c["hist"] if e["k"] in ("reg", "dir", "sym", "hard")) >= 2 \
                    and (c.get("nomodel") or c.get("risk")):
                # the model has no notion of archive boundaries: no model prediction for the split replay
                extra.append({"hist": c["hist"], "failed": False, "tree": [], "nomodel": True, "split": True})
        if ctx.quick and len(extra) > 2500:
            extra = extra[::len(extra) // 2500 + 1]
        for c in extra:
            c["id"] = len(cases) + 1
            cases.append(c)
        log("  %d sequences over a pre-populated working directory, %d sequences repeated with one archive per entry" % (len(pp), len(extra)))
        if unsafe:
            log("  L1: the model itself admits %d states in which an outside object changed (replayed below)" % unsafe)
    cf = os.path.join(ctx.sub("cases"), "cases.json")
    json.dump(cases, open(cf, "w"))
    out = ctx.sub("drv")
    r = go_test(ctx, "tarfam", "TestDrive", {"VH_OUT": out, "VH_CASES": cf}, timeout=3000)
    summ = json.load(open(os.path.join(out, "summary.json")))
    log("  driver: %d archives / push sequences replayed, %d changed something outside (%.1fs)" % (
        summ["cases"], summ["escapes"], r["wall_s"]))
    viol = monitor(ctx, "TarJudge", summ["files"], label="L3", heap="4g", par=8)
    nonconf = 0
    for m in os.listdir(ctx.sub("mon-out")):
        nonconf += len(json.load(open(os.path.join(ctx.sub("mon-out"), m))).get("nonconf", []))
    if nonconf:
        log("NONCONFORMANCE property=C11 L2: %d replayed states differ from TarExtract.tla (tree or error outcome)" % nonconf)
    byid = {c["id"]: c for c in cases}
    seen = set()
    for v in viol:
        if (v["inv"], v["t"]) in seen:
            continue
        seen.add((v["inv"], v["t"]))
        rec = trace_of(v["file"], v["t"], 2)[0]
        c = byid[v["t"]]
        sc = {"id": c["id"], "hist": c["hist"], "failed": c["failed"], "tree": c["tree"], "nomodel": c.get("nomodel", False),
              "split": c.get("split", False)}
        report(ctx, "tar-sequence", v["inv"], sc, [rec],
               what="%s: %s -> outside: %s" % (v["inv"], json.dumps([[e["k"], "/".join(e["name"]), "/".join(e["tg"])]
                                                                      for e in c["hist"]]), rec["outside"]))
    nontrivial = sum(1 for c in cases if len(c["hist"]) >= 2)
    return {
        "evaluations": summ["cases"], "distinct_nontrivial": nontrivial,
        "rule": "one evaluation = one sequence of tar entries / named-blob pushes (a distinct reachable tree of "
                "TarExtract.tla, enumerated by TLC) replayed into a real file store in a sandbox; non-trivial = at least "
                "two entries",
        "traces_validated_against_impl": summ["cases"],
        "samples": trace_of(summ["files"][0], cases[0]["id"], 2)[:1] + trace_of(summ["files"][0], cases[min(5, len(cases) - 1)]["id"], 2)[:1],
        "exhaustive": True,
        "impl_conformance": {"conforms": nonconf == 0, "differing_states": nonconf},
        "model_states_with_outside_change": unsafe,
    }
