#!/bin/sh
# tools/try_mutant.sh <patch.diff> <tier> <property ids...>: applies a seeded change to /repo, runs the checks, undoes it.
patch="$1"; tier="$2"; shift 2
git -C /repo apply "$patch" || exit 2
for id in "$@"; do
  out=$(/verif/check "$id" "$tier" 2>&1); rc=$?
  echo "== $id rc=$rc: $(echo "$out" | grep -c '^VIOLATION') VIOLATION lines; $(echo "$out" | grep -c '^NONCONFORMANCE') NONCONFORMANCE; $(echo "$out" | grep -c '^INFRA') INFRA"
  echo "$out" | grep -E "^  [A-Za-z]+ failed|^INFRA" | sed 's/ at event.*//' | sort | uniq -c | sort -rn | head -8
done
git -C /repo checkout -- .
