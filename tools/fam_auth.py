"""C16: the auth client keeps each registry's secrets and tokens to that registry.

L1  Auth.tla: the auth client's Do flow (cache lookup, send, challenge, token fetch through Once, resend) for two hosts
    and concurrent requests, with NoLeak / Bounded / ReuseKey as invariants.
B   the real auth.Client serves generated request histories (sequential, coalescing rounds, concurrent mixes over two
    registries with Basic / Bearer schemes, realms on the own host, a token service or the other registry, password /
    refresh-token / access-token credentials, scope hints in any order and duplication, scheme changes, three cache
    flavours) through a gated innermost RoundTripper under synctest; every outgoing request is logged.
L3  AuthMon.tla judges every send (NoLeak, TokenOnlyForItsHost, ReuseKeyScopes, Coalesce), every call (bounds, non-401
    result) and CleanScopes against the canonical form Canon."""
import json
import os

from vlib import Infra, go_test, l1, log, monitor, read_ndjson, report, trace_any, trace_of


def drive(ctx, env, name="drv"):
    out = ctx.sub(name)
    e = {"VH_OUT": out, "VH_SEED": ctx.seed}
    e.update(env)
    r = go_test(ctx, "authfam", "TestDrive", e, timeout=3000)
    summ = json.load(open(os.path.join(out, "summary.json")))
    log("  driver: %d scenarios, %d events, %d CleanScopes evaluations, %d hangs (%.1fs)" % (
        summ["scenarios"], summ["events"], summ["canon"], summ["hangs"], r["wall_s"]))
    return out, summ


def run(ctx, replay=None):
    if replay:
        body = json.load(open(replay))
        p = os.path.join(ctx.sub("replay"), "scen.ndjson")
        open(p, "w").write(json.dumps(body["scenario"]) + "\n")
        out, summ = drive(ctx, {"VH_REPLAY": p, "VH_CANON": 0})
    else:
        l1(ctx, "Auth", "CONSTANTS NReq = %d\nSPECIFICATION Spec\nINVARIANTS NoLeak Bounded ReuseKey TokensForOwnHost NeverFails OneFetchPerKey\n"
           "CHECK_DEADLOCK FALSE\n" % (2 if ctx.quick else 3), name="L1-Auth", timeout=2400)
        out, summ = drive(ctx, {"VH_COUNT": 1500 if ctx.quick else 150000, "VH_CANON": 4000 if ctx.quick else 300000})
    viol = monitor(ctx, "AuthMon", summ["files"], label="L3", heap="4g", par=6)
    scen = {s["id"]: s for s in read_ndjson(os.path.join(out, "scenarios.ndjson"))}
    seen = set()
    for v in viol:
        if (v["inv"], v["t"]) in seen:
            continue
        seen.add((v["inv"], v["t"]))
        tr = trace_of(v["file"], v["t"], 400)
        rec = [x for x in tr if x["i"] == v["i"]][0]
        sc = scen.get(v["t"], {"canon": rec})
        report(ctx, "auth-scenario", v["inv"], sc, [x for x in tr if x["i"] <= v["i"]][-10:],
               what="%s failed at event %d of scenario %d: %s" % (v["inv"], v["i"], v["t"], json.dumps(rec)[:400]))
    mid = sorted(scen)[len(scen) // 2] if scen else 0
    return {
        "evaluations": summ["events"], "distinct_nontrivial": summ["scenarios"],
        "rule": "one evaluation = one recorded event (call, outgoing request, response, return) of the real auth client, or one "
                "CleanScopes evaluation; distinct_nontrivial counts scenarios (each has at least two calls)",
        "traces_validated_against_impl": summ["scenarios"], "samples": trace_any(summ["files"], mid, 14), "exhaustive": False,
    }
