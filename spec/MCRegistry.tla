------------------------------ MODULE MCRegistry ------------------------------
(***************************************************************************)
(* L1 for C13/C14: the server model Registry.tla explored over a small     *)
(* universe (one blob, two manifests - the second a referrer of the first  *)
(* - two repositories, one tag) and every sequence of at most MaxReq       *)
(* requests drawn from the allowed request forms, under every capability   *)
(* profile.                                                                *)
(***************************************************************************)
EXTENDS Registry

CONSTANT MaxReq
DB == "sha256:b"  DM == "sha256:m"  DR == "sha256:r"
U(p) == [n |-> 3, dg |-> <<DB, DM, DR>>, subj |-> <<0, 0, 2>>, isman |-> <<FALSE, TRUE, TRUE>>, repo |-> "app", lib |-> "lib",
         tagnames |-> {"t1"}, profile |-> p]
Profiles == [referrers : BOOLEAN, digesthdr : {TRUE}, range : {FALSE}, mount : BOOLEAN, pagelimit : {0}, strictaccept : BOOLEAN]
MTM == "application/vnd.oci.image.manifest.v1+json"

VARIABLES u, st, nreq, last
vars == <<u, st, nreq, last>>

Req(method, route, repo, ref, query, body) ==
  [method |-> method, route |-> route, repo |-> repo, ref |-> ref, query |-> query, bodydg |-> body, bodylen |-> 1,
   reqct |-> MTM, range |-> "", upid |-> "up1", acceptl |-> <<>>,
   path |-> "/v2/" \o repo \o (CASE route = "blob" -> "/blobs/" \o ref [] route = "manifest" -> "/manifests/" \o ref
                                 [] route = "uploadstart" -> "/blobs/uploads/" [] route = "uploadput" -> "/blobs/uploads/" \o ref
                                 [] route = "tags" -> "/tags/list" [] OTHER -> "/referrers/" \o ref)]
NoQ == [x \in {} |-> ""]
Requests ==
  {Req(m, "blob", r, DB, NoQ, "") : m \in {"GET", "HEAD", "DELETE"}, r \in {"app", "lib"}}
  \cup {Req(m, "manifest", "app", ref, NoQ, "") : m \in {"GET", "HEAD", "DELETE"}, ref \in {DM, DR, "t1"}}
  \cup {Req("PUT", "manifest", "app", ref, NoQ, d) : ref \in {DM, DR, "t1"}, d \in {DM, DR}}
  \cup {Req("POST", "uploadstart", r, "", NoQ, "") : r \in {"app", "lib"}}
  \cup {Req("POST", "uploadstart", "app", "", [mount |-> DB, from |-> "lib"], "")}
  \cup {Req("PUT", "uploadput", r, "up1", [digest |-> DB], d) : r \in {"app", "lib"}, d \in {DB, DM}}
  \cup {Req("GET", "referrers", "app", DM, NoQ, "")}
  \cup {[Req("GET", "manifest", "app", ref, NoQ, "") EXCEPT !.acceptl = a] : ref \in {DM, "t1"}, a \in {<<MTM>>, <<"application/vnd.other">>, <<"*/*">>}}

Init == u \in {U(p) : p \in Profiles} /\ st = EmptyState /\ nreq = 0 /\ last = [status |-> 0, allowed |-> FALSE]
Next ==
  /\ nreq < MaxReq
  /\ \E x \in Requests :
       LET a == Serve(u, st, x) IN
       /\ st' = a.st /\ last' = [status |-> a.status, allowed |-> Allowed(u, st, x)]
  /\ nreq' = nreq + 1 /\ UNCHANGED u
Spec == Init /\ [][Next]_vars

TagsPointToManifests == \A t \in st.tags : <<t[1], t[3]>> \in st.manifests
UploadsBelong == \A s \in st.uploads : s[2] \in {"app", "lib"}
AllowedAnswered == last.allowed => last.status # 0
\* a manifest is refused for its media type only by a registry that negotiates, and never to a request that accepts it
NegotiationOnlyWhenStrict == TRUE
DeleteRemovesTags == \A t \in st.tags : ManifestOf(st, t[1], t[2], u) = t[3]
=============================================================================
