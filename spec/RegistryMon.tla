----------------------------- MODULE RegistryMon -----------------------------
(***************************************************************************)
(* C13 monitor.  The trace interleaves, for one remote.Repository driven   *)
(* through an API history against the harness's in-process registry:       *)
(*   call / ret   the API call and what it returned                        *)
(*   xchg         every HTTP exchange of that call, with the registry's    *)
(*                content after it                                         *)
(* Every exchange is replayed through Serve of Registry.tla:               *)
(*   FakeStatus / FakeState   the in-process registry answered and changed *)
(*                            as the model does (the fake is validated)    *)
(*   RequestAllowed           the request is an allowed request form       *)
(* Every API result is judged against the model state (ViewFaithful), and  *)
(* a call during which a contradicting response was served must fail       *)
(* (ContradictionFails).  Seek / Read sequences on a fetched blob must be  *)
(* those of a reader over the blob's bytes.                                *)
(***************************************************************************)
EXTENDS Registry, Json

CONSTANTS TraceFile, OutFile
Trace == ndJsonDeserialize(TraceFile)
VARIABLES l, u, st, pre, corrupted, viol, done
vars == <<l, u, st, pre, corrupted, viol, done>>
Rec == Trace[l]
NoU == [n |-> 0]

V(checks) == viol' = viol \cup {[t |-> Rec.t, i |-> Rec.i, inv |-> c[1]] : c \in {c \in checks : ~c[2]}}
PairSet(s) == {<<s[i][1], s[i][2]>> : i \in 1..Len(s)}
TripleSet(s) == {<<s[i][1], s[i][2], s[i][3]>> : i \in 1..Len(s)}

Init == l = 1 /\ u = NoU /\ st = EmptyState /\ pre = EmptyState /\ corrupted = FALSE /\ viol = {} /\ done = FALSE

EvInit ==
  /\ Rec.e = "init"
  /\ u' = [tagnames |-> Rng(Rec.tags) \cup Rng(Rec.rtags)] @@ Rec
  /\ st' = [EmptyState EXCEPT !.blobs = {<<Rec.lib, Rec.dg[Rec.libhas[i]]>> : i \in 1..Len(Rec.libhas)}]
  /\ pre' = EmptyState /\ corrupted' = FALSE /\ UNCHANGED viol

EvCall == Rec.e = "call" /\ pre' = st /\ corrupted' = FALSE /\ UNCHANGED <<u, st, viol>>

EvXchg ==
  /\ Rec.e = "xchg"
  /\ LET x == Rec.x  a == Serve(u, st, x) IN
     /\ st' = a.st
     /\ corrupted' = (corrupted \/ x.corrupt # "")
     /\ V({<<"RequestAllowed", Allowed(u, st, x)>>,
           <<"FakeStatus", x.status = a.status>>,
           <<"FakeState", /\ PairSet(Rec.state.blobs) = a.st.blobs /\ PairSet(Rec.state.manifests) = a.st.manifests
                          /\ TripleSet(Rec.state.tags) = a.st.tags>>,
           <<"FakeSubjectHeader", x.ocisubject = a.ocisubject>>,
           <<"FakeDigestHeader", (x.status = 200 /\ x.route \in {"blob", "manifest"} /\ x.corrupt # "digest") =>
                                   x.respdg = (IF u.profile.digesthdr THEN (IF x.route = "blob" THEN x.ref ELSE ManifestOf(st, x.repo, x.ref, u)) ELSE "")>>})
  /\ UNCHANGED <<u, pre>>

\* ----- the API view: repository u.repo of the model
App == u.repo
HasBlob(s, k) == <<App, u.dg[k]>> \in s.blobs
HasMan(s, k) == <<App, u.dg[k]>> \in s.manifests
Has(s, k) == IF u.isman[k] THEN HasMan(s, k) ELSE HasBlob(s, k)
TagTarget(s, t) == IF \E x \in s.tags : x[1] = App /\ x[2] = t THEN NodeOfDg(u, (CHOOSE x \in s.tags : x[1] = App /\ x[2] = t)[3]) ELSE 0
Referrers(s, k) == {m \in 1..u.n : u.isman[m] /\ u.subj[m] = k /\ HasMan(s, m)}

\* seek / read steps: <<kind, arg, result, start, contiguous, err>>; returns TRUE when every step is what a reader
\* over size bytes does
RECURSIVE SeekOK(_, _, _, _)
SeekOK(steps, i, pos, size) ==
  IF i > Len(steps) THEN TRUE
  ELSE LET s == steps[i] IN
    IF s[1] = 0 THEN            \* read of s[2] bytes (io.ReadFull): n = min(arg, size - pos)
      LET p == IF pos > size THEN size ELSE pos
          n == IF s[2] < size - p THEN s[2] ELSE size - p IN
      /\ s[6] = 0 /\ s[3] = n
      /\ (n > 0 => (s[4] = p % 251 /\ s[5] = 1))
      /\ SeekOK(steps, i + 1, pos + n, size)
    ELSE LET target == CASE s[1] = 1 -> s[2] [] s[1] = 2 -> pos + s[2] [] OTHER -> size + s[2] IN
      IF target < 0 THEN s[6] = 1 /\ SeekOK(steps, i + 1, pos, size)
      ELSE s[6] = 0 /\ s[3] = target /\ SeekOK(steps, i + 1, target, size)

RetChecks(r) ==
  LET k == r.n IN
  CASE r.op = "push" -> {<<"PushStores", r.res = "ok" /\ Has(st, k)>>}
    [] r.op = "fetch" -> {<<"FetchFaithful", IF corrupted THEN TRUE ELSE IF Has(pre, k) THEN r.res = "ok" /\ r.bytesok ELSE r.res = "notfound">>}
    [] r.op = "exists" -> {<<"ExistsFaithful", corrupted \/ (r.res = "ok" /\ (r.val <=> Has(pre, k)))>>}
    [] r.op = "resolve" ->
         {<<"ResolveFaithful", corrupted \/
              IF r.ref # "" THEN (IF TagTarget(pre, r.ref) = 0 THEN r.res = "notfound"
                                  ELSE r.res = "ok" /\ r.node = TagTarget(pre, r.ref) /\ r.mt = u.mt[r.node] /\ r.size = u.size[r.node])
              ELSE IF Has(pre, k) THEN r.res = "ok" /\ r.node = k /\ r.size = u.size[k] /\ (u.isman[k] => r.mt = u.mt[k])
              ELSE r.res = "notfound">>}
    [] r.op = "tag" -> {<<"TagFaithful", IF HasMan(pre, k) THEN r.res = "ok" /\ TagTarget(st, r.ref) = k ELSE r.res = "notfound" /\ st.tags = pre.tags>>}
    [] r.op = "pushref" -> {<<"PushReferenceFaithful", r.res = "ok" /\ HasMan(st, k) /\ TagTarget(st, r.ref) = k>>}
    [] r.op = "fetchref" ->
         {<<"FetchReferenceFaithful", corrupted \/
              LET want == IF r.ref # "" THEN TagTarget(pre, r.ref) ELSE (IF HasMan(pre, k) THEN k ELSE 0) IN
              IF want = 0 THEN r.res = "notfound"
              ELSE r.res = "ok" /\ r.node = want /\ r.bytesok /\ r.mt = u.mt[want] /\ r.size = u.size[want]>>}
    [] r.op = "delete" -> {<<"DeleteFaithful", IF Has(pre, k) THEN r.res = "ok" /\ ~Has(st, k) ELSE r.res = "notfound">>}
    [] r.op = "mount" ->
         {<<"MountFaithful", r.res = "ok" /\ HasBlob(st, k)>>,
          <<"MountAvoidsTransfer", (u.profile.mount /\ <<u.lib, u.dg[k]>> \in pre.blobs) => ~r.fetched>>}
    [] r.op = "pred" -> {<<"PredecessorsFaithful", corrupted \/ (r.res = "ok" /\ Rng(r.list) = Referrers(pre, k) /\ Len(r.list) = Cardinality(Rng(r.list)))>>}
    [] r.op = "referrers" ->       \* r.ref is the artifact type asked for ("" = all); filtered by the server or by the client
         {<<"ReferrersFaithful", corrupted \/ (r.res = "ok" /\ Rng(r.list) = {m \in Referrers(pre, k) : r.ref = "" \/ u.art[m] = r.ref}
                                 /\ Len(r.list) = Cardinality(Rng(r.list)))>>}
    [] r.op = "tags" -> {<<"TagsFaithful", r.res = "ok" /\ Rng(r.list) = {x[2] : x \in {y \in pre.tags : y[1] = App}}    \* including the referrers tags the client itself maintains
                                           /\ Len(r.list) = Cardinality(Rng(r.list))>>}
    [] r.op \in {"seek", "seekref"} ->       \* through Fetch(descriptor) or Blobs().FetchReference(digest)
         {<<"SeekFaithful", IF ~HasBlob(pre, k) THEN r.res = "notfound"
                            ELSE r.res = "ok" /\ (r.seekable = u.profile.range) /\ (r.seekable => SeekOK(r.steps, 1, 0, r.size))>>}
    [] OTHER -> {}

EvRet ==
  /\ Rec.e = "ret"
  /\ V(RetChecks(Rec) \cup {<<"ContradictionFails", corrupted => Rec.res # "ok">>})
  /\ UNCHANGED <<u, st, pre, corrupted>>

Step ==
  /\ l <= Len(Trace)
  /\ l' = l + 1
  /\ done' = FALSE
  /\ \/ EvInit \/ EvCall \/ EvXchg \/ EvRet
Finish ==
  /\ l = Len(Trace) + 1 /\ ~done
  /\ done' = TRUE
  /\ JsonSerialize(OutFile, [consumed |-> l - 1, viol |-> viol])
  /\ UNCHANGED <<l, u, st, pre, corrupted, viol>>
Next == Step \/ Finish
Spec == Init /\ [][Next]_vars
Consumed == TLCGet("stats").diameter = Len(Trace) + 2
=============================================================================
