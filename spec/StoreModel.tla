----------------------------- MODULE StoreModel -----------------------------
(***************************************************************************)
(* The built-in Targets as a content map plus a reference map: state and   *)
(* the REQUIRED effect of every operation, written from the property text  *)
(* (C06-C09).  Shared by StoreMon.tla (trace judge) and MCStore.tla        *)
(* (exhaustive check of the model itself).                                 *)
(*                                                                         *)
(*   g        the universe: n nodes, all[k] successor list of node k,      *)
(*            isman[k], subj[k] (0: none), refs, kind, autogc              *)
(*   content  nodes pushed and not removed     tags   reference -> node/0  *)
(*   indexed  nodes the OCI index lists (what Resolve(<digest>) answers    *)
(*            from): pushed manifests and everything ever tagged; GC keeps *)
(*            the tagged ones and the referrers whose subject chain is     *)
(*            live                                                         *)
(*   stray    leaf blobs dropped under blobs/ by the environment           *)
(***************************************************************************)
EXTENDS Integers, Sequences, FiniteSets, TLC

VARIABLES g, content, tags, indexed, stray, tagann   \* tagann: reference -> annotation signature of the tagged descriptor
Rng(s) == {s[i] : i \in 1..Len(s)}

Nodes == 1..g.n
Succ(n) == Rng(g.all[n])
IsMan(n) == g.isman[n]
Subj(n) == g.subj[n]                          \* 0: none
Refs == Rng(g.refs)

RECURSIVE ReachFrom(_, _)
ReachFrom(S, seen) == IF S \subseteq seen THEN seen ELSE ReachFrom(UNION {Succ(n) : n \in S}, seen \cup S)
ReachAll(S) == ReachFrom(S, {})

Pred(C, n) == {m \in C : IsMan(m) /\ n \in Succ(m)}
Tagged(T) == {T[r] : r \in {q \in Refs : T[q] # 0}}

\* ----- required effect of Delete (C09): with AutoGC it removes, recursively, exactly the untagged manifests whose
\* subject was removed and the untagged nodes that thereby lost their last predecessor - never a node a surviving
\* node still links to.  A manifest "links to" what it contains (config, layers, manifests, blobs); its subject is
\* what it refers to: a referrer does not keep its subject alive, but an index that lists a referrer keeps it.
Contains(q, m) == IsMan(q) /\ m \in Succ(q) /\ Subj(q) # m
RECURSIVE DelSet(_, _, _)
DelSet(S, C, T) ==
  LET add == {m \in C \ S :
                /\ m \notin Tagged(T)
                /\ \/ (IsMan(m) /\ Subj(m) # 0 /\ Subj(m) \in S /\ \A q \in C \ S : ~Contains(q, m))
                   \/ ((\E q \in S : m \in Succ(q)) /\ (\A q \in C \ S : ~(IsMan(q) /\ m \in Succ(q))))}
  IN IF add = {} THEN S ELSE DelSet(S \cup add, C, T)

\* ----- required effect of GC.  Reach is taken over present manifests only
\* (a missing manifest has no readable successors).
RECURSIVE ReachP(_, _, _)
ReachP(S, seen, C) == IF S \subseteq seen THEN seen
                      ELSE ReachP(UNION {IF n \in C THEN Succ(n) ELSE {} : n \in S}, seen \cup S, C)
RECURSIVE SubjectChainHits(_, _, _)
SubjectChainHits(n, L, C) ==         \* some proper subject-ancestor of n is in L
  IF n \notin C \/ ~IsMan(n) \/ Subj(n) = 0 THEN FALSE
  ELSE (Subj(n) \in L /\ Subj(n) \in C) \/ SubjectChainHits(Subj(n), L, C)
\* returns [live, kept]: kept = the untagged indexed manifests that stay indexed
\* because their subject chain reaches the live set
RECURSIVE LiveFix(_, _, _, _)
LiveFix(L, K, Ix, C) ==
  LET more == {r \in Ix \ K : SubjectChainHits(r, L, C)}
      L2 == ReachP(L \cup more, {}, C)
  IN IF L2 = L /\ more = {} THEN [live |-> L, kept |-> K] ELSE LiveFix(L2, K \cup more, Ix, C)
GCResult(C, T, Ix) == LiveFix(ReachP(Tagged(T), {}, C), {}, Ix \ Tagged(T), C)
\* Which of the kept referrers GC re-lists in the index is decided in one pass over the old entries in no particular
\* order: a referrer whose subject chain reaches the graph of the tagged nodes is always listed (GCIndexLower); one
\* whose subject is reachable only through another kept referrer's content may or may not be (it stays in blobs/
\* either way, being reachable).  The index after GC lies between GCIndexLower and Tagged \cup kept.
GCIndexLower(C, T, Ix) == Tagged(T) \cup {r \in Ix \ Tagged(T) : SubjectChainHits(r, ReachP(Tagged(T), {}, C), C)}

EmptyTags == [r \in Refs |-> 0]
IsOci == g.kind = "oci"

\* ----- expected result class and successor state of one operation.
\* A stray blob file (dropped under blobs/ by the environment, leaf nodes only)
\* makes the node present for Exists / Fetch / Push / Tag: the layout is keyed by digest.
Present == content \cup stray
\* file store: a name (title annotation) belongs to the first blob pushed under it
NameTaken(n, P) == g.kind = "file" /\ g.names[n] # "" /\ \E m \in P : m # n /\ g.names[m] = g.names[n]
\* the expectation as a function of an explicit state (C content, T tags, Ix indexed, S stray), so that the
\* concurrent-tail judgement can run every order of a set of operations through it
ExpectOn(C, T, Ix, S, r) ==
  LET P == C \cup S
      St(res, c, t, ix, s) == [res |-> res, content |-> c, tags |-> t, indexed |-> ix, stray |-> s]
      Same(res) == St(res, C, T, Ix, S)
  IN
  CASE r.op \in {"push", "pushbad"} /\ NameTaken(r.n, P) ->      \* file store: another blob already holds this name
         Same("dupname")
    [] r.op = "pushbad" ->     \* bytes that do not match the descriptor: refused, nothing changes
         IF r.n \in P THEN Same(IF g.kind = "file" /\ g.names[r.n] # "" THEN "dupname" ELSE "exists") ELSE Same("refused")
    [] r.op = "push" ->
         IF r.n \in P THEN Same(IF g.kind = "file" /\ g.names[r.n] # "" THEN "dupname" ELSE "exists")
         ELSE St("ok", C \cup {r.n}, T, IF IsOci /\ IsMan(r.n) THEN Ix \cup {r.n} ELSE Ix, S)
    [] r.op = "tag" ->
         IF r.n \notin P THEN Same("notfound")
         ELSE St("ok", C, [T EXCEPT ![r.ref] = r.n], IF IsOci THEN Ix \cup {r.n} ELSE Ix, S)
    [] r.op = "untag" ->
         IF T[r.ref] = 0 THEN Same("notfound")
         ELSE St("ok", C, [T EXCEPT ![r.ref] = 0], Ix, S)
    [] r.op = "delete" ->
         IF r.n \notin P THEN Same("notfound")
         ELSE LET T1 == [q \in Refs |-> IF T[q] = r.n THEN 0 ELSE T[q]]
                  D1 == IF g.autogc /\ r.n \in C THEN DelSet({r.n}, C, T1) ELSE {r.n}
              IN St("ok", C \ D1, T1, Ix \ D1, S \ D1)
    [] r.op = "gc" ->
         LET x == GCResult(P, T, Ix) IN
         \* a stray file that GC keeps (it is reachable) is ordinary content from then on
         St("ok", P \cap x.live, T, Tagged(T) \cup x.kept, {})
    [] r.op = "stray" -> St("ok", C, T, Ix, S \cup {r.n})
    [] OTHER -> Same("n/a")
Expect(r) == ExpectOn(content, tags, indexed, stray, r)

=============================================================================
