---------------------------- MODULE VerifyCases ----------------------------
(* Direction A: emits the case space of VerifyIngest.tla for the Go driver. *)
EXTENDS VerifyIngest, Json, SequencesExt
CONSTANT OutFile
ASSUME JsonSerialize(OutFile, SetToSeq(Cases))
=============================================================================
