------------------------------- MODULE MCCred -------------------------------
(***************************************************************************)
(* L1 for C18: CredModel explored over a small universe - two registries,  *)
(* one of them also present under a legacy URL key, a foreign top-level    *)
(* key, entries with unknown fields - and every history of <= MaxOps       *)
(* Put / Delete, with the save modelled as its file-system steps and a     *)
(* crash possible before each.  Invariants are the property's clauses.     *)
(***************************************************************************)
EXTENDS CredModel

CONSTANT MaxOps
A == {"a.io", "b.io", "https://a.io/"}
Host == [x \in A |-> IF x = "https://a.io/" THEN "a.io" ELSE x]
Creds == {[user |-> "u", pass |-> "p:q", refresh |-> "", access |-> ""],
          [user |-> "", pass |-> "", refresh |-> "r", access |-> "t"],
          [user |-> "", pass |-> "x", refresh |-> "", access |-> ""]}
Legacy(a, u) == [addr |-> a, hasauth |-> FALSE, user |-> "", pass |-> "", refresh |-> "", access |-> "",
                 luser |-> u, lpass |-> "lp", extra |-> "{\"email\":\"x\"}"]
Docs0 == {[top |-> {[k |-> "credsStore", v |-> "\"x\""]}, auths |-> S] :
            S \in {{}, {Legacy("https://a.io/", "lu")}, {Legacy("b.io", "bu"), Legacy("https://a.io/", "lu")}}}

VARIABLES doc, file, steps, new, nops, last, crashed
mvars == <<doc, file, steps, new, nops, last, crashed>>
\* file: [doc, mode] on disk; steps: remaining save steps; new: document being saved

Init == /\ doc \in Docs0 /\ file = [doc |-> doc, mode |-> "644"] /\ steps = <<>> /\ new = doc
        /\ nops = 0 /\ last = [op |-> "none"] /\ crashed = FALSE
SaveSteps == <<"mkdir", "createtemp", "chmod", "write", "close", "rename">>
Begin(o) ==
  /\ ~crashed /\ steps = <<>> /\ nops < MaxOps
  /\ new' = (IF o.op = "put" THEN PutDoc(doc, o.addr, o.cred) ELSE DelDoc(doc, o.addr))
  /\ steps' = IF o.op = "delete" /\ o.addr \notin Addrs(doc) THEN <<>> ELSE SaveSteps
  /\ doc' = IF o.op = "delete" /\ o.addr \notin Addrs(doc) THEN doc ELSE doc
  /\ last' = [op |-> o.op, addr |-> o.addr, cred |-> o.cred, before |-> doc]
  /\ nops' = nops + 1
  /\ UNCHANGED <<file, crashed>>
DoStep ==
  /\ ~crashed /\ steps # <<>>
  /\ file' = IF Head(steps) = "rename" THEN [doc |-> new, mode |-> "600"] ELSE file
  /\ doc' = IF Len(steps) = 1 THEN new ELSE doc
  /\ steps' = Tail(steps)
  /\ UNCHANGED <<new, nops, last, crashed>>
Crash == ~crashed /\ steps # <<>> /\ crashed' = TRUE /\ UNCHANGED <<doc, file, steps, new, nops, last>>
Next == (\E a \in A, c \in Creds, op \in {"put", "delete"} : Begin([op |-> op, addr |-> a, cred |-> c])) \/ DoStep \/ Crash
Spec == Init /\ [][Next]_mvars

Quiet == ~crashed /\ steps = <<>>
RoundTrip == (Quiet /\ last.op = "put") => GetSet(doc, last.addr, Host) = {last.cred}
DeleteJustThat == (Quiet /\ last.op = "delete") =>
                    /\ last.addr \notin Addrs(doc)
                    /\ {e \in doc.auths : e.addr # last.addr} = {e \in last.before.auths : e.addr # last.addr}
OthersPreserved == (Quiet /\ last.op \in {"put", "delete"}) =>
                    /\ doc.top = last.before.top
                    /\ {e \in doc.auths : e.addr # last.addr} = {e \in last.before.auths : e.addr # last.addr}
FileFollowsMemory == Quiet => file.doc = doc
Atomic == crashed => file.doc \in {last.before, new}
OwnerOnlyOnceReplaced == file.doc # last.before /\ last.op # "none" => file.mode = "600"
=============================================================================
