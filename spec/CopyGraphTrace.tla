-------------------------- MODULE CopyGraphTrace --------------------------
(***************************************************************************)
(* L2 conformance: is every recorded execution of the real oras.CopyGraph  *)
(* a behaviour of CopyGraph.tla?  Each recorded event is matched with the  *)
(* specification's action for that critical section; the steps the harness *)
(* cannot see (tracker commit, dispatch, waits, permit hand-over, cache    *)
(* reads) are composed silently and TLC infers them.  The model's          *)
(* invariants are evaluated in every state of every trace.                 *)
(*                                                                         *)
(* All traces of one file share N (the runner splits by node count).  The  *)
(* high-water mark of consumed lines is kept in TLC register 42            *)
(* (-workers 1) and written to OutFile by the postcondition.               *)
(***************************************************************************)
EXTENDS CopyGraph, Json

CONSTANTS TraceFile, OutFile

Trace == ndJsonDeserialize(TraceFile)
VARIABLE l
tvars == <<vars, l>>
Rng(s) == {s[i] : i \in 1..Len(s)}

Rec == Trace[l]
IsEv(e) == l <= Len(Trace) /\ Rec.e = e

\* the fault plan of the scenario in the model's vocabulary
ModelFault(f, sc) ==
  LET op == f[1]  n == f[2]  ph == f[3] IN
  IF op = "push" THEN <<IF ph = "after" THEN "pushA" ELSE "pushB", n>>
  ELSE IF op = "fetch" THEN <<IF sc[n] = {} THEN "fetch" ELSE "findsucc", n>>
  ELSE <<op, n>>

TInit ==
  /\ l = 1
  /\ TLCSet(42, 0)
  /\ succ = [n \in Node |-> {}]
  /\ sseq = [n \in Node |-> <<>>]
  /\ dst = {}
  /\ st = [n \in Node |-> "none"]
  /\ sem = 0
  /\ pc = [t \in Task |-> "finished"]
  /\ holds = [t \in Task |-> FALSE]
  /\ res = [t \in Task |-> "nil"]
  /\ nxt = [n \in Node |-> 0]
  /\ cancelled = [s \in 0..N |-> FALSE]
  /\ owner = [n \in Node |-> NoTask]
  /\ faults = {}
  /\ fired = FALSE
  /\ extc = FALSE

ResetTo(sc, sq, d0, fs) ==
  /\ succ' = sc
  /\ sseq' = sq
  /\ dst' = d0
  /\ st' = [n \in Node |-> "none"]
  /\ sem' = 1
  /\ pc' = [t \in Task |-> IF t = RootT THEN "start" ELSE "unborn"]
  /\ holds' = [t \in Task |-> t = RootT]
  /\ res' = [t \in Task |-> "none"]
  /\ nxt' = [n \in Node |-> 0]
  /\ cancelled' = [s \in 0..N |-> FALSE]
  /\ owner' = [n \in Node |-> NoTask]
  /\ faults' = fs
  /\ fired' = FALSE
  /\ extc' = FALSE

Reset ==
  /\ IsEv("init")
  /\ Rec.n = N /\ Rec.root = N /\ Rec.api = "copygraph"
  /\ LET sc == [n \in Node |-> Rng(Rec.succ[n])] IN
     ResetTo(sc, [n \in Node |-> Rec.succ[n]], Rng(Rec.dst0), {ModelFault(Rec.faults[i], sc) : i \in 1..Len(Rec.faults)})

\* the retry runs the same call on whatever the failed call left behind
RetryReset == IsEv("retryB") /\ ResetTo(succ, sseq, dst, {})

TaskOf(n, p) == {t \in Task : NodeOf(t) = n /\ pc[t] = p}

EvExists ==
  /\ IsEv("existsE")
  /\ \E t \in TaskOf(Rec.n, "exists") :
       /\ Rec.why = "ctx" => CtxDone(ScopeOf(t))
       /\ Rec.why = "fault" <=> (~CtxDone(ScopeOf(t)) /\ Armed("exists", Rec.n))
       /\ Rec.why = "" => (Rec.r <=> Rec.n \in dst)
       /\ Exists(t)

\* a source read of a manifest is FindSuccessors through the caching proxy
EvFindSucc ==
  /\ IsEv("fetchE") /\ Rec.man
  /\ \E t \in TaskOf(Rec.n, "findsucc") :
       /\ succ[Rec.n] # {}
       /\ Rec.why = "ctx" => CtxDone(ScopeOf(t))
       /\ Rec.why = "fault" <=> (~CtxDone(ScopeOf(t)) /\ Armed("findsucc", Rec.n))
       /\ FindSucc(t)

EvFetch ==
  /\ IsEv("fetchE") /\ ~Rec.man
  /\ \E t \in TaskOf(Rec.n, "fetch") :
       /\ succ[Rec.n] = {} /\ ~Armed("pre", Rec.n)
       /\ Rec.why = "ctx" => CtxDone(ScopeOf(t))
       /\ Rec.why = "fault" <=> (~CtxDone(ScopeOf(t)) /\ Armed("fetch", Rec.n))
       /\ Fetch(t)

EvPush ==
  /\ IsEv("pushE")
  /\ \E t \in TaskOf(Rec.n, "push") :
       /\ Rec.r = "ctx" => CtxDone(ScopeOf(t))
       /\ Rec.r = "fault" <=> (~CtxDone(ScopeOf(t)) /\ (Armed("pushB", Rec.n) \/ Armed("pushA", Rec.n)))
       /\ Push(t)
  /\ dst' = Rng(Rec.has)                      \* the underlying destination agrees with the model

\* a PreCopy error is the model's "pre" fault inside Fetch; the other callback
\* events are folded into Exists / Push and only checked for placement
EvCbPreErr ==
  /\ IsEv("cb") /\ Rec.k = "pre" /\ Rec.err
  /\ \E t \in TaskOf(Rec.n, "fetch") : Armed("pre", Rec.n) /\ Fetch(t)

EvCbOther ==
  /\ IsEv("cb") /\ ~(Rec.k = "pre" /\ Rec.err)
  /\ CASE Rec.k = "pre" -> \E t \in TaskOf(Rec.n, "fetch") : TRUE
       [] Rec.k = "post" -> Rec.n \in dst /\ (Rec.err <=> st[Rec.n] # "done")
       [] Rec.k = "skipped" -> Rec.n \in dst /\ (Rec.err <=> st[Rec.n] # "done")
       [] OTHER -> FALSE
  /\ UNCHANGED vars

EvBegin ==   \* begin events carry no state change
  /\ l <= Len(Trace) /\ Rec.e \in {"existsB", "fetchB", "pushB", "fetchC"}
  /\ UNCHANGED vars

\* the caller's cancellation lands after the last storage operation returned
\* (inside the model's final atomic step): syncutil.Go still reports it
LateCancel ==
  /\ ~extc /\ Terminated
  /\ extc' = TRUE
  /\ UNCHANGED <<succ, sseq, dst, st, sem, pc, holds, res, nxt, cancelled, owner, faults, fired>>

EvCancel == IsEv("cancel") /\ (ExtCancel \/ LateCancel)

EvRet ==
  /\ IsEv("ret")
  /\ Terminated /\ AllQuiet
  /\ Rec.err <=> Result = "err"
  /\ UNCHANGED vars

EvRetry ==
  /\ IsEv("retry")
  /\ Terminated /\ AllQuiet
  /\ Rec.err <=> Result = "err"
  /\ UNCHANGED vars

EvFinal == IsEv("final") /\ Rng(Rec.has) = dst /\ UNCHANGED vars

Silent == \E t \in Task :
            \/ Start(t) \/ Dispatch(t) \/ WaitKids(t) \/ WaitDone(t) \/ Reacquire(t)
            \/ (succ[NodeOf(t)] = {} /\ FindSucc(t))
            \/ (succ[NodeOf(t)] # {} /\ ~Armed("pre", NodeOf(t)) /\ Fetch(t))

TNext == \/ (Silent /\ l' = l)
         \/ ((Reset \/ RetryReset \/ EvExists \/ EvFindSucc \/ EvFetch \/ EvPush \/ EvCbPreErr \/ EvCbOther
               \/ EvBegin \/ EvCancel \/ EvRet \/ EvRetry \/ EvFinal) /\ l' = l + 1)

TSpec == TInit /\ [][TNext]_tvars

HW == TLCSet(42, IF l > TLCGet(42) THEN l ELSE TLCGet(42))
\* never fails: the runner reads the high-water mark and decides
Report == JsonSerialize(OutFile, [consumed |-> TLCGet(42) - 1, lines |-> Len(Trace), viol |-> {}])
===========================================================================
