--------------------------- MODULE FileRoundTrip ---------------------------
(***************************************************************************)
(* C12: files and directories added to a file store come back identical.   *)
(* A tree is a set of objects [p, t, mode, c, tgt]: path (sequence of name  *)
(* classes), type (file / dir / sym), permission digits <<u, g, o>>,        *)
(* content class, link target.  Expected(tree, opts) is what must be found  *)
(* in the second file store after Add -> PackManifest -> Copy through an   *)
(* intermediate store -> Copy into a file store:                            *)
(*   - the same paths, types, contents and link targets;                    *)
(*   - modes masked by the umask (022) unless PreservePermissions;          *)
(*   - with SkipUnpack a directory blob is materialised as one regular      *)
(*     file (the gzip) under the directory's name;                          *)
(*   - IgnoreNoName changes nothing for named content.                      *)
(* The module is a function from cases to expectations; MCRound.cfg checks  *)
(* its sanity over the option x shape space, and RoundJudge.tla applies it  *)
(* to what the real pipeline produced.                                      *)
(***************************************************************************)
EXTENDS Integers, Sequences, FiniteSets, TLC

\* umask 022: group and other lose their write bit
MaskDigit(d) == CASE d = 7 -> 5 [] d = 6 -> 4 [] d = 3 -> 1 [] d = 2 -> 0 [] OTHER -> d
Masked(m) == <<m[1], MaskDigit(m[2]), MaskDigit(m[3])>>

\* the tree expected under the directory (or file) name
ExpectedObj(o, preserve) ==
  IF o.t = "sym" THEN [p |-> o.p, t |-> "sym", c |-> "", tgt |-> o.tgt, mode |-> <<7, 7, 7>>]
  ELSE [p |-> o.p, t |-> o.t, c |-> o.c, tgt |-> "", mode |-> IF preserve THEN o.mode ELSE Masked(o.mode)]
Expected(tree, preserve) == {ExpectedObj(o, preserve) : o \in tree}

\* MCRound: shapes x options
Shapes == {"file", "flat", "nested", "links", "modes", "names"}
\* ignorenoname: the second file store discards unnamed content (manifest, config); the named tree must still come back
\* (the pipeline then ends with CopyGraph: there is no manifest left to tag)
Opts == [reproducible : BOOLEAN, preserve : BOOLEAN, skipunpack : BOOLEAN, forcecas : BOOLEAN, ignorenoname : BOOLEAN]
\* remote: a Repository over the reference registry model (regfake, all capabilities on)
\* remotemin: the same over a registry without digest headers, Referrers API, range requests and mounting
Inter == {"memory", "oci", "file", "remote", "remotemin"}
CaseSpace == [shape : Shapes, opts : Opts, inter : Inter]

VARIABLE c
Init == c \in CaseSpace
Next == UNCHANGED c
Spec == Init /\ [][Next]_c
MaskIdempotent == \A a \in 0..7, b \in 0..7, d \in 0..7 : Masked(Masked(<<a, b, d>>)) = Masked(<<a, b, d>>)
MaskOnlyRemoves == \A a \in 0..7, b \in 0..7, d \in 0..7 : LET m == Masked(<<a, b, d>>) IN m[1] = a /\ m[2] <= b /\ m[3] <= d
=============================================================================
