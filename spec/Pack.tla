-------------------------------- MODULE Pack --------------------------------
(***************************************************************************)
(* C19: the four packers of pack.go as a decision table with their pushes. *)
(*                                                                         *)
(* Direction A (spec -> code): `Emit` serialises the whole case space to a *)
(* JSON file; the Go driver replays every case into the real               *)
(* oras.PackManifest / oras.Pack with a recording target and logs what     *)
(* happened; the judge part of this module (PackJudge.tla) computes        *)
(* Expected(case) and compares.  Media types and timestamps are judged     *)
(* character by character with the recognisers below, not by class label.  *)
(***************************************************************************)
EXTENDS Integers, Sequences, FiniteSets, TLC

Versions == {"v1.0", "v1.1", "rc2", "artifact"}     \* PackManifest 1.0 / 1.1, Pack image (rc2), Pack artifact
AtClasses == {"empty", "valid", "invalid"}          \* artifactType
CfgClasses == {"none", "valid", "validempty", "invalid", "emptyjson"}   \* ConfigDescriptor: absent / media type class
                                   \* validempty: a valid custom media type whose content is {} (same digest as the empty JSON blob)
LayerClasses == {"nil", "empty", "one", "many"}
AnnClasses == {"none", "nocreated", "created", "badcreated"}
\* "file": a file store, the manifest is given a name (title annotation) so that the store keeps it under that name
\* "faultblob": every push of a blob that is not a manifest fails (the config or placeholder blob a packer invents)
Targets == {"memory", "prefilled", "oci", "pusheronly", "file", "faultblob"}

CaseSpace == [ver : Versions, at : AtClasses, cfg : CfgClasses, cfgann : BOOLEAN, layers : LayerClasses,
              subject : BOOLEAN, ann : AnnClasses, target : Targets]

\* options that the API of the version does not have
Meaningful(c) ==
  /\ c.ver = "artifact" => (c.cfg = "none" /\ ~c.cfgann)
  /\ c.cfg # "none" => ~c.cfgann                    \* ConfigAnnotations are ignored with a ConfigDescriptor

Cases == {c \in CaseSpace : Meaningful(c)}

---------------------------------------------------------------------------
\* character classes (RFC 6838 restricted names, RFC 3339 timestamps)
Lower == {"a","b","c","d","e","f","g","h","i","j","k","l","m","n","o","p","q","r","s","t","u","v","w","x","y","z"}
Upper == {"A","B","C","D","E","F","G","H","I","J","K","L","M","N","O","P","Q","R","S","T","U","V","W","X","Y","Z"}
Digit == {"0","1","2","3","4","5","6","7","8","9"}
RFirst == Lower \cup Upper \cup Digit
RChars == RFirst \cup {"!", "#", "$", "&", "-", "^", "_", ".", "+"}

IndexOf(s, c) == IF \E i \in 1..Len(s) : s[i] = c
                 THEN CHOOSE i \in 1..Len(s) : s[i] = c /\ \A j \in 1..(i - 1) : s[j] # c
                 ELSE 0
RestrictedName(s) == /\ Len(s) >= 1 /\ Len(s) <= 127 /\ s[1] \in RFirst
                     /\ \A i \in 2..Len(s) : s[i] \in RChars
\* type-name "/" subtype-name
MediaTypeOK(s) == LET k == IndexOf(s, "/") IN
  /\ k # 0
  /\ RestrictedName(SubSeq(s, 1, k - 1))
  /\ RestrictedName(SubSeq(s, k + 1, Len(s)))

AllDigits(s, i, j) == \A k \in i..j : s[k] \in Digit
Num2(s, i) == (CHOOSE d \in 0..9 : ToString(d) = s[i]) * 10 + (CHOOSE d \in 0..9 : ToString(d) = s[i + 1])
\* date-time = YYYY-MM-DDTHH:MM:SS[.frac](Z|+HH:MM|-HH:MM)
Rfc3339OK(s) ==
  /\ Len(s) >= 20
  /\ AllDigits(s, 1, 4) /\ s[5] = "-" /\ AllDigits(s, 6, 7) /\ s[8] = "-" /\ AllDigits(s, 9, 10)
  /\ s[11] = "T"
  /\ AllDigits(s, 12, 13) /\ s[14] = ":" /\ AllDigits(s, 15, 16) /\ s[17] = ":" /\ AllDigits(s, 18, 19)
  /\ Num2(s, 6) \in 1..12 /\ Num2(s, 9) \in 1..31 /\ Num2(s, 12) \in 0..23 /\ Num2(s, 15) \in 0..59 /\ Num2(s, 18) \in 0..59
  /\ LET RECURSIVE FracEnd(_)
         FracEnd(i) == IF i <= Len(s) /\ s[i] \in Digit THEN FracEnd(i + 1) ELSE i
         z == IF s[20] = "." THEN FracEnd(21) ELSE 20
     IN /\ (s[20] = "." => z > 21)
        /\ z <= Len(s)
        /\ \/ (s[z] = "Z" /\ Len(s) = z)
           \/ /\ s[z] \in {"+", "-"} /\ Len(s) = z + 5
              /\ AllDigits(s, z + 1, z + 2) /\ s[z + 3] = ":" /\ AllDigits(s, z + 4, z + 5)

---------------------------------------------------------------------------
MTUnknownConfig == "application/vnd.unknown.config.v1+json"
MTUnknownArtifact == "application/vnd.unknown.artifact.v1"
MTEmptyJSON == "application/vnd.oci.empty.v1+json"
MTImageManifest == "application/vnd.oci.image.manifest.v1+json"
MTArtifactManifest == "application/vnd.oci.artifact.manifest.v1+json"

\* Expected(c, atOK, cfgOK, createdOK): the required outcome.  atOK / cfgOK /
\* createdOK are the recognisers' verdicts on the concrete strings of the case.
\*   res      "ok" | "mediatype" | "unsupported" | "missingat" | "datetime"
\*   nopush   nothing at all may have been pushed
\*   nomanifest  no manifest may have been pushed
\*   config   "given" | "customempty" (bytes {} under the media type cfgmt) | "emptyjson"
\*   cfgmt    "at" (the artifact type) | a fixed string | "given"
\*   layers   "given" | "placeholder" (one empty-JSON layer)
\*   outat    what the manifest's artifactType field holds: "at" | "" | MTUnknownArtifact
\*   descat   what the returned descriptor's ArtifactType holds: "at" | "cfgmt" | MTUnknownArtifact
Reject(r, nopush) == [res |-> r, nopush |-> nopush, nomanifest |-> TRUE]
Expected(c, atOK, cfgOK, createdOK) ==
  LET badCreated == c.ann = "badcreated" /\ ~createdOK IN
  CASE c.ver = "v1.0" ->
         IF c.subject THEN Reject("unsupported", TRUE)
         ELSE IF c.cfg # "none" /\ ~cfgOK THEN Reject("mediatype", TRUE)
         ELSE IF c.cfg = "none" /\ c.at # "empty" /\ ~atOK THEN Reject("mediatype", TRUE)
         ELSE IF badCreated THEN Reject("datetime", FALSE)
         ELSE [res |-> "ok", nopush |-> FALSE, nomanifest |-> FALSE, mt |-> MTImageManifest,
               config |-> IF c.cfg # "none" THEN "given" ELSE "customempty",
               cfgmt |-> IF c.cfg # "none" THEN "given" ELSE IF c.at = "empty" THEN MTUnknownConfig ELSE "at",
               layers |-> "given", subject |-> FALSE, outat |-> "", descat |-> "cfgmt"]
    [] c.ver = "v1.1" ->
         IF c.at = "empty" /\ c.cfg \in {"none", "emptyjson"} THEN Reject("missingat", TRUE)
         ELSE IF c.at # "empty" /\ ~atOK THEN Reject("mediatype", TRUE)
         ELSE IF c.cfg # "none" /\ ~cfgOK THEN Reject("mediatype", TRUE)
         ELSE IF badCreated THEN Reject("datetime", FALSE)
         ELSE [res |-> "ok", nopush |-> FALSE, nomanifest |-> FALSE, mt |-> MTImageManifest,
               config |-> IF c.cfg # "none" THEN "given" ELSE "emptyjson",
               cfgmt |-> IF c.cfg # "none" THEN "given" ELSE MTEmptyJSON,
               layers |-> IF c.layers \in {"nil", "empty"} THEN "placeholder" ELSE "given",
               subject |-> c.subject, outat |-> IF c.at = "empty" THEN "" ELSE "at",
               descat |-> IF c.at = "empty" THEN "" ELSE "at"]
    [] c.ver = "rc2" ->
         IF badCreated THEN Reject("datetime", FALSE)
         ELSE [res |-> "ok", nopush |-> FALSE, nomanifest |-> FALSE, mt |-> MTImageManifest,
               config |-> IF c.cfg # "none" THEN "given" ELSE "customempty",
               cfgmt |-> IF c.cfg # "none" THEN "given" ELSE IF c.at = "empty" THEN MTUnknownConfig ELSE "at",
               layers |-> "given", subject |-> c.subject, outat |-> "", descat |-> "cfgmt"]
    [] c.ver = "artifact" ->
         IF badCreated THEN Reject("datetime", FALSE)
         ELSE [res |-> "ok", nopush |-> FALSE, nomanifest |-> FALSE, mt |-> MTArtifactManifest,
               config |-> "noconfig", cfgmt |-> "", layers |-> "given", subject |-> c.subject,
               outat |-> IF c.at = "empty" THEN MTUnknownArtifact ELSE "at",
               descat |-> IF c.at = "empty" THEN MTUnknownArtifact ELSE "at"]

\* The deprecated Pack entry points are not documented to validate media
\* types; the property's rejection clause is applied to PackManifest only.
Validates(c) == c.ver \in {"v1.0", "v1.1"}
=============================================================================
