----------------------------- MODULE RoundJudge -----------------------------
(***************************************************************************)
(* C12 judge: one record per case of the round-trip pipeline run on the    *)
(* real file stores.  src is the abstract source tree (from the generator, *)
(* not read back from disk), got the tree found in the second file store.  *)
(***************************************************************************)
EXTENDS Integers, Sequences, FiniteSets, TLC, Json

CONSTANTS TraceFile, OutFile
Trace == ndJsonDeserialize(TraceFile)
VARIABLES l, viol, done
vars == <<l, viol, done>>
Rec == Trace[l]
Rng(s) == {s[i] : i \in 1..Len(s)}

MaskDigit(d) == CASE d = 7 -> 5 [] d = 6 -> 4 [] d = 3 -> 1 [] d = 2 -> 0 [] OTHER -> d
Masked(m) == <<m[1], MaskDigit(m[2]), MaskDigit(m[3])>>
Obj(o, withMode) == <<o.p, o.t, o.c, o.tgt, IF withMode /\ o.t # "sym" THEN o.mode ELSE <<>> >>
Want(o, preserve) == <<o.p, o.t, o.c, o.tgt, IF o.t = "sym" THEN <<>> ELSE IF preserve THEN o.mode ELSE Masked(o.mode)>>

Checks(r) ==
  LET o == r.c.opts IN
  IF r.kind = "tree" THEN
    IF o.skipunpack /\ r.isdir THEN
      {<<"PipelineSucceeds", r.ok>>,
       <<"SkipUnpackKeepsBlob", r.ok => (r.blobfile /\ r.blobdigestok)>>,
       <<"DescriptorMatchesBytes", r.descok>>}
    ELSE
      {<<"PipelineSucceeds", r.ok>>,
       <<"SamePathsTypesBytesLinks", r.ok => {Obj(x, FALSE) : x \in Rng(r.got)} = {Obj(x, FALSE) : x \in Rng(r.src)}>>,
       <<"Modes", r.ok => {Obj(x, TRUE) : x \in Rng(r.got)} = {Want(x, o.preserve) : x \in Rng(r.src)}>>,
       <<"DescriptorMatchesBytes", r.descok>>,
       <<"ReproducibleDescriptor", (o.reproducible /\ r.isdir) => r.samedesc>>}
  ELSE IF r.kind = "used" THEN    \* restored over longer files of the same names: same paths, types and bytes
    {<<"PipelineSucceeds", r.ok>>,
     <<"OverwritesCompletely", r.ok => {Obj(x, FALSE) : x \in Rng(r.got)} = {Obj(x, FALSE) : x \in Rng(r.src)}>>}
  ELSE IF r.kind = "dup" THEN
    {<<"DuplicatesBothMaterialise", (r.ok /\ ~o.forcecas) => (r.first /\ r.second)>>,
     <<"PipelineSucceeds", r.ok>>}
  ELSE IF r.kind = "second" THEN
    \* a second artifact that reuses a name with other bytes, copied into the same file store: a store that holds one
    \* file per name may refuse it; it must not report success and keep the first artifact's bytes
    {<<"FirstReleaseRestored", r.ok>>,
     <<"SecondReleaseNeverStale", r.ok2 => (r.fresh /\ r.exists2 /\ r.fetch2)>>}
  ELSE \* "tamper": a wrong uncompressed digest must make the unpack fail
    {<<"UncompressedDigestVerified", ~r.ok>>}

Init == l = 1 /\ viol = {} /\ done = FALSE
Step ==
  /\ l <= Len(Trace)
  /\ l' = l + 1
  /\ done' = FALSE
  /\ viol' = viol \cup {[t |-> Rec.t, i |-> Rec.i, inv |-> k[1]] : k \in {k \in Checks(Rec) : ~k[2]}}
Finish ==
  /\ l = Len(Trace) + 1 /\ ~done
  /\ done' = TRUE
  /\ JsonSerialize(OutFile, [consumed |-> l - 1, viol |-> viol])
  /\ UNCHANGED <<l, viol>>
Next == Step \/ Finish
Spec == Init /\ [][Next]_vars
Consumed == TLCGet("stats").diameter = Len(Trace) + 2
=============================================================================
