----------------------------- MODULE CopyGraph -----------------------------
(***************************************************************************)
(* Implementation-shaped model of oras.CopyGraph (copy.go:215-279) with    *)
(* its three collaborators: status.Tracker (TryCommit / done channel),     *)
(* syncutil.LimitedRegion + semaphore (limit.go) and the errgroup scopes   *)
(* of syncutil.Go.  One action per critical section of the Go code:        *)
(*                                                                         *)
(*   Start      goroutine body entry: skip if the scope is cancelled,      *)
(*              tracker.TryCommit                                          *)
(*   Exists     dst.Exists; present -> OnCopySkipped, close(done)          *)
(*   FindSucc   FindSuccessors through the caching proxy (a source read    *)
(*              for a manifest), removeForeignLayers, region.End()         *)
(*   Dispatch   the loop of syncutil.Go: region.Start (acquire) + eg.Go,   *)
(*              or cancel+break when the scope is cancelled                *)
(*   WaitKids   eg.Wait + context.Cause                                    *)
(*   WaitDone   the loop over successors' done channels                    *)
(*   Reacquire  region.Start                                               *)
(*   Fetch      PreCopy + src.Fetch (cache read for manifests)             *)
(*   Push       dst.Push + PostCopy, close(done) on success                *)
(*   Finish     deferred region.End, errgroup cancellation on error        *)
(*                                                                         *)
(* Tasks are <<scope, node>> pairs: scope = the node whose committer made  *)
(* the syncutil.Go call (0 for the top-level call).  The graph is chosen   *)
(* in Init: every successor relation on 1..N with edges from higher to     *)
(* lower numbers in which everything is reachable from the root N, every   *)
(* link-closed initial destination, at most MaxFaults injected faults and  *)
(* at most MaxCancel external cancellations.                               *)
(***************************************************************************)
EXTENDS Integers, Sequences, FiniteSets, TLC

CONSTANTS N,         \* nodes are 1..N, the root is N
          C,         \* Concurrency
          MaxFaults, \* number of injected faults
          MaxCancel  \* 0 or 1: the caller may cancel the context once

Node == 1..N
Root == N
\* fault points: operation x node. "pushA" fails after the content was stored.
Ops == {"exists", "findsucc", "fetch", "pushB", "pushA", "pre", "post", "skipped"}

VARIABLES succ,      \* [Node -> SUBSET Node]   (chosen in Init, then constant)
          sseq,      \* [Node -> Seq(Node)]  the successors in the order of the manifest's descriptor list
          dst,       \* SUBSET Node: content of the destination
          st,        \* [Node -> {"none","commit","done"}]  tracker entry / done channel closed
          sem,       \* permits in use
          pc,        \* [Task -> program counter]
          holds,     \* [Task -> BOOLEAN] the task's LimitedRegion is started
          res,       \* [Task -> {"none","nil","err"}]
          nxt,       \* [Node -> Nat]  position of the dispatch loop of the node's committer
          cancelled, \* [0..N -> BOOLEAN]  scope p = Go call made by the committer of p; 0 = top level
          owner,     \* [Node -> Task]  the task that committed the node
          faults,    \* SUBSET (Ops \X Node) still armed
          fired,     \* a fault fired or the caller cancelled before completion
          extc       \* the caller cancelled the context

vars == <<succ, sseq, dst, st, sem, pc, holds, res, nxt, cancelled, owner, faults, fired, extc>>

Task == {<<0, Root>>} \cup {<<p, c>> : p \in Node, c \in Node}
NoTask == <<-1, -1>>
NodeOf(t) == t[2]
ScopeOf(t) == t[1]
RootT == <<0, Root>>

\* successors in ascending / descending order; the order in which a manifest
\* lists its successors is the order in which syncutil.Go dispatches them
Asc(S) ==
  LET RECURSIVE Build(_, _)
      Build(k, acc) == IF k > N THEN acc ELSE Build(k + 1, IF k \in S THEN Append(acc, k) ELSE acc)
  IN Build(1, <<>>)
Desc(S) ==
  LET RECURSIVE Build(_, _)
      Build(k, acc) == IF k < 1 THEN acc ELSE Build(k - 1, IF k \in S THEN Append(acc, k) ELSE acc)
  IN Build(N, <<>>)
SuccSeq(n) == sseq[n]

\* is the context of scope s done?  scope p derives from the context of the
\* task that made the Go call, i.e. of owner[p]
RECURSIVE CtxDone(_)
CtxDone(s) == IF s = 0 THEN cancelled[0] \/ extc
              ELSE cancelled[s] \/ (owner[s] # NoTask /\ CtxDone(ScopeOf(owner[s])))

Closed(S) == \A n \in S : succ[n] \subseteq S

RECURSIVE Reach(_)
Reach(n) == {n} \cup UNION {Reach(m) : m \in succ[n]}

\* at most MaxFaults (0, 1 or 2) armed faults, built without enumerating SUBSET
FaultSets == LET P == Ops \X Node IN
  IF MaxFaults = 0 THEN {{}}
  ELSE IF MaxFaults = 1 THEN {{}} \cup {{f} : f \in P}
  ELSE {{}} \cup {{f, h} : f \in P, h \in P}

Init ==
  /\ succ \in [Node -> SUBSET Node]
  /\ \A n \in Node : \A m \in succ[n] : m < n
  /\ Reach(Root) = Node
  /\ sseq \in {[n \in Node |-> Asc(succ[n])], [n \in Node |-> Desc(succ[n])]}
  /\ dst \in SUBSET Node
  /\ Closed(dst)
  /\ st = [n \in Node |-> "none"]
  /\ sem = 1                                   \* the top-level Go call acquired for the root
  /\ pc = [t \in Task |-> IF t = RootT THEN "start" ELSE "unborn"]
  /\ holds = [t \in Task |-> t = RootT]
  /\ res = [t \in Task |-> "none"]
  /\ nxt = [n \in Node |-> 0]
  /\ cancelled = [s \in 0..N |-> FALSE]
  /\ owner = [n \in Node |-> NoTask]
  /\ faults \in FaultSets
  /\ fired = FALSE
  /\ extc = FALSE

Armed(op, n) == <<op, n>> \in faults
Disarm(op, n) == faults' = faults \ {<<op, n>>}

\* the goroutine returns: deferred lr.End(); an error cancels the errgroup scope
Finish(t, r) ==
  /\ pc' = [pc EXCEPT ![t] = "finished"]
  /\ res' = [res EXCEPT ![t] = r]
  /\ sem' = IF holds[t] THEN sem - 1 ELSE sem
  /\ holds' = [holds EXCEPT ![t] = FALSE]
  /\ cancelled' = IF r = "err" THEN [cancelled EXCEPT ![ScopeOf(t)] = TRUE] ELSE cancelled

Fail(t, op) ==   \* an armed fault fires in task t
  /\ Finish(t, "err") /\ Disarm(op, NodeOf(t)) /\ fired' = TRUE

Start(t) ==
  /\ pc[t] = "start"
  /\ LET n == NodeOf(t) IN
     IF CtxDone(ScopeOf(t)) \/ st[n] # "none"
     THEN Finish(t, "nil") /\ UNCHANGED <<succ, sseq, dst, st, nxt, owner, faults, fired, extc>>
     ELSE /\ st' = [st EXCEPT ![n] = "commit"]
          /\ owner' = [owner EXCEPT ![n] = t]
          /\ pc' = [pc EXCEPT ![t] = "exists"]
          /\ UNCHANGED <<succ, sseq, dst, sem, holds, res, nxt, cancelled, faults, fired, extc>>

Exists(t) ==
  /\ pc[t] = "exists"
  /\ LET n == NodeOf(t) IN
     IF CtxDone(ScopeOf(t))
     THEN Finish(t, "err") /\ UNCHANGED <<succ, sseq, dst, st, nxt, owner, faults, fired, extc>>
     ELSE IF Armed("exists", n)
     THEN Fail(t, "exists") /\ UNCHANGED <<succ, sseq, dst, st, nxt, owner, extc>>
     ELSE IF n \in dst
     THEN IF Armed("skipped", n)                        \* OnCopySkipped returns an error
          THEN Fail(t, "skipped") /\ UNCHANGED <<succ, sseq, dst, st, nxt, owner, extc>>
          ELSE /\ st' = [st EXCEPT ![n] = "done"]
               /\ Finish(t, "nil") /\ UNCHANGED <<succ, sseq, dst, nxt, owner, faults, fired, extc>>
     ELSE /\ pc' = [pc EXCEPT ![t] = "findsucc"]
          /\ UNCHANGED <<succ, sseq, dst, st, sem, holds, res, nxt, cancelled, owner, faults, fired, extc>>

FindSucc(t) ==
  /\ pc[t] = "findsucc"
  /\ LET n == NodeOf(t) IN
     IF succ[n] = {}
     THEN /\ pc' = [pc EXCEPT ![t] = "fetch"]           \* a leaf: no source read here
          /\ UNCHANGED <<succ, sseq, dst, st, sem, holds, res, nxt, cancelled, owner, faults, fired, extc>>
     ELSE IF CtxDone(ScopeOf(t))
     THEN Finish(t, "err") /\ UNCHANGED <<succ, sseq, dst, st, nxt, owner, faults, fired, extc>>
     ELSE IF Armed("findsucc", n)
     THEN Fail(t, "findsucc") /\ UNCHANGED <<succ, sseq, dst, st, nxt, owner, extc>>
     ELSE /\ pc' = [pc EXCEPT ![t] = "dispatch"]        \* region.End()
          /\ sem' = sem - 1 /\ holds' = [holds EXCEPT ![t] = FALSE]
          /\ nxt' = [nxt EXCEPT ![n] = 1]
          /\ UNCHANGED <<succ, sseq, dst, st, res, cancelled, owner, faults, fired, extc>>

Dispatch(t) ==
  /\ pc[t] = "dispatch"
  /\ LET n == NodeOf(t)  ss == SuccSeq(n) IN
     IF nxt[n] > Len(ss)
     THEN /\ pc' = [pc EXCEPT ![t] = "waitkids"]
          /\ UNCHANGED <<succ, sseq, dst, st, sem, holds, res, nxt, cancelled, owner, faults, fired, extc>>
     ELSE IF CtxDone(n)                                 \* region.Start() fails: cancel(err); break
     THEN /\ cancelled' = [cancelled EXCEPT ![n] = TRUE]
          /\ nxt' = [nxt EXCEPT ![n] = Len(ss) + 1]
          /\ UNCHANGED <<succ, sseq, dst, st, sem, holds, res, pc, owner, faults, fired, extc>>
     ELSE /\ sem < C
          /\ LET c == <<n, ss[nxt[n]]>> IN
             /\ sem' = sem + 1
             /\ holds' = [holds EXCEPT ![c] = TRUE]
             /\ pc' = [pc EXCEPT ![c] = "start"]
          /\ nxt' = [nxt EXCEPT ![n] = nxt[n] + 1]
          /\ UNCHANGED <<succ, sseq, dst, st, res, cancelled, owner, faults, fired, extc>>

Kids(n) == {<<n, m>> : m \in succ[n]}

WaitKids(t) ==
  /\ pc[t] = "waitkids"
  /\ LET n == NodeOf(t) IN
     /\ \A k \in Kids(n) : pc[k] \in {"finished", "unborn"}
     /\ IF cancelled[n] \/ CtxDone(ScopeOf(t)) \/ \E k \in Kids(n) : res[k] = "err"
        THEN Finish(t, "err") /\ UNCHANGED <<succ, sseq, dst, st, nxt, owner, faults, fired, extc>>
        ELSE /\ pc' = [pc EXCEPT ![t] = "waitdone"]
             /\ UNCHANGED <<succ, sseq, dst, st, sem, holds, res, nxt, cancelled, owner, faults, fired, extc>>

WaitDone(t) ==
  /\ pc[t] = "waitdone"
  /\ LET n == NodeOf(t) IN
     IF \E m \in succ[n] : st[m] = "none"               \* "successor not committed"
     THEN Finish(t, "err") /\ UNCHANGED <<succ, sseq, dst, st, nxt, owner, faults, fired, extc>>
     ELSE IF \A m \in succ[n] : st[m] = "done"
     THEN /\ pc' = [pc EXCEPT ![t] = "reacquire"]
          /\ UNCHANGED <<succ, sseq, dst, st, sem, holds, res, nxt, cancelled, owner, faults, fired, extc>>
     ELSE /\ CtxDone(ScopeOf(t))                        \* select on done / ctx.Done()
          /\ Finish(t, "err") /\ UNCHANGED <<succ, sseq, dst, st, nxt, owner, faults, fired, extc>>

Reacquire(t) ==
  /\ pc[t] = "reacquire"
  /\ IF CtxDone(ScopeOf(t))
     THEN Finish(t, "err") /\ UNCHANGED <<succ, sseq, dst, st, nxt, owner, faults, fired, extc>>
     ELSE /\ sem < C
          /\ sem' = sem + 1 /\ holds' = [holds EXCEPT ![t] = TRUE]
          /\ pc' = [pc EXCEPT ![t] = "fetch"]
          /\ UNCHANGED <<succ, sseq, dst, st, res, nxt, cancelled, owner, faults, fired, extc>>

\* PreCopy, then the read of the content: src.Fetch for a blob, the proxy's
\* cache for a manifest (no source read)
Fetch(t) ==
  /\ pc[t] = "fetch"
  /\ LET n == NodeOf(t) IN
     IF Armed("pre", n)
     THEN Fail(t, "pre") /\ UNCHANGED <<succ, sseq, dst, st, nxt, owner, extc>>
     ELSE IF succ[n] = {} /\ CtxDone(ScopeOf(t))
     THEN Finish(t, "err") /\ UNCHANGED <<succ, sseq, dst, st, nxt, owner, faults, fired, extc>>
     ELSE IF succ[n] = {} /\ Armed("fetch", n)
     THEN Fail(t, "fetch") /\ UNCHANGED <<succ, sseq, dst, st, nxt, owner, extc>>
     ELSE /\ pc' = [pc EXCEPT ![t] = "push"]
          /\ UNCHANGED <<succ, sseq, dst, st, sem, holds, res, nxt, cancelled, owner, faults, fired, extc>>

\* dst.Push, then PostCopy; `done` is closed only when both succeeded
Push(t) ==
  /\ pc[t] = "push"
  /\ LET n == NodeOf(t) IN
     IF CtxDone(ScopeOf(t))
     THEN Finish(t, "err") /\ UNCHANGED <<succ, sseq, dst, st, nxt, owner, faults, fired, extc>>
     ELSE IF Armed("pushB", n)
     THEN Fail(t, "pushB") /\ UNCHANGED <<succ, sseq, dst, st, nxt, owner, extc>>
     ELSE /\ dst' = dst \cup {n}
          /\ IF Armed("pushA", n)
             THEN Fail(t, "pushA") /\ UNCHANGED <<succ, sseq, st, nxt, owner, extc>>
             ELSE IF Armed("post", n)
             THEN Fail(t, "post") /\ UNCHANGED <<succ, sseq, st, nxt, owner, extc>>
             ELSE /\ st' = [st EXCEPT ![n] = "done"]
                  /\ Finish(t, "nil") /\ UNCHANGED <<succ, sseq, nxt, owner, faults, fired, extc>>

Terminated == pc[RootT] = "finished"

\* the caller cancels the context while the call is running
ExtCancel ==
  /\ MaxCancel > 0 /\ ~extc /\ ~Terminated
  /\ extc' = TRUE /\ fired' = TRUE
  /\ UNCHANGED <<succ, sseq, dst, st, sem, pc, holds, res, nxt, cancelled, owner, faults>>

TaskStep(t) == \/ Start(t) \/ Exists(t) \/ FindSucc(t) \/ Dispatch(t) \/ WaitKids(t)
               \/ WaitDone(t) \/ Reacquire(t) \/ Fetch(t) \/ Push(t)

Next == \/ \E t \in Task : TaskStep(t)
        \/ ExtCancel
        \/ (Terminated /\ UNCHANGED vars)

Spec == Init /\ [][Next]_vars
FairSpec == Spec /\ WF_vars(\E t \in Task : TaskStep(t))

\* the call's result: syncutil.Go returns context.Cause(ctx)
Result == IF res[RootT] = "err" \/ extc THEN "err" ELSE "nil"

---------------------------------------------------------------------------
\* C02
ClosedInv == Closed(dst)
PushAfterSucc == [][\A n \in dst' \ dst : succ[n] \subseteq dst]_vars
FaultSurfaces == (Terminated /\ fired) => Result = "err"
NoSpuriousError == (Terminated /\ ~fired) => Result = "nil"
AllQuiet == Terminated => (sem = 0 /\ \A t \in Task : pc[t] \in {"finished", "unborn"})
Terminates == <>Terminated
\* C01
SuccessComplete == (Terminated /\ Result = "nil") => Reach(Root) \subseteq dst
\* C04
SemInv == sem \in 0..C /\ sem = Cardinality({t \in Task : holds[t]})
\* a storage operation or callback only runs inside a started region
OpsHoldPermit == \A t \in Task : pc[t] \in {"exists", "findsucc", "fetch", "push"} => holds[t]
SingleOwner == \A n \in Node : st[n] # "none" => owner[n] # NoTask
\* a node is pushed by its committer only, hence at most once
OnlyOwnerWorks == \A t \in Task : pc[t] \in {"exists", "findsucc", "dispatch", "waitkids", "waitdone",
                                             "reacquire", "fetch", "push"} => owner[NodeOf(t)] = t
DoneMeansPresent == \A n \in Node : st[n] = "done" => n \in dst
=============================================================================
