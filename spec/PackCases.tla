----------------------------- MODULE PackCases -----------------------------
(* Direction A: serialises the case space of Pack.tla for the Go driver and  *)
(* model-checks the decision table itself: one state per (case, recogniser   *)
(* verdicts); the invariants are sanity conditions of the table.             *)
EXTENDS Pack, Json, SequencesExt

CONSTANT OutFile
ASSUME JsonSerialize(OutFile, SetToSeq(Cases))

VARIABLES c, atOK, cfgOK, createdOK
Init == c \in Cases /\ atOK \in BOOLEAN /\ cfgOK \in BOOLEAN /\ createdOK \in BOOLEAN
Next == UNCHANGED <<c, atOK, cfgOK, createdOK>>
Spec == Init /\ [][Next]_<<c, atOK, cfgOK, createdOK>>

E == Expected(c, atOK, cfgOK, createdOK)
TableTotal == E.res \in {"ok", "mediatype", "unsupported", "missingat", "datetime"}
NoPushImpliesNoManifest == E.nopush => E.nomanifest
OkShape == E.res = "ok" => /\ E.mt \in {MTImageManifest, MTArtifactManifest}
                           /\ E.config \in {"given", "customempty", "emptyjson", "noconfig"}
                           /\ E.layers \in {"given", "placeholder"}
                           /\ (c.ver = "v1.0" => ~E.subject)
\* a valid, complete request is never rejected
ValidAccepted == (atOK /\ cfgOK /\ c.ann # "badcreated" /\ c.at = "valid" /\ ~(c.ver = "v1.0" /\ c.subject)) => E.res = "ok"
\* PackManifest never accepts an invalid media type that it uses
InvalidRejected == /\ (c.ver = "v1.1" /\ c.at = "invalid" /\ ~atOK) => E.res # "ok"
                   /\ (c.ver \in {"v1.0", "v1.1"} /\ c.cfg = "invalid" /\ ~cfgOK) => E.res # "ok"
=============================================================================
