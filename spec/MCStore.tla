------------------------------ MODULE MCStore ------------------------------
(***************************************************************************)
(* L1 for C06-C09: exhaustive exploration of StoreModel.tla itself over    *)
(* every content universe on N nodes (edges high -> low, subjects among    *)
(* manifest successors), AutoGC on/off, histories of at most MaxOps        *)
(* Push / Tag / Untag / Delete / GC.  The invariants are the clauses of    *)
(* the properties, so a mistake in the required-effect definitions         *)
(* (DelSet, GCResult) shows up here, before any trace is judged.           *)
(***************************************************************************)
EXTENDS StoreModel

CONSTANTS N, MaxOps
VARIABLES nops, lastop, pre

mvars == <<g, content, tags, indexed, stray, tagann, nops, lastop, pre>>

Asc(S) ==
  LET RECURSIVE B(_, _)
      B(k, acc) == IF k > N THEN acc ELSE B(k + 1, IF k \in S THEN Append(acc, k) ELSE acc)
  IN B(1, <<>>)

Universes ==
  {[n |-> N, all |-> a, isman |-> [k \in 1..N |-> a[k] # <<>>], subj |-> s, refs |-> <<"t1", "t2">>,
    kind |-> "oci", autogc |-> gc] :
     a \in {[k \in 1..N |-> Asc(ss[k])] : ss \in {f \in [1..N -> SUBSET (1..N)] : \A k \in 1..N : \A m \in f[k] : m < k}},
     s \in [1..N -> 0..N], gc \in BOOLEAN}

WellFormed(u) == \A k \in 1..N : u.subj[k] = 0 \/ (u.subj[k] \in Rng(u.all[k]) /\ u.all[u.subj[k]] # <<>>)

Snap == [content |-> content, tags |-> tags, indexed |-> indexed]

MInit ==
  /\ g \in {u \in Universes : WellFormed(u)}
  /\ content = {} /\ indexed = {} /\ stray = {}
  /\ tags = [r \in {"t1", "t2"} |-> 0] /\ tagann = [r \in {"t1", "t2"} |-> ""]
  /\ nops = 0 /\ lastop = [op |-> "init", n |-> 0, ref |-> ""] /\ pre = [content |-> {}, tags |-> [r \in {"t1", "t2"} |-> 0], indexed |-> {}]

Do(r) ==
  /\ nops < MaxOps
  /\ LET x == Expect(r) IN
     /\ x.res = "ok"                                 \* refused operations change nothing
     /\ content' = x.content /\ tags' = x.tags /\ indexed' = x.indexed /\ stray' = x.stray
  /\ pre' = Snap /\ lastop' = r /\ nops' = nops + 1
  /\ UNCHANGED <<g, tagann>>

MNext == \E n \in 1..N, ref \in {"t1", "t2"}, op \in {"push", "tag", "untag", "delete", "gc"} :
           Do([op |-> op, n |-> n, ref |-> ref])
MSpec == MInit /\ [][MNext]_mvars

\* ----- clauses of the properties
TagsPointToContent == \A r \in Refs : tags[r] # 0 => tags[r] \in content               \* C06
IndexedPresent == indexed \subseteq content
RemovedByDelete == pre.content \ content
IsDelete == lastop.op = "delete"
IsGC == lastop.op = "gc"
\* C09 Delete
DeleteRemovesTarget == IsDelete => lastop.n \notin content
DeleteOnlyTargetWithoutGC == (IsDelete /\ ~g.autogc) => RemovedByDelete = {lastop.n}
DeleteNeverRemovesLinked ==      \* never a node a surviving node still links to (beyond the named one)
  IsDelete => \A m \in RemovedByDelete \ {lastop.n} : \A q \in content : ~Contains(q, m)
DeleteNeverRemovesTagged == IsDelete => \A m \in RemovedByDelete \ {lastop.n} : m \notin Tagged(pre.tags)
DeleteKeepsOtherTags == IsDelete => \A r \in Refs : (pre.tags[r] # 0 /\ pre.tags[r] # lastop.n) => tags[r] = pre.tags[r]
DeleteRemovesItsTags == IsDelete => \A r \in Refs : pre.tags[r] = lastop.n => tags[r] = 0
\* the cascade is maximal: no untagged manifest whose subject is gone, and nothing untagged that lost its last
\* predecessor in this delete, survives
DeleteCascadeComplete ==
  (IsDelete /\ g.autogc) =>
     \A m \in content : m \in Tagged(tags) \/
        /\ ~(IsMan(m) /\ Subj(m) # 0 /\ Subj(m) \in RemovedByDelete /\ \A q \in content : ~Contains(q, m))
        /\ ~((\E q \in RemovedByDelete : IsMan(q) /\ m \in Succ(q)) /\ Pred(content, m) = {})
\* C09 GC
GCKeepsReachable == IsGC => (pre.content \cap ReachP(Tagged(pre.tags), {}, pre.content)) \subseteq content
GCKeepsTags == IsGC => tags = pre.tags
GCRemovesOnlyGarbage == IsGC => \A m \in pre.content \ content : m \notin ReachP(Tagged(pre.tags), {}, pre.content)
GCIdempotent == IsGC => LET x == GCResult(content, tags, indexed) IN content \cap x.live = content
GCKeepsPred == IsGC => \A n \in content : Pred(content, n) = Pred(pre.content, n) \cap content
=============================================================================
