----------------------------- MODULE PagingJudge -----------------------------
(***************************************************************************)
(* C15 judge: one record per case of Paging.tla run through the real       *)
(* Repository.Tags / Registry.Repositories / Repository.Referrers against  *)
(* the scripted paginating server.  L3: delivery exactly once in order,    *)
(* stop at callback error, nothing read beyond MaxMetadataBytes, oversize  *)
(* documents are errors, request paths.  L2: pages, requests and outcome   *)
(* equal Run(case) of PagingModel.tla (this also validates the scripted    *)
(* server against the specification's server).                             *)
(***************************************************************************)
EXTENDS PagingModel, Json

CONSTANTS TraceFile, OutFile
Trace == ndJsonDeserialize(TraceFile)
VARIABLES l, viol, nonconf, done
vars == <<l, viol, nonconf, done>>
Rec == Trace[l]

Cancelled(r) == "cancelat" \in DOMAIN r /\ r.cancelat # 0
Checks(r) ==
  LET c == r.c  d == Flatten(r.pages)  w == Wanted(c) IN
  {<<"DeliveredOnceInOrder", Len(d) <= Len(w) /\ d = SubSeq(w, 1, Len(d))>>,
   <<"CompleteWhenOk", r.outcome = "ok" => d = w>>,
   <<"CallbackErrorReturned", (c.cbfail # 0 /\ Len(r.pages) >= c.cbfail) => (r.outcome = "cb" /\ Len(r.pages) = c.cbfail)>>,
   \* (Cancelled(r): the context was cancelled from inside a callback that returned nil)
   <<"NoSpuriousError", (c.cbfail = 0 /\ c.oversize = 0 /\ ~Cancelled(r)) => r.outcome = "ok">>,
   <<"NeverOverRead", \A k \in 1..Len(r.consumed) : r.consumed[k] <= r.limit>>,
   <<"OversizeIsError", (c.oversize # 0 /\ Len(r.reqs) >= c.oversize /\ r.outcome # "cb") => r.outcome \notin {"ok"}>>,
   <<"RequestPaths", \A k \in 1..Len(r.reqs) : r.reqs[k].path = r.wantpath>>,
   <<"FilterParameterKept", \A k \in 1..Len(r.reqs) : r.reqs[k].filter = c.filter>>}

\* (records of the referrers tag schema - one client-filtered index - carry no page-by-page model run)
Conforms(r) == ("tagschema" \in DOMAIN r /\ r.tagschema) \/ Cancelled(r) \/ LET m == Run(r.c) IN
  /\ r.pages = m.pages
  /\ [k \in 1..Len(r.reqs) |-> r.reqs[k].after] = m.reqs
  /\ r.outcome = m.outcome

Init == l = 1 /\ viol = {} /\ nonconf = {} /\ done = FALSE
Step ==
  /\ l <= Len(Trace)
  /\ l' = l + 1
  /\ done' = FALSE
  /\ viol' = viol \cup {[t |-> Rec.t, i |-> Rec.i, inv |-> k[1]] : k \in {k \in Checks(Rec) : ~k[2]}}
  /\ nonconf' = IF Conforms(Rec) THEN nonconf ELSE nonconf \cup {[t |-> Rec.t, i |-> Rec.i, inv |-> "L2"]}
Finish ==
  /\ l = Len(Trace) + 1 /\ ~done
  /\ done' = TRUE
  /\ JsonSerialize(OutFile, [consumed |-> l - 1, viol |-> viol, nonconf |-> nonconf])
  /\ UNCHANGED <<l, viol, nonconf>>
Next == Step \/ Finish
Spec == Init /\ [][Next]_vars
Consumed == TLCGet("stats").diameter = Len(Trace) + 2
=============================================================================
