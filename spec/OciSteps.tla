------------------------------ MODULE OciSteps ------------------------------
(***************************************************************************)
(* The file-system steps of every OCI-layout operation, in the order in    *)
(* which content/oci issues its system calls (shared by OciCrash.tla, the  *)
(* exhaustive crash model, and CrashMon.tla, which compares them with the  *)
(* system calls recorded by strace).                                       *)
(***************************************************************************)
EXTENDS StoreModel

CONSTANTS AtomicIndex,    \* index.json is replaced by rename (the repaired writeIndexFile)
          SaveBeforeSweep \* GC saves the index before it unlinks (the repaired GC)

SeqOf(S) ==
  LET RECURSIVE B(_, _)
      B(k, acc) == IF k > g.n THEN acc ELSE B(k + 1, IF k \in S THEN Append(acc, k) ELSE acc)
  IN B(1, <<>>)

\* what saveIndex writes for a model state
Projection(T, Ix) ==
  {<<r, T[r]>> : r \in {q \in Refs : T[q] # 0}} \cup {<<"", n>> : n \in Ix \ Tagged(T)}
Snap(C, T, Ix) == [content |-> C, tags |-> T, indexed |-> Ix]
Cur == Snap(content, tags, indexed)

SaveSteps(T, Ix) ==
  IF AtomicIndex THEN << [k |-> "writetmp", ix |-> Projection(T, Ix)], [k |-> "renameidx"] >>
  ELSE << [k |-> "truncidx"], [k |-> "writeidx", ix |-> Projection(T, Ix)] >>

RECURSIVE DeleteSteps(_, _, _)
\* remove the nodes of sequence ds one after the other: save the index without the node, unlink it
DeleteSteps(ds, T, Ix) ==
  IF ds = <<>> THEN <<>>
  ELSE LET d == Head(ds)  Ix2 == Ix \ {d} IN
       (IF d \in Ix \/ d \in Tagged(T) THEN SaveSteps(T, Ix2) ELSE <<>>)
         \o << [k |-> "unlink", n |-> d] >> \o DeleteSteps(Tail(ds), T, Ix2)

StepsOf(r, x) ==
  CASE r.op = "push" ->
         << [k |-> "mktemp", n |-> r.n], [k |-> "writetemp", n |-> r.n], [k |-> "chmod", n |-> r.n],
            [k |-> "renameblob", n |-> r.n] >>
         \o (IF IsMan(r.n) THEN SaveSteps(x.tags, x.indexed) ELSE <<>>)
    [] r.op \in {"tag", "untag"} -> SaveSteps(x.tags, x.indexed)
    [] r.op = "delete" ->
         LET D == content \ x.content IN
         \* the target first, then the cascade; the target's tags are gone from the first save on
         DeleteSteps(<<r.n>> \o SeqOf(D \ {r.n}), x.tags, indexed)
    [] r.op = "gc" ->
         LET swept == SeqOf(content \ x.content)
             unl == [i \in 1..Len(swept) |-> [k |-> "unlink", n |-> swept[i]]]
         IN IF SaveBeforeSweep THEN SaveSteps(x.tags, x.indexed) \o unl ELSE unl \o SaveSteps(x.tags, x.indexed)

=============================================================================
