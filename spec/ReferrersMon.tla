---------------------------- MODULE ReferrersMon ----------------------------
(***************************************************************************)
(* C14 monitor: a round of concurrent referrer pushes and deletions through *)
(* one Repository against a registry without the Referrers API, then a      *)
(* quiescent observation: what a fresh Repository lists as referrers of     *)
(* each subject, which referrer manifests the registry holds, and how many  *)
(* client-made index manifests / referrers tags it holds.                   *)
(*  OpsSucceed       every operation returned ok (or, with an injected      *)
(*                   failure of an index deletion, the referrers-index-     *)
(*                   delete error)                                          *)
(*  LiveAsOperated   the registry holds exactly (pre + pushed) - deleted    *)
(*  IndexExact       each subject's listing = the live manifests naming it, *)
(*                   each once, with artifact type and annotations (this is *)
(*                   what a Referrers-API registry would list)              *)
(*  NoDangling       no superseded index manifest is left (unless GC is     *)
(*                   skipped or its deletion was made to fail)              *)
(*  DeleteErrorAfterEffect  a failed index deletion is reported as such     *)
(*                   and the listing is still exact                         *)
(***************************************************************************)
EXTENDS Integers, Sequences, FiniteSets, TLC, Json

CONSTANTS TraceFile, OutFile
Trace == ndJsonDeserialize(TraceFile)
VARIABLES l, g, rets, viol, done
vars == <<l, g, rets, viol, done>>
Rec == Trace[l]
Rng(s) == {s[i] : i \in 1..Len(s)}
V(checks) == viol' = viol \cup {[t |-> Rec.t, i |-> Rec.i, inv |-> c[1]] : c \in {c \in checks : ~c[2]}}

RefIds == {g.refs[i][1] : i \in 1..Len(g.refs)}
RefRec(r) == CHOOSE x \in Rng(g.refs) : x[1] = r            \* <<id, subject, artifactType, annotations>>

Init == l = 1 /\ g = [nops |-> 0] /\ rets = {} /\ viol = {} /\ done = FALSE
EvInit == Rec.e = "init" /\ g' = Rec /\ rets' = {} /\ UNCHANGED viol
EvRet ==
  /\ Rec.e = "ret"
  /\ rets' = rets \cup {Rec}
  /\ V({<<"OpsSucceed", Rec.res = "ok" \/ (g.faildel /\ Rec.res = "indexdelete") \/ (g.failidx # "" /\ Rec.res = "err")>>})
  /\ UNCHANGED g
EvHang == Rec.e = "hang" /\ V({<<"NoHang", FALSE>>}) /\ UNCHANGED <<g, rets>>

\* a referrers-index-delete error is reported after the update itself took effect: a push that got it is pushed and
\* listed; a delete that got it has left the index but its manifest is still there (Delete stops at the error)
Pushed == {r.r : r \in {x \in rets : x.kind = "push" /\ x.res \in {"ok", "indexdelete"}}}
Deleted == {r.r : r \in {x \in rets : x.kind = "delete" /\ x.res = "ok"}}
Unlisted == {r.r : r \in {x \in rets : x.kind = "delete" /\ x.res = "indexdelete"}}
\* an injected failure of the index fetch or push makes the operations of that batch fail: a failed Push has stored its
\* manifest but not listed it, a failed Delete has done nothing
PushedErr == {r.r : r \in {x \in rets : x.kind = "push" /\ x.res = "err"}}
DeletedErr == {r.r : r \in {x \in rets : x.kind = "delete" /\ x.res = "err"}}
ExpectedLive == (Rng(g.pre) \cup Pushed) \ Deleted

\* the index of subject s was rewritten by this client in the round (any rewrite drops duplicates and empty entries)
Cleaned(s) == \E x \in rets : RefRec(x.r)[2] = s /\ (x.res = "ok" \/ (x.kind = "push" /\ x.res = "indexdelete"))

EvQuiesce ==
  /\ Rec.e = "quiesce"
  /\ LET listed == Rec.listed
         Pos(s) == {j \in 1..Len(listed) : listed[j][1] = s}
         Ids(s) == {listed[j][2] : j \in Pos(s)}
         LiveOf(s) == {r \in Rng(Rec.live) : RefRec(r)[2] = s}
         delErrs == Cardinality({x \in rets : x.res = "indexdelete"})
     IN V({<<"AllReturned", Cardinality(rets) = g.nops>>,
           <<"LiveAsOperated", ExpectedLive \subseteq Rng(Rec.live) /\ Rng(Rec.live) \subseteq ExpectedLive \cup PushedErr>>,
           \* a referrer whose Delete stopped at the index-delete error is still live: it may be listed (the update was the
           \* failed deletion of the index itself) or not (a new index without it was pushed first)
           <<"IndexExact", \A s \in 0..(g.subjects - 1) :
                 /\ (LiveOf(s) \ (Unlisted \cup PushedErr)) \subseteq Ids(s) \ {0}
                 /\ Ids(s) \ {0} \subseteq LiveOf(s)
                 /\ Cleaned(s) => (0 \notin Ids(s) /\ Cardinality(Pos(s)) = Cardinality(Ids(s)))        \* each once, no empty entry
                 /\ \A j \in Pos(s) : listed[j][2] \in RefIds => (listed[j][3] = RefRec(listed[j][2])[3] /\ listed[j][4] = RefRec(listed[j][2])[4])>>,
           <<"NoDangling", (~g.skipgc /\ ~Rec.failfired) => (Rec.indexes = Rec.tagged /\ Rec.indexes <= g.subjects)>>,
           <<"DeleteErrorAfterEffect", g.failidx = "" => (Rec.failfired <=> delErrs >= 1)>>,
           <<"FailureReported", (g.failidx # "" /\ Rec.failfired) => \E x \in rets : x.res = "err">>,
           <<"FailureLeavesOneExtraIndex", (Rec.failfired /\ ~g.skipgc) => Rec.indexes <= Rec.tagged + 1>>})
  /\ UNCHANGED <<g, rets>>

Step ==
  /\ l <= Len(Trace)
  /\ l' = l + 1
  /\ done' = FALSE
  /\ \/ EvInit \/ EvRet \/ EvHang \/ EvQuiesce
Finish ==
  /\ l = Len(Trace) + 1 /\ ~done
  /\ done' = TRUE
  /\ JsonSerialize(OutFile, [consumed |-> l - 1, viol |-> viol])
  /\ UNCHANGED <<l, g, rets, viol>>
Next == Step \/ Finish
Spec == Init /\ [][Next]_vars
Consumed == TLCGet("stats").diameter = Len(Trace) + 2
=============================================================================
