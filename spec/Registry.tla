------------------------------- MODULE Registry -------------------------------
(***************************************************************************)
(* The OCI distribution specification as a server model (C13, C14):        *)
(* state per repository and, for every ALLOWED REQUEST FORM, the response  *)
(* and the state change.  Content is identified by its digest string.      *)
(*   st.blobs, st.manifests   sets of <<repo, digest>>                      *)
(*   st.tags                  set of <<repo, tag, digest>>                  *)
(*   st.mtype, st.len         sets of <<digest, media type / length>> for   *)
(*                            every manifest ever stored                    *)
(*   st.uploads               open upload sessions <<id, repo>>             *)
(* u is the universe of the history: u.dg[k], u.mt[k], u.size[k], u.subj[k] *)
(* of node k, u.profile the registry's capabilities, u.tagnames the         *)
(* strings that are tags (everything else in a reference slot is a digest). *)
(* A request x is the record logged by the harness's in-process registry;   *)
(* Serve(u, st, x) is the model's answer [status, st, digesthdr, ocisubj].  *)
(***************************************************************************)
EXTENDS Integers, Sequences, FiniteSets, TLC

Rng(s) == {s[i] : i \in 1..Len(s)}
IsTag(u, ref) == ref \in u.tagnames
NodeOfDg(u, d) == IF \E k \in 1..u.n : u.dg[k] = d THEN CHOOSE k \in 1..u.n : u.dg[k] = d ELSE 0
SubjOfDg(u, d) == LET k == NodeOfDg(u, d) IN IF k = 0 \/ u.subj[k] = 0 THEN "" ELSE u.dg[u.subj[k]]

EmptyState == [blobs |-> {}, manifests |-> {}, tags |-> {}, mtype |-> {}, len |-> {}, uploads |-> {}]

Lookup(pairs, d) == IF \E p \in pairs : p[1] = d THEN (CHOOSE p \in pairs : p[1] = d)[2] ELSE ""
ManifestOf(st, repo, ref, u) ==      \* the digest a manifest reference resolves to, "" if none
  IF IsTag(u, ref) THEN (IF \E t \in st.tags : t[1] = repo /\ t[2] = ref THEN (CHOOSE t \in st.tags : t[1] = repo /\ t[2] = ref)[3] ELSE "")
  ELSE IF <<repo, ref>> \in st.manifests THEN ref ELSE ""

Ans(status, st) == [status |-> status, st |-> st, ocisubject |-> FALSE]

Serve(u, st, x) ==
  CASE x.route = "base" -> Ans(200, st)
    [] x.route = "blob" /\ x.method \in {"GET", "HEAD"} ->
         IF <<x.repo, x.ref>> \in st.blobs
         THEN Ans(IF x.method = "GET" /\ x.range # "" /\ u.profile.range THEN 206 ELSE 200, st)
         ELSE Ans(404, st)
    [] x.route = "blob" /\ x.method = "DELETE" ->
         IF <<x.repo, x.ref>> \in st.blobs THEN Ans(202, [st EXCEPT !.blobs = @ \ {<<x.repo, x.ref>>}]) ELSE Ans(404, st)
    [] x.route = "uploadstart" /\ x.method = "POST" ->
         IF "mount" \in DOMAIN x.query /\ "from" \in DOMAIN x.query /\ u.profile.mount /\ <<x.query.from, x.query.mount>> \in st.blobs
         THEN Ans(201, [st EXCEPT !.blobs = @ \cup {<<x.repo, x.query.mount>>}])
         ELSE Ans(202, [st EXCEPT !.uploads = @ \cup {<<x.upid, x.repo>>}])     \* the session id is the server's choice
    [] x.route = "uploadput" /\ x.method = "PUT" ->
         IF <<x.ref, x.repo>> \notin st.uploads THEN Ans(404, st)
         ELSE IF "digest" \in DOMAIN x.query /\ x.query.digest = x.bodydg
         THEN Ans(201, [st EXCEPT !.blobs = @ \cup {<<x.repo, x.bodydg>>}, !.uploads = @ \ {<<x.ref, x.repo>>}])
         ELSE Ans(400, st)
    [] x.route = "manifest" /\ x.method \in {"GET", "HEAD"} ->
         \* content negotiation: a registry may refuse a manifest whose media type the Accept header does not list
         LET d == ManifestOf(st, x.repo, x.ref, u)
             refused == u.profile.strictaccept /\ x.acceptl # <<>> /\ Lookup(st.mtype, d) \notin Rng(x.acceptl) /\ "*/*" \notin Rng(x.acceptl)
         IN IF d # "" /\ ~refused THEN Ans(200, st) ELSE Ans(404, st)
    [] x.route = "manifest" /\ x.method = "PUT" ->
         IF ~IsTag(u, x.ref) /\ x.ref # x.bodydg THEN Ans(400, st)
         ELSE [status |-> 201,
               st |-> [st EXCEPT !.manifests = @ \cup {<<x.repo, x.bodydg>>},
                                 !.mtype = {p \in @ : p[1] # x.bodydg} \cup {<<x.bodydg, x.reqct>>},
                                 !.len = {p \in @ : p[1] # x.bodydg} \cup {<<x.bodydg, x.bodylen>>},
                                 !.tags = IF IsTag(u, x.ref)
                                          THEN {t \in @ : ~(t[1] = x.repo /\ t[2] = x.ref)} \cup {<<x.repo, x.ref, x.bodydg>>}
                                          ELSE @],
               ocisubject |-> u.profile.referrers /\ SubjOfDg(u, x.bodydg) # ""]
    [] x.route = "manifest" /\ x.method = "DELETE" ->
         IF ~IsTag(u, x.ref) /\ <<x.repo, x.ref>> \in st.manifests
         THEN Ans(202, [st EXCEPT !.manifests = @ \ {<<x.repo, x.ref>>}, !.tags = {t \in @ : ~(t[1] = x.repo /\ t[3] = x.ref)}])
         ELSE Ans(404, st)
    [] x.route = "tags" /\ x.method = "GET" -> Ans(200, st)
    [] x.route = "referrers" /\ x.method = "GET" -> Ans(IF u.profile.referrers THEN 200 ELSE 404, st)
    [] OTHER -> Ans(0, st)        \* not a request form of the specification

\* ----- allowed request forms: method, exact path, permitted query keys
Keys(x) == DOMAIN x.query
PathIs(x, suffix) == x.path = "/v2/" \o x.repo \o suffix
Allowed(u, st, x) ==
  /\ x.repo \in {u.repo, u.lib} \/ x.route = "base"
  /\ CASE x.route = "base" -> x.method = "GET" /\ x.path \in {"/v2/", "/v2"} /\ Keys(x) = {}
       [] x.route = "blob" -> x.method \in {"GET", "HEAD", "DELETE"} /\ PathIs(x, "/blobs/" \o x.ref) /\ Keys(x) = {} /\ ~IsTag(u, x.ref)
       [] x.route = "manifest" -> /\ x.method \in {"GET", "HEAD", "PUT", "DELETE"} /\ PathIs(x, "/manifests/" \o x.ref) /\ Keys(x) = {}
                                  /\ (x.method = "DELETE" => ~IsTag(u, x.ref))
                                  /\ (x.method = "PUT" => x.reqct # "")
       [] x.route = "uploadstart" -> x.method = "POST" /\ PathIs(x, "/blobs/uploads/") /\ Keys(x) \in {{}, {"mount", "from"}}
       [] x.route = "uploadput" -> /\ x.method = "PUT" /\ PathIs(x, "/blobs/uploads/" \o x.ref)
                                   /\ "digest" \in Keys(x) /\ Keys(x) \subseteq {"digest", "state"}       \* the Location's own query is kept
                                   /\ <<x.ref, x.repo>> \in st.uploads
       [] x.route = "tags" -> x.method = "GET" /\ PathIs(x, "/tags/list") /\ Keys(x) \subseteq {"n", "last"}
       \* "verifafter" is the continuation parameter of the model registry's own Link header (followed verbatim)
       [] x.route = "referrers" -> x.method = "GET" /\ PathIs(x, "/referrers/" \o x.ref) /\ Keys(x) \subseteq {"artifactType", "verifafter"} /\ ~IsTag(u, x.ref)
       [] OTHER -> FALSE
=============================================================================
