---------------------------- MODULE CapabilityMon ----------------------------
(***************************************************************************)
(* C14, last clause (L3): "a repository's detected referrers capability     *)
(* never flips", judged on recorded rounds of concurrent calls against one  *)
(* Repository (harness/referrersfam/cap_test.go).  The capability is not    *)
(* readable from outside; each returned call proves something about it by   *)
(* what it did on the wire - the Evidence rules, which Capability.tla shows  *)
(* to agree with the state on every interleaving of the implementation-     *)
(* shaped model (EvidenceSound):                                            *)
(*   SetReferrersCapability(b) returned nil            capability is b       *)
(*   ... returned ErrReferrersCapabilityAlreadySet     capability is not b   *)
(*   Referrers() sent no Referrers-API request         not supported         *)
(*   Referrers() got 404 from the API, did not fall                          *)
(*      back to the tag schema, returned ErrUnsupported  supported           *)
(*   Delete of a referrer returned nil, never fetched it         supported   *)
(* Since the capability can only go from unknown to one value, two pieces   *)
(* of evidence that disagree - in any order - are a flip.                   *)
(*  CapabilityStable   no contradicting evidence within one round           *)
(*  DetectionFaithful  registry never changed its answer, nobody set the    *)
(*                     capability: every evidence equals the registry's     *)
(*  NoUnexpectedError  every call returned nil or its documented error      *)
(***************************************************************************)
EXTENDS Integers, Sequences, FiniteSets, TLC, Json

CONSTANTS TraceFile, OutFile
Trace == ndJsonDeserialize(TraceFile)
VARIABLES l, g, xs, ev, flipped, viol, done
vars == <<l, g, xs, ev, flipped, viol, done>>
Rec == Trace[l]
Rng(s) == {s[i] : i \in 1..Len(s)}
V(checks) == viol' = viol \cup {[t |-> Rec.t, i |-> Rec.i, inv |-> c[1]] : c \in {c \in checks : ~c[2]}}

Evidence(k, o, r) ==
  CASE k = "setT" -> IF r = "ok" THEN {"s"} ELSE IF r = "alreadyset" THEN {"n"} ELSE {}
    [] k = "setF" -> IF r = "ok" THEN {"n"} ELSE IF r = "alreadyset" THEN {"s"} ELSE {}
    [] k = "referrers" -> IF r \in {"ok", "unsupported"} /\ ~o.api THEN {"n"}
                          ELSE IF o.api404 /\ ~o.tag /\ r = "unsupported" THEN {"s"} ELSE {}
    [] k = "push" -> {}       \* proves nothing: its index update may have been carried out by another call's batch
    [] k = "delete" -> IF r = "ok" /\ ~o.fetched THEN {"s"} ELSE {}
    [] OTHER -> {}

ObsOf(a) ==
  LET mine == {x \in xs : x.actor = a} IN
  [api |-> \E x \in mine : x.route = "referrers" /\ x.ref = "digest",
   api404 |-> \E x \in mine : x.route = "referrers" /\ x.ref = "digest" /\ x.status = 404,
   tag |-> \E x \in mine : x.route = "manifest" /\ x.ref = "reftag",
   fetched |-> \E x \in mine : x.route = "manifest" /\ x.ref = "digest" /\ x.method = "GET"]

Init == l = 1 /\ g = [nops |-> 0] /\ xs = {} /\ ev = {} /\ flipped = FALSE /\ viol = {} /\ done = FALSE
EvInit == Rec.e = "init" /\ g' = Rec /\ xs' = {} /\ ev' = {} /\ flipped' = FALSE /\ UNCHANGED viol
EvX == Rec.e = "x" /\ xs' = xs \cup {Rec} /\ UNCHANGED <<g, ev, flipped, viol>>
EvFlip == Rec.e = "flip" /\ flipped' = TRUE /\ UNCHANGED <<g, xs, ev, viol>>
EvRet ==
  /\ Rec.e = "ret"
  /\ LET o == IF Rec.actor = "probe" THEN [api |-> FALSE, api404 |-> FALSE, tag |-> FALSE, fetched |-> FALSE] ELSE ObsOf(Rec.actor)
         e == Evidence(Rec.kind, o, Rec.res)
         forced == \E k \in Rng(g.kinds) : k \in {"setT", "setF"}
     IN /\ ev' = ev \cup e
        /\ V({<<"CapabilityStable", Cardinality(ev \cup e) <= 1>>,
              <<"DetectionFaithful", (~flipped /\ ~forced /\ Rec.actor # "probe" /\ "flip" \notin Rng(g.kinds)) => e \subseteq {IF g.truth THEN "s" ELSE "n"}>>,
              <<"NoUnexpectedError", Rec.res # "err">>})
  /\ UNCHANGED <<g, xs, flipped>>
EvHang == Rec.e = "hang" /\ V({<<"NoHang", FALSE>>}) /\ UNCHANGED <<g, xs, ev, flipped>>
\* the two closing probes: exactly one value is accepted
\* ... and, on a registry that never had the Referrers API and with nobody forcing the capability, the referrers-tag
\* index lists exactly the referrers that are in the registry (a call that took the capability for "supported" would
\* have skipped its index update)
EvEnd == Rec.e = "end"
         /\ V({<<"ProbeDecides", Cardinality(ev) = 1>>,
               <<"QuiescentIndexExact", (~g.truth /\ ~flipped /\ \A k \in Rng(g.kinds) : k \notin {"setT", "setF", "flip"})
                                          => Rng(Rec.listed) = Rng(Rec.live)>>})
         /\ UNCHANGED <<g, xs, ev, flipped>>

Step ==
  /\ l <= Len(Trace)
  /\ l' = l + 1
  /\ done' = FALSE
  /\ \/ EvInit \/ EvX \/ EvFlip \/ EvRet \/ EvHang \/ EvEnd
Finish ==
  /\ l = Len(Trace) + 1 /\ ~done
  /\ done' = TRUE
  /\ JsonSerialize(OutFile, [consumed |-> l - 1, viol |-> viol])
  /\ UNCHANGED <<l, g, xs, ev, flipped, viol>>
Next == Step \/ Finish
Spec == Init /\ [][Next]_vars
Consumed == TLCGet("stats").diameter = Len(Trace) + 2
=============================================================================
