------------------------------ MODULE OciCrash ------------------------------
(***************************************************************************)
(* C10 (L1): every operation of an OCI-layout store as the sequence of its *)
(* file-system steps, with a crash possible before every step.             *)
(*                                                                         *)
(* Disk:  blobs   complete blob files under blobs/                          *)
(*        ingest  temporary files under ingest/ (possibly partial)          *)
(*        idx     content of index.json: a set of <<ref, node>> entries     *)
(*                (ref "" = listed by digest only) or "TRUNC" (truncated)   *)
(*        tmp     index.json.tmp holds a complete new index                 *)
(* The in-memory effect of an operation is StoreModel's Expect; the steps  *)
(* are the order in which content/oci performs its system calls:            *)
(*   Push      create temp in ingest/, write, close, chmod, rename into     *)
(*             blobs/, then (manifests) save the index                      *)
(*   Tag/Untag save the index                                               *)
(*   Delete    per removed node: save the index without it, unlink it       *)
(*   GC        save the index, then unlink every swept blob                 *)
(*   save the index = write index.json.tmp, rename over index.json          *)
(*             (AtomicIndex = FALSE models the old in-place rewrite:        *)
(*             truncate index.json, then write it)                          *)
(* After a crash the store is reopened from the disk alone.                 *)
(***************************************************************************)
EXTENDS OciSteps

CONSTANTS N, MaxOps

VARIABLES blobs, ingest, idx, trunc, tmp,     \* disk (trunc: index.json is truncated)
          steps,                       \* remaining file-system steps of the operation in progress
          pre, post,                   \* model state before / after the operation in progress
          nops, crashed

cvars == <<g, content, tags, indexed, stray, tagann, blobs, ingest, idx, trunc, tmp, steps, pre, post, nops, crashed>>

Asc(S) ==
  LET RECURSIVE B(_, _)
      B(k, acc) == IF k > N THEN acc ELSE B(k + 1, IF k \in S THEN Append(acc, k) ELSE acc)
  IN B(1, <<>>)

Universes ==
  {[n |-> N, all |-> a, isman |-> [k \in 1..N |-> a[k] # <<>>], subj |-> s, refs |-> <<"t1", "t2">>,
    kind |-> "oci", autogc |-> gc] :
     a \in {[k \in 1..N |-> Asc(ss[k])] : ss \in {f \in [1..N -> SUBSET (1..N)] : \A k \in 1..N : \A m \in f[k] : m < k}},
     s \in [1..N -> 0..N], gc \in BOOLEAN}
WellFormed(u) == \A k \in 1..N : u.subj[k] = 0 \/ (u.subj[k] \in Rng(u.all[k]) /\ u.all[u.subj[k]] # <<>>)

CInit ==
  /\ g \in {u \in Universes : WellFormed(u)}
  /\ content = {} /\ indexed = {} /\ stray = {} /\ tags = [r \in {"t1", "t2"} |-> 0] /\ tagann = [r \in {"t1", "t2"} |-> ""]
  /\ blobs = {} /\ ingest = {} /\ idx = {} /\ trunc = FALSE /\ tmp = {}
  /\ steps = <<>> /\ pre = Snap({}, [r \in {"t1", "t2"} |-> 0], {}) /\ post = pre
  /\ nops = 0 /\ crashed = FALSE

\* an operation starts: its in-memory effect is decided, its steps are queued
Begin(r) ==
  /\ ~crashed /\ steps = <<>> /\ nops < MaxOps
  /\ LET x == Expect(r) IN
     /\ x.res = "ok"
     /\ StepsOf(r, x) # <<>>
     /\ steps' = StepsOf(r, x)
     /\ pre' = Cur /\ post' = Snap(x.content, x.tags, x.indexed)
  /\ nops' = nops + 1
  /\ UNCHANGED <<g, content, tags, indexed, stray, tagann, blobs, ingest, idx, trunc, tmp, crashed>>

\* one system call takes effect
DoStep ==
  /\ ~crashed /\ steps # <<>>
  /\ LET s == Head(steps) IN
     /\ blobs' = CASE s.k = "renameblob" -> blobs \cup {s.n} [] s.k = "unlink" -> blobs \ {s.n} [] OTHER -> blobs
     /\ ingest' = CASE s.k = "mktemp" -> ingest \cup {s.n} [] s.k = "renameblob" -> ingest \ {s.n} [] OTHER -> ingest
     /\ tmp' = IF s.k = "writetmp" THEN s.ix ELSE tmp
     /\ idx' = CASE s.k = "renameidx" -> tmp [] s.k = "writeidx" -> s.ix [] OTHER -> idx
     /\ trunc' = CASE s.k = "truncidx" -> TRUE [] s.k = "writeidx" -> FALSE [] OTHER -> trunc
  /\ steps' = Tail(steps)
  \* the operation returns with its last step: memory now shows its effect
  /\ IF Len(steps) = 1
     THEN content' = post.content /\ tags' = post.tags /\ indexed' = post.indexed
     ELSE UNCHANGED <<content, tags, indexed>>
  /\ UNCHANGED <<g, stray, tagann, pre, post, nops, crashed>>

\* the process dies before the next system call; memory is lost
Crash ==
  /\ ~crashed /\ steps # <<>>
  /\ crashed' = TRUE
  /\ UNCHANGED <<g, content, tags, indexed, stray, tagann, blobs, ingest, idx, trunc, tmp, steps, pre, post, nops>>

CNext == (\E n \in 1..N, ref \in {"t1", "t2"}, op \in {"push", "tag", "untag", "delete", "gc"} :
            Begin([op |-> op, n |-> n, ref |-> ref]))
         \/ DoStep \/ Crash
CSpec == CInit /\ [][CNext]_cvars

\* ----- what a reopened store sees (loadIndex), judged after a crash
IdxOK == ~trunc
TagMapOf(ix) == [r \in Refs |-> IF \E e \in ix : e[1] = r THEN (CHOOSE e \in ix : e[1] = r)[2] ELSE 0]

CanReopen == crashed => IdxOK
EntriesNameExistingBlobs == (crashed /\ IdxOK) => \A e \in idx : e[2] \in blobs
TagMapBeforeOrAfter == (crashed /\ IdxOK) => TagMapOf(idx) \in {pre.tags, post.tags}
\* content of operations that had returned is there: everything both the old and the new state hold
ReturnedEffectsPresent == crashed => (pre.content \cap post.content) \subseteq blobs
NothingInvented == crashed => blobs \subseteq (pre.content \cup post.content)
\* partial files live in ingest/ only (blobs holds complete files by construction of renameblob)
\* quiescent consistency of the disk with memory (no crash)
QuiescentDisk == (~crashed /\ steps = <<>>) => (blobs = content /\ idx = Projection(tags, indexed) /\ ingest = {})
=============================================================================
