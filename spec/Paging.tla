-------------------------------- MODULE Paging --------------------------------
(* C15 (L1): one state per case of PagingModel.tla; the client loop against the specification's server delivers every *)
(* wanted item exactly once, in order, and stops at a callback error.                                                *)
EXTENDS PagingModel

CONSTANT MaxLen
Types == {"A", "B"}
CaseSpace ==
  UNION {[api : {"tags", "repos", "referrers", "ocitags"}, len : {k}, types : [1..k -> Types], last : 0..k, n : 0..3, m : 0..3,
          link : {"abs", "path", "query", "extra"}, cbfail : 0..2, filter : {"", "A"}, serverfilters : BOOLEAN,
          oversize : 0..2] : k \in 0..MaxLen}
Sensible(c) == /\ (c.api \notin {"referrers", "ocitags"} => (c.filter = "" /\ ~c.serverfilters /\ \A i \in 1..c.len : c.types[i] = "A"))
               /\ (c.api = "ocitags" => (c.filter = "" /\ ~c.serverfilters /\ c.n = 0 /\ c.m = 0 /\ c.link = "abs" /\ c.oversize = 0 /\ c.cbfail <= 1))
               /\ (c.filter = "" => ~c.serverfilters)
               /\ (c.api = "referrers" => c.last = 0)           \* the referrers API has no `last`
               /\ (c.link # "abs" => c.oversize = 0)            \* vary one dimension at a time
Cases == {c \in CaseSpace : Sensible(c)}

VARIABLE c
Init == c \in Cases
Next == UNCHANGED c
Spec == Init /\ [][Next]_c

R == Run(c)
DeliveredPrefix ==      \* what was delivered is a prefix of what is wanted, in order, each once
  LET d == Flatten(R.pages)  w == Wanted(c) IN Len(d) <= Len(w) /\ d = SubSeq(w, 1, Len(d))
CompleteWhenOk == R.outcome = "ok" => Flatten(R.pages) = Wanted(c)
StopsAtCallbackError == R.outcome = "cb" => Len(R.pages) = c.cbfail
BoundedRequests == Len(R.reqs) <= c.len + 1
=============================================================================
