------------------------------ MODULE CrashMon ------------------------------
(***************************************************************************)
(* C10 judge.  A trace is: init (universe), the setup operations (replayed *)
(* on StoreModel), the victim operation with the system calls strace       *)
(* recorded for it (abstracted to step kinds), then one record per crash   *)
(* point k: what the directory held and what a freshly opened store showed *)
(* after the process was killed before its k-th system call.               *)
(* L2: the recorded step sequence equals StepsOf(victim) of OciSteps.tla.  *)
(* L3: the invariants of OciCrash.tla, evaluated on the real recoveries,   *)
(* with "before" and "after" taken from the model.                         *)
(***************************************************************************)
EXTENDS OciSteps, Json

CONSTANTS TraceFile, OutFile
Trace == ndJsonDeserialize(TraceFile)

VARIABLES l, pre, post, viol, nonconf, done
vars == <<l, g, content, tags, indexed, stray, tagann, pre, post, viol, nonconf, done>>
Rec == Trace[l]
NoG == [n |-> 0]

V(checks) == viol' = viol \cup {[t |-> Rec.t, i |-> Rec.i, inv |-> c[1]] : c \in {c \in checks : ~c[2]}}
TagPairs(T) == {<<r, T[r]>> : r \in {q \in Refs : T[q] # 0}}
PairsOf(s) == {<<s[i][1], s[i][2]>> : i \in 1..Len(s)}
\* the tag mapping with the annotations of the tagged descriptors (without the reference name)
TagTriples(T, A) == {<<r, T[r], A[r]>> : r \in {q \in Refs : T[q] # 0}}
TriplesOf(s) == {<<s[i][1], s[i][2], s[i][3]>> : i \in 1..Len(s)}
AnnAfter(A, r, res) == IF r.op = "tag" /\ res = "ok" THEN [A EXCEPT ![r.ref] = r.ann] ELSE A

Init == /\ l = 1 /\ g = NoG /\ content = {} /\ tags = <<>> /\ indexed = {} /\ stray = {} /\ tagann = <<>>
        /\ pre = [content |-> {}] /\ post = [content |-> {}] /\ viol = {} /\ nonconf = {} /\ done = FALSE

EvInit ==
  /\ Rec.e = "init"
  /\ g' = Rec /\ content' = {} /\ indexed' = {} /\ stray' = {} /\ tags' = [r \in Rng(Rec.refs) |-> 0]
  /\ tagann' = [r \in Rng(Rec.refs) |-> ""]
  /\ UNCHANGED <<pre, post, viol, nonconf>>

\* a setup operation (it returned before the crash): advance the model
EvSetup ==
  /\ Rec.e = "op"
  /\ LET x == Expect(Rec) IN
     /\ content' = x.content /\ tags' = x.tags /\ indexed' = x.indexed /\ stray' = x.stray
     /\ tagann' = AnnAfter(tagann, Rec, x.res)
     /\ V({<<"SetupResult", x.res = "ok">>})
  /\ UNCHANGED <<g, pre, post, nonconf>>

\* the victim: L2 comparison of the recorded system calls with the model's steps
Count(s, x) == Cardinality({i \in 1..Len(s) : s[i] = x})
SameBag(a, b) == Len(a) = Len(b) /\ \A x \in Rng(a) \cup Rng(b) : Count(a, x) = Count(b, x)
Kinds(ss) == [i \in 1..Len(ss) |-> <<ss[i].k, IF "n" \in DOMAIN ss[i] THEN ss[i].n ELSE 0>>]
EvVictim ==
  /\ Rec.e = "victim"
  /\ LET x == Expect(Rec)
         want == IF x.res = "ok" THEN Kinds(StepsOf(Rec, x)) ELSE <<>>
         got == [i \in 1..Len(Rec.steps) |-> <<Rec.steps[i][1], Rec.steps[i][2]>>]
     IN /\ pre' = [ann |-> tagann] @@ Cur /\ post' = [ann |-> AnnAfter(tagann, Rec, x.res)] @@ Snap(x.content, x.tags, x.indexed)
        \* the order in which cascaded nodes are removed is not part of the model: compare as bags, and the first step
        /\ nonconf' = IF SameBag(want, got) /\ (want = <<>> \/ got = <<>> \/ want[1] = got[1]) THEN nonconf ELSE nonconf \cup {[t |-> Rec.t, i |-> Rec.i, inv |-> "StepsDiffer"]}
        /\ V({<<"VictimResult", Rec.res = x.res>>})
  /\ UNCHANGED <<g, content, tags, indexed, stray, tagann>>

\* the process was killed before its k-th system call; r = what was found afterwards
EvCrash ==
  /\ Rec.e = "crash"
  /\ LET r == Rec.found
         both == pre.content \cap post.content
         either == pre.content \cup post.content
     IN V({<<"CanReopen", r.openok /\ r.indexok>>,
           <<"BlobFilesComplete", r.badblobs = 0>>,
           <<"EntriesNameExistingBlobs", r.entriesmissing = 0>>,
           <<"TagMapBeforeOrAfter", r.openok => TriplesOf(r.tags) \in {TagTriples(pre.tags, pre.ann), TagTriples(post.tags, post.ann)}>>,
           <<"ReturnedEffectsPresent", r.openok => (both \subseteq Rng(r.exists) /\ both \subseteq Rng(r.fetchok))>>,
           <<"NothingInvented", Rng(r.blobs) \subseteq either>>,
           <<"CompletedRunIsAfter", Rec.k = 0 => (r.openok /\ TriplesOf(r.tags) = TagTriples(post.tags, post.ann)
                                                   /\ Rng(r.exists) = post.content)>>})
  /\ UNCHANGED <<g, content, tags, indexed, stray, tagann, pre, post, nonconf>>

Step ==
  /\ l <= Len(Trace)
  /\ l' = l + 1
  /\ done' = FALSE
  /\ \/ EvInit \/ EvSetup \/ EvVictim \/ EvCrash

Finish ==
  /\ l = Len(Trace) + 1 /\ ~done
  /\ done' = TRUE
  /\ JsonSerialize(OutFile, [consumed |-> l - 1, viol |-> viol, nonconf |-> nonconf])
  /\ UNCHANGED <<l, g, content, tags, indexed, stray, tagann, pre, post, viol, nonconf>>

Next == Step \/ Finish
Spec == Init /\ [][Next]_vars
Consumed == TLCGet("stats").diameter = Len(Trace) + 2
=============================================================================
