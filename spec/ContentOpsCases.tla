-------------------------- MODULE ContentOpsCases --------------------------
(* Direction A: emits the case space of ContentOps.tla for the Go driver. *)
EXTENDS ContentOps, Json, SequencesExt
CONSTANT OutFile
ASSUME JsonSerialize(OutFile, SetToSeq(CaseSpace))
=============================================================================
