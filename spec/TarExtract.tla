---------------------------- MODULE TarExtract ----------------------------
(***************************************************************************)
(* C11 (L1): a POSIX-like tree with symbolic and hard links, Go's lexical  *)
(* path functions (filepath.Clean / Join / Rel / Dir on segment lists) and *)
(* the extraction algorithm of content/file/utils.go                       *)
(* (extractTarDirectory, resolveRelToBase with its parent-symlink Lstat    *)
(* walk, ensureLinkPath, writeFile, MkdirAll, os.Link, os.Symlink with     *)
(* remove-and-retry).  Paths are sequences of names below a sandbox root:  *)
(*   <<"w">>      the store's working directory                            *)
(*   <<"w","d">>  the directory being unpacked (blob title "d")            *)
(*   <<"v">>      a file outside           <<"c">>  the process's cwd      *)
(*   <<"c","v">>  a file in the process's cwd                              *)
(* Every state is an archive prefix (hist); TLC explores all archives up   *)
(* to Depth entries over the name / link-target universe, one path per     *)
(* distinct tree (VIEW), and the dump of reachable states is replayed into *)
(* the real file store.                                                    *)
(*   FixHardLink  os.Link's old path is resolved inside the base directory *)
(*   FixNoFollow  writeFile replaces a symlink instead of writing through  *)
(* Both TRUE model the repaired tree; FALSE reproduces the escapes F8, F7. *)
(***************************************************************************)
EXTENDS PathLex

CONSTANTS Depth, FixHardLink, FixNoFollow,
          FixNamed, \* resolveWritePath resolves symbolic links before the containment check (repaired)
          Named   \* named-blob pushes (title annotations) are part of the explored sequences

\* ---------- paths: sequences of names; rel/abs tracked by a flag ----------
Root == <<>>
W    == <<"w">>
Base == <<"w", "d">>          \* dirPath = workingDir/"d" ; dirName = "d"
Cwd  == <<"c">>

Slots == { <<>>, <<"w">>, <<"w","d">>, <<"w","d","a">>, <<"w","d","b">>, <<"w","d","e">>,
           <<"w","d","a","x">>, <<"w","v">>, <<"w","x">>, <<"v">>, <<"x">>, <<"c">>, <<"c","v">>, <<"c","x">> }

None == [t |-> "none", ino |-> 0, tgt |-> <<>>, tabs |-> FALSE]
Dir  == [t |-> "dir",  ino |-> 0, tgt |-> <<>>, tabs |-> FALSE]
File(i) == [t |-> "file", ino |-> i, tgt |-> <<>>, tabs |-> FALSE]
Sym(tg, ab) == [t |-> "sym", ino |-> 0, tgt |-> tg, tabs |-> ab]

VARIABLES fs,       \* [Slots -> node]
          data,     \* [inode -> "orig" | "new"]   inode 1 = /v, inode 2 = /c/v, 3.. created
          nextIno,
          failed,   \* extraction hit an error (Push returns error; no further entries)
          unknownEscape,
          risk,     \* symbolic links (slots) whose real resolution is not below the working directory
          hist      \* the archive so far: sequence of [k, name, nabs, tg, tabs]
vars == <<fs, data, nextIno, failed, unknownEscape, risk, hist>>
view == <<fs, data, nextIno, failed, unknownEscape>>
\* a rejected entry leaves the tree unchanged: viewr keeps one state per (tree, rejected entry), not one per tree
viewr == <<fs, data, nextIno, failed, unknownEscape, IF failed THEN hist[Len(hist)] ELSE <<>> >>

Inside(p) == Len(p) >= 1 /\ p[1] = "w"

\* ---------- real resolution ----------
\* Walk from existing directory cur over segs. Result: [st, p] with st in
\*  "obj" (existing object at canonical p), "new" (parent exists, final name absent, p = full path), "err"
RECURSIVE Walk(_, _, _, _, _)
Walk(f, cur, segs, followFinal, fuel) ==
  IF fuel = 0 THEN [st |-> "err", p |-> <<>>]
  ELSE IF segs = <<>> THEN [st |-> "obj", p |-> cur]
  ELSE LET h == Head(segs) t == Tail(segs) IN
    IF h = "." THEN Walk(f, cur, t, followFinal, fuel)
    ELSE IF h = ".." THEN Walk(f, IF cur = <<>> THEN cur ELSE SubSeq(cur, 1, Len(cur) - 1), t, followFinal, fuel)
    ELSE LET q == Append(cur, h) IN
      IF q \notin Slots \/ f[q].t = "none"
      THEN IF t = <<>> THEN [st |-> "new", p |-> q] ELSE [st |-> "err", p |-> <<>>]
      ELSE IF f[q].t = "dir" THEN Walk(f, q, t, followFinal, fuel)
      ELSE IF f[q].t = "file" THEN IF t = <<>> THEN [st |-> "obj", p |-> q] ELSE [st |-> "err", p |-> <<>>]
      ELSE \* symlink
        IF t = <<>> /\ ~followFinal THEN [st |-> "obj", p |-> q]
        ELSE Walk(f, IF f[q].tabs THEN <<>> ELSE cur, f[q].tgt \o t, followFinal, fuel - 1)
Resolve(f, from, segs, abs, followFinal) == Walk(f, IF abs THEN <<>> ELSE from, segs, followFinal, 8)

\* ---------- the algorithm of content/file/utils.go ----------
\* resolveRelToBase(baseAbs=Base, baseRel=<<"d">>, target)
ResolveRelToBase(f, targ, tabs) ==
  LET base == IF tabs THEN Base ELSE <<"d">>
      r == Rel(base, Clean(targ, tabs)) IN
  IF ~r.ok THEN [ok |-> FALSE, p |-> <<>>]
  ELSE LET path == r.p
           cp == Clean(path, FALSE) IN
       IF cp # <<>> /\ cp[1] = ".." THEN [ok |-> FALSE, p |-> <<>>]
       ELSE \* no symlink allowed among the parent directories of path (Lstat = resolve without following final)
         LET Parents == { SubSeq(path, 1, k) : k \in 1..(Len(path) - 1) }
             IsSymParent(d) == LET w == Resolve(f, <<>>, Clean(Base \o d, TRUE), TRUE, FALSE) IN
                                 w.st = "obj" /\ w.p \in Slots /\ f[w.p].t = "sym"
         IN IF \E d \in Parents : IsSymParent(d) THEN [ok |-> FALSE, p |-> <<>>]
            ELSE [ok |-> TRUE, p |-> path]

Fail == failed' = TRUE /\ UNCHANGED <<fs, data, nextIno, unknownEscape>>

\* create or truncate a regular file through real resolution (O_CREAT|O_TRUNC follows final symlinks)
\* with FixNoFollow a symbolic link at the path itself is removed first, so the final component is not followed
WriteFileGen(filePath, nofollow) ==
  LET lw == Resolve(fs, <<>>, filePath, TRUE, FALSE)
      isSym == lw.st = "obj" /\ lw.p \in Slots /\ fs[lw.p].t = "sym"
      w == IF nofollow /\ isSym THEN [st |-> "new", p |-> lw.p] ELSE Resolve(fs, <<>>, filePath, TRUE, TRUE) IN
  IF w.st = "err" THEN Fail
  ELSE IF w.st = "obj"
       THEN IF fs[w.p].t = "file"
            THEN /\ data' = [data EXCEPT ![fs[w.p].ino] = "new"]
                 /\ UNCHANGED <<fs, nextIno, failed, unknownEscape>>
            ELSE Fail                                   \* EISDIR
       ELSE IF w.p \in Slots
            THEN /\ fs' = [fs EXCEPT ![w.p] = File(nextIno)]
                 /\ data' = [data EXCEPT ![nextIno] = "new"]
                 /\ nextIno' = nextIno + 1
                 /\ UNCHANGED <<failed, unknownEscape>>
            ELSE /\ unknownEscape' = (unknownEscape \/ ~Inside(w.p))
                 /\ UNCHANGED <<fs, data, nextIno, failed>>

WriteFile(filePath) == WriteFileGen(filePath, FixNoFollow)

\* a named blob (title annotation): resolveWritePath is a lexical check against the working directory, then
\* pushFile = ensureDir(Dir(target)) + os.Create(target), both of which follow symbolic links
Titles == { <<<<"d","e">>, FALSE>>, <<<<"d","a","x">>, FALSE>>, <<<<"x">>, FALSE>>, <<<<"..","v">>, FALSE>>,
            <<<<"d","..","..","v">>, FALSE>>, <<<<"v">>, TRUE>>, <<<<"w","x">>, TRUE>>, <<<<"d","b","..","v">>, FALSE>>,
            <<<<"d","e","v">>, FALSE>> }
\* repaired resolveWritePath: the symbolic links of the existing part of the path are resolved and the result must
\* still be inside the working directory (a dangling link cannot be resolved and is refused as well)
NamedEscapes(target) ==
  LET r == Resolve(fs, <<>>, target, TRUE, TRUE)
      lw == Resolve(fs, <<>>, target, TRUE, FALSE)
      dangling == lw.st = "obj" /\ lw.p \in Slots /\ fs[lw.p].t = "sym" /\ r.st # "obj"
  IN r.st = "err" \/ dangling \/ ~Inside(r.p)
EntryNamed(title, tabs) ==
  LET target == IF tabs THEN Clean(title, TRUE) ELSE Clean(W \o title, TRUE)
      r == Rel(W, target) IN
  IF ~r.ok \/ (r.p # <<>> /\ r.p[1] = "..") THEN Fail
  ELSE IF FixNamed /\ NamedEscapes(target) THEN Fail
  ELSE LET dirw == Resolve(fs, <<>>, DirOf(target), TRUE, TRUE) IN     \* MkdirAll of the parent
       IF dirw.st # "obj" \/ fs[dirw.p].t # "dir" THEN Fail            \* (parents that do not exist are not created here)
       ELSE WriteFileGen(target, FALSE)

EntryReg(name, nabs) ==
  LET r == ResolveRelToBase(fs, name, nabs) IN
  IF ~r.ok THEN Fail ELSE WriteFile(Clean(Base \o r.p, TRUE))

EntryDir(name, nabs) ==
  LET r == ResolveRelToBase(fs, name, nabs) IN
  IF ~r.ok THEN Fail
  ELSE LET fp == Clean(Base \o r.p, TRUE)
           w == Resolve(fs, <<>>, fp, TRUE, TRUE) IN          \* MkdirAll: Stat first
       IF w.st = "obj" THEN (IF fs[w.p].t = "dir" THEN UNCHANGED <<fs, data, nextIno, failed, unknownEscape>> ELSE Fail)
       ELSE LET w2 == Resolve(fs, <<>>, fp, TRUE, FALSE) IN    \* mkdir: final not followed
            IF w2.st = "new" /\ w2.p \in Slots
            THEN fs' = [fs EXCEPT ![w2.p] = Dir] /\ UNCHANGED <<data, nextIno, failed, unknownEscape>>
            ELSE Fail

\* ensureLinkPath(baseAbs, baseRel, link=filePath, target)
LinkOK(fp, tg, tabs) ==
  LET path == IF tabs THEN tg ELSE Clean(DirOf(fp) \o tg, TRUE) IN
  ResolveRelToBase(fs, path, TRUE).ok

EntrySym(name, nabs, tg, tabs) ==
  LET r == ResolveRelToBase(fs, name, nabs) IN
  IF ~r.ok THEN Fail
  ELSE LET fp == Clean(Base \o r.p, TRUE) IN
       IF ~LinkOK(fp, tg, tabs) THEN Fail
       ELSE LET w == Resolve(fs, <<>>, fp, TRUE, FALSE) IN
            IF w.st = "err" THEN Fail
            ELSE IF w.st = "new"
                 THEN IF w.p \in Slots THEN fs' = [fs EXCEPT ![w.p] = Sym(tg, tabs)] /\ UNCHANGED <<data, nextIno, failed, unknownEscape>>
                      ELSE Fail
                 ELSE \* exists: os.Remove then retry (rmdir only if empty; approximate: dirs are not removed)
                      IF fs[w.p].t = "dir" THEN Fail
                      ELSE fs' = [fs EXCEPT ![w.p] = Sym(tg, tabs)] /\ UNCHANGED <<data, nextIno, failed, unknownEscape>>

EntryHard(name, nabs, tg, tabs) ==
  LET r == ResolveRelToBase(fs, name, nabs) IN
  IF ~r.ok THEN Fail
  ELSE LET fp == Clean(Base \o r.p, TRUE) IN
       IF ~FixHardLink /\ ~LinkOK(fp, tg, tabs) THEN Fail
       ELSE LET tr == ResolveRelToBase(fs, tg, tabs)             \* repaired: the link name is an entry name
                old == IF FixHardLink
                       THEN (IF tr.ok THEN Resolve(fs, <<>>, Clean(Base \o tr.p, TRUE), TRUE, FALSE) ELSE [st |-> "err", p |-> <<>>])
                       ELSE Resolve(fs, Cwd, tg, tabs, FALSE)     \* link(2): oldpath relative to the PROCESS cwd
                new == Resolve(fs, <<>>, fp, TRUE, FALSE) IN
            IF old.st # "obj" \/ fs[old.p].t # "file" \/ new.st # "new" \/ new.p \notin Slots THEN Fail
            ELSE fs' = [fs EXCEPT ![new.p] = File(fs[old.p].ino)] /\ UNCHANGED <<data, nextIno, failed, unknownEscape>>

Names == { <<<<"d","a">>, FALSE>>, <<<<"d","b">>, FALSE>>, <<<<"d","e">>, FALSE>>, <<<<"d","a","x">>, FALSE>>,
           <<<<"d","..","x">>, FALSE>>, <<<<"w","d","a">>, TRUE>>, <<<<"v">>, TRUE>>,
           <<<<"d","e","x","y">>, FALSE>> }      \* two missing levels below a possible link
Targets == { <<<<".">>, FALSE>>, <<<<"..">>, FALSE>>, <<<<"a">>, FALSE>>, <<<<"b">>, FALSE>>, <<<<"v">>, FALSE>>,
             <<<<"a","..">>, FALSE>>, <<<<"b","..">>, FALSE>>, <<<<"a","..","v">>, FALSE>>, <<<<"b","..","v">>, FALSE>>,
             <<<<"b","..","..","v">>, FALSE>>, <<<<"..","v">>, FALSE>>, <<<<"..","..","v">>, FALSE>>, <<<<"v">>, TRUE>>,
             <<<<"w","d","a">>, TRUE>> }

Init ==
  /\ fs = [p \in Slots |-> CASE p = <<>> -> Dir [] p = <<"w">> -> Dir [] p = <<"w","d">> -> Dir
                             [] p = <<"c">> -> Dir [] p = <<"v">> -> File(1) [] p = <<"c","v">> -> File(2)
                             [] OTHER -> None]
  /\ data = [i \in 1..8 |-> "orig"]
  /\ nextIno = 3
  /\ failed = FALSE
  /\ unknownEscape = FALSE
  /\ hist = <<>>
  /\ risk = {}

E(k, nm, tg) == [k |-> k, name |-> nm[1], nabs |-> nm[2], tg |-> tg[1], tabs |-> tg[2]]
NoTg == <<<<>>, FALSE>>
\* <<link, how it resolves, where to>> for every link that does not resolve below the working directory
RiskyLinks(f) == {<<p, Resolve(f, <<>>, p, TRUE, TRUE).st, Resolve(f, <<>>, p, TRUE, TRUE).p>> :
                    p \in {q \in Slots : f[q].t = "sym" /\ LET w == Resolve(f, <<>>, q, TRUE, TRUE) IN w.st = "err" \/ ~Inside(w.p)}}
Next == /\ ~failed /\ nextIno < 8 /\ Len(hist) < Depth
        /\ \E nm \in Names \cup (IF Named THEN Titles ELSE {}) :
             \/ (nm \in Names /\ EntryReg(nm[1], nm[2]) /\ hist' = Append(hist, E("reg", nm, NoTg)))
             \/ (nm \in Names /\ EntryDir(nm[1], nm[2]) /\ hist' = Append(hist, E("dir", nm, NoTg)))
             \/ (nm \in Titles /\ Named /\ EntryNamed(nm[1], nm[2]) /\ hist' = Append(hist, E("named", nm, NoTg)))
             \* a manifest that lists the bytes of the existing file w/x under another title: the store restores the
             \* duplicate under that title, which must pass the same checks as a named push
             \/ (nm \in Titles /\ Named /\ fs[<<"w","x">>].t = "file" /\ EntryNamed(nm[1], nm[2])
                   /\ hist' = Append(hist, E("restore", nm, NoTg)))
             \/ \E tg \in Targets :
                  /\ nm \in Names
                  /\ \/ (EntrySym(nm[1], nm[2], tg[1], tg[2]) /\ hist' = Append(hist, E("sym", nm, tg)))
                     \/ (EntryHard(nm[1], nm[2], tg[1], tg[2]) /\ hist' = Append(hist, E("hard", nm, tg)))
        /\ risk' = RiskyLinks(fs')
Spec == Init /\ [][Next]_vars

OutsideUnchanged ==
  /\ ~unknownEscape
  /\ \A p \in Slots : ~Inside(p) =>
       /\ fs[p].t = (CASE p = <<>> -> "dir" [] p = <<"c">> -> "dir" [] p = <<"v">> -> "file" [] p = <<"c","v">> -> "file" [] OTHER -> "none")
  /\ data[1] = "orig" /\ data[2] = "orig"
=============================================================================
