CONSTANTS
  TraceFile = "trace.ndjson"
  OutFile = "viol.json"
SPECIFICATION Spec
POSTCONDITION Consumed
CHECK_DEADLOCK FALSE
