----------------------------- MODULE RetryJudge -----------------------------
(***************************************************************************)
(* C17 judge.  "case" records: what the real retry.Transport did for one   *)
(* case of Retry.tla under the virtual clock (every attempt the server saw *)
(* with its time and body, the result, the cancellation time).  L3: the    *)
(* property's clauses on the record.  L2: attempts and outcome equal       *)
(* Run(case) of Retry.tla.  "stack" records: the auth client over the      *)
(* retrying transport.  "policy" records: GenericPolicy / backoff directly. *)
(***************************************************************************)
EXTENDS RetryModel, Json

CONSTANTS TraceFile, OutFile
Trace == ndJsonDeserialize(TraceFile)
VARIABLES l, viol, nonconf, done
jvars == <<l, viol, nonconf, done>>
Rec == Trace[l]

Clamp(x, lo, hi) == IF x < lo THEN lo ELSE IF x > hi THEN hi ELSE x

CaseChecks(r) ==
  LET cs == r.c  at == r.attempts  n == Len(at) IN
  {<<"BodyComplete", \A k \in 1..n : IF cs.body = "none" THEN at[k].bodylen = 0 ELSE at[k].bodyok>>,
   <<"Bounded", n <= cs.maxretry + 1>>,
   <<"OneShotNeverResent", cs.body = "oneshot" => n <= 1>>,
   <<"PausesWithinBounds", \A k \in 1..(n - 1) : (at[k + 1].t - at[k].t) >= r.minwait /\ (at[k + 1].t - at[k].t) <= r.maxwait>>,
   <<"RetryAfterHonoured", \A k \in 1..(n - 1) : AnswerAt(cs, k) = "tmra" =>
                              (at[k + 1].t - at[k].t) = Clamp(r.retryafter * 1000, r.minwait, r.maxwait)>>,
   <<"NonRetryableAtOnce", \A k \in 1..(n - 1) : Retryable(AnswerAt(cs, k))>>,
   <<"ResultIsLastAnswer", r.outcome # "ctx" => r.outcome = AnswerAt(cs, n)>>,
   <<"CancelStops", r.cancelled => (r.outcome = "ctx" /\ \A k \in 1..n : at[k].t <= r.cancelt /\ r.rett = r.cancelt)>>,
   <<"NoSpuriousCtx", r.outcome = "ctx" => r.cancelled>>}

StackChecks(r) ==
  LET at == r.attempts  n == Len(at) IN
  {<<"BodyComplete", \A k \in 1..n : at[k].dest = "registry" => (IF r.body = "none" THEN at[k].bodylen = 0 ELSE at[k].bodyok)>>,
   <<"OneShotNeverResent", r.body \in {"oneshot", "oneshotstream"} => Cardinality({k \in 1..n : at[k].dest = "registry"}) <= 1>>,
   <<"Bounded", \A s \in 1..r.sends : Cardinality({k \in 1..n : at[k].send = s}) <= r.maxretry + 1>>,
   <<"StackOutcome", r.body \notin {"oneshot", "oneshotstream"} => r.status = r.want>>}

PolicyChecks(r) ==
  {<<"PolicyNoPanic", ~r.panic>>,
   <<"PolicyWithinBounds", ~r.panic => (r.pause = -1 \/ (r.pause >= r.minwait /\ r.pause <= r.maxwait))>>,
   <<"PolicyBounded", (~r.panic /\ r.attempt >= r.maxretry) => r.pause = -1>>,
   <<"PolicyRetryAfter", (~r.panic /\ r.pause # -1 /\ r.status = 429 /\ r.retryafter > 0) =>
                            r.pause = Clamp(r.retryafter * 1000, r.minwait, r.maxwait)>>}

Checks(r) == CASE r.kind = "case" -> CaseChecks(r) [] r.kind = "stack" -> StackChecks(r) [] r.kind = "policy" -> PolicyChecks(r)
Conforms(r) == r.kind # "case" \/ (Run(r.c).sent = Len(r.attempts) /\ Run(r.c).outcome = r.outcome)

JInit == l = 1 /\ viol = {} /\ nonconf = {} /\ done = FALSE
Step ==
  /\ l <= Len(Trace)
  /\ l' = l + 1
  /\ done' = FALSE
  /\ viol' = viol \cup {[t |-> Rec.t, i |-> Rec.i, inv |-> k[1]] : k \in {k \in Checks(Rec) : ~k[2]}}
  /\ nonconf' = IF Conforms(Rec) THEN nonconf ELSE nonconf \cup {[t |-> Rec.t, i |-> Rec.i, inv |-> "L2"]}
Finish ==
  /\ l = Len(Trace) + 1 /\ ~done
  /\ done' = TRUE
  /\ JsonSerialize(OutFile, [consumed |-> l - 1, viol |-> viol, nonconf |-> nonconf])
  /\ UNCHANGED <<l, viol, nonconf>>
JNext == Step \/ Finish
JSpec == JInit /\ [][JNext]_jvars
Consumed == TLCGet("stats").diameter = Len(Trace) + 2
=============================================================================
