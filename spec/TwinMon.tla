------------------------------ MODULE TwinMon ------------------------------
(***************************************************************************)
(* C01 / C02 for CONCURRENT copies: two oras.Copy calls of one root into    *)
(* one destination under two references (harness/copyfam/twin_test.go),     *)
(* their storage operations interleaved by the gate scheduler.  A call may  *)
(* find a node pushed by the other one in the meantime (AlreadyExists).     *)
(*  TwinClosedAtPush     after every push the destination is link-closed    *)
(*  TwinNoSpuriousError  no fault is injected: both calls succeed           *)
(*  TwinSuccessComplete  a successful call leaves the whole graph, byte-    *)
(*                       identical                                          *)
(*  TwinRootTagged       ... and its own reference resolving to the root    *)
(*                       it returned                                        *)
(***************************************************************************)
EXTENDS Integers, Sequences, FiniteSets, TLC, Json

CONSTANTS TraceFile, OutFile
Trace == ndJsonDeserialize(TraceFile)
VARIABLES l, g, rets, cbs, viol, done
vars == <<l, g, rets, cbs, viol, done>>
Rec == Trace[l]
Rng(s) == {s[i] : i \in 1..Len(s)}
V(checks) == viol' = viol \cup {[t |-> Rec.t, i |-> Rec.i, inv |-> c[1]] : c \in {c \in checks : ~c[2]}}

Succ(n) == Rng(g.succ[n])
Closed(S) == \A n \in S : Succ(n) \subseteq S
RECURSIVE ReachFrom(_, _)
ReachFrom(S, seen) == IF S \subseteq seen THEN seen ELSE ReachFrom(UNION {Succ(n) : n \in S}, seen \cup S)
Want == ReachFrom({g.root}, {})

Init == l = 1 /\ g = [n |-> 0] /\ rets = {} /\ cbs = {} /\ viol = {} /\ done = FALSE
EvInit == Rec.e = "init" /\ g' = Rec /\ rets' = {} /\ cbs' = {} /\ UNCHANGED viol
\* callbacks of each call (C04): every node a call announced with PreCopy gets that call's PostCopy, also when the other
\* call's push of the same node won the race
EvCb == Rec.e = "cb" /\ cbs' = cbs \cup {<<Rec.call, Rec.n, Rec.k>>} /\ UNCHANGED <<g, rets, viol>>
EvPush ==
  /\ Rec.e = "pushE"
  /\ V({<<"TwinClosedAtPush", Closed(Rng(Rec.has))>>,
        <<"TwinPushAfterSucc", (Rec.n # 0 /\ Rec.n \in Rng(Rec.has)) => Succ(Rec.n) \subseteq Rng(Rec.has)>>})
  /\ UNCHANGED <<g, rets, cbs>>
EvRet ==
  /\ Rec.e = "ret"
  /\ rets' = rets \cup {Rec}
  /\ V({<<"TwinNoSpuriousError", ~Rec.err>>,
        <<"TwinReturnedRoot", ~Rec.err => Rec.root = g.root>>,
        <<"TwinPreThenPost", ~Rec.err => \A c \in cbs : (c[1] = Rec.call /\ c[3] = "pre") => <<c[1], c[2], "post">> \in cbs>>,
        <<"TwinSkippedAlone", \A c \in cbs : (c[1] = Rec.call /\ c[3] = "skipped") => <<c[1], c[2], "pre">> \notin cbs>>})
  /\ UNCHANGED <<g, cbs>>
EvFinal ==
  /\ Rec.e = "final"
  /\ LET has == Rng(Rec.has)  good == Rng(Rec.bytesok)
         TagOf(r) == IF \E i \in 1..Len(Rec.tags) : Rec.tags[i][1] = r
                     THEN (CHOOSE x \in Rng(Rec.tags) : x[1] = r)[2] ELSE 0
     IN V({<<"TwinBothReturned", Cardinality({r.call : r \in rets}) = 2>>,
           <<"TwinClosedFinal", Closed(has)>>,
           <<"TwinSuccessComplete", \A r \in rets : ~r.err => (Want \subseteq has /\ Want \subseteq good)>>,
           <<"TwinEdgesResolvable", \A r \in rets : ~r.err => \A i \in 1..Len(Rec.dangling) : Rec.dangling[i][1] \notin Want>>,
           <<"TwinRootTagged", \A r \in rets : ~r.err => TagOf(g.refs[r.call]) = g.root>>})
  /\ UNCHANGED <<g, rets, cbs>>
EvHang == Rec.e = "hang" /\ V({<<"TwinNoHang", FALSE>>}) /\ UNCHANGED <<g, rets, cbs>>
EvOther == Rec.e \notin {"init", "pushE", "ret", "final", "hang", "cb"} /\ UNCHANGED <<g, rets, cbs, viol>>

Step ==
  /\ l <= Len(Trace)
  /\ l' = l + 1
  /\ done' = FALSE
  /\ \/ EvInit \/ EvPush \/ EvRet \/ EvFinal \/ EvHang \/ EvCb \/ EvOther
Finish ==
  /\ l = Len(Trace) + 1 /\ ~done
  /\ done' = TRUE
  /\ JsonSerialize(OutFile, [consumed |-> l - 1, viol |-> viol])
  /\ UNCHANGED <<l, g, rets, cbs, viol>>
Next == Step \/ Finish
Spec == Init /\ [][Next]_vars
Consumed == TLCGet("stats").diameter = Len(Trace) + 2
=============================================================================
