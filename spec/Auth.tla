--------------------------------- MODULE Auth ---------------------------------
(***************************************************************************)
(* C16 (L1): the flow of auth.Client.Do for Bearer registries with the     *)
(* scope-keyed shared cache and the Once-coalesced token fetch             *)
(* (registry/remote/auth/client.go:173-279, cache.go Set), for NReq        *)
(* concurrent requests to two registries.                                  *)
(*   a request r goes to host[r] with canonical scope key key[r]           *)
(*   Start    cache lookup (scheme + token for <<host, key>>), first send  *)
(*   Resp1    200 when a valid token was attached, else 401 + challenge    *)
(*   Chal     the cache is looked at again, then cache.Set: the first      *)
(*            caller of Once.Do fetches, the others wait                   *)
(*   Fetch    one request to the token endpoint of the advertised realm,   *)
(*            carrying the host's password; the token is cached            *)
(*   Wait     a waiter receives the fetcher's result                       *)
(*   Send2    the request is sent again with the token                     *)
(* Every message is logged with its destination and the secrets in it.     *)
(***************************************************************************)
EXTENDS Integers, Sequences, FiniteSets, TLC

CONSTANT NReq
Req == 1..NReq
Host == {"A", "B"}
Key == {1, 2}
Realms == {"own", "T", "other"}
Other(h) == IF h = "A" THEN "B" ELSE "A"

VARIABLES host, key, realm,        \* the scenario (chosen in Init)
          pc, attached, nsend, nfetch,
          cached,                  \* set of <<host, key>> with a cached token
          inflight,                \* [<<host, key>> -> request that is fetching, or 0]
          got,                     \* [request -> the token it received: <<host, key>> or <<>>]
          sent                     \* log of messages [dest, kind, secrets]
vars == <<host, key, realm, pc, attached, nsend, nfetch, cached, inflight, got, sent>>

RealmHost(h) == CASE realm[h] = "own" -> h [] realm[h] = "T" -> "T" [] OTHER -> Other(h)
Pass(h) == <<"pass", h>>
Tok(h, k) == <<"tok", h, k>>

Init ==
  /\ host \in [Req -> Host] /\ key \in [Req -> Key] /\ realm \in [Host -> Realms]
  /\ pc = [r \in Req |-> "start"] /\ attached = [r \in Req |-> <<>>]
  /\ nsend = [r \in Req |-> 0] /\ nfetch = [r \in Req |-> 0]
  /\ cached = {} /\ inflight = [hk \in Host \X Key |-> 0] /\ got = [r \in Req |-> <<>>] /\ sent = {}

SendRegistry(r, tok) ==
  /\ sent' = sent \cup {[dest |-> host[r], kind |-> "registry", secrets |-> IF tok = <<>> THEN {} ELSE {Tok(tok[1], tok[2])}]}
  /\ nsend' = [nsend EXCEPT ![r] = @ + 1]
  /\ attached' = [attached EXCEPT ![r] = tok]

Start(r) ==
  /\ pc[r] = "start"
  /\ SendRegistry(r, IF <<host[r], key[r]>> \in cached THEN <<host[r], key[r]>> ELSE <<>>)
  /\ pc' = [pc EXCEPT ![r] = "sent1"]
  /\ UNCHANGED <<host, key, realm, nfetch, cached, inflight, got>>

Valid(r) == attached[r] = <<host[r], key[r]>>

Resp1(r) ==
  /\ pc[r] = "sent1"
  /\ pc' = [pc EXCEPT ![r] = IF Valid(r) THEN "done" ELSE "chal"]
  /\ UNCHANGED <<host, key, realm, attached, nsend, nfetch, cached, inflight, got, sent>>

Chal(r) ==
  /\ pc[r] = "chal"
  /\ LET hk == <<host[r], key[r]>> IN
     IF hk \in cached /\ attached[r] = <<>>             \* the cache is attempted again (scope change / filled meanwhile)
     THEN /\ SendRegistry(r, hk) /\ pc' = [pc EXCEPT ![r] = "sent2"] /\ UNCHANGED <<nfetch, cached, inflight, got>>
     ELSE IF inflight[hk] = 0
     THEN /\ inflight' = [inflight EXCEPT ![hk] = r] /\ pc' = [pc EXCEPT ![r] = "fetch"]
          /\ UNCHANGED <<attached, nsend, nfetch, cached, got, sent>>
     ELSE /\ pc' = [pc EXCEPT ![r] = "wait"] /\ UNCHANGED <<attached, nsend, nfetch, cached, inflight, got, sent>>
  /\ UNCHANGED <<host, key, realm>>

Fetch(r) ==
  /\ pc[r] = "fetch"
  /\ LET hk == <<host[r], key[r]>> IN
     /\ sent' = sent \cup {[dest |-> RealmHost(host[r]), kind |-> "token", secrets |-> {Pass(host[r])}]}
     /\ nfetch' = [nfetch EXCEPT ![r] = @ + 1]
     /\ cached' = cached \cup {hk}
     /\ inflight' = [inflight EXCEPT ![hk] = 0]
     /\ got' = [q \in Req |-> IF q = r \/ (pc[q] = "wait" /\ <<host[q], key[q]>> = hk) THEN hk ELSE got[q]]
     /\ pc' = [q \in Req |-> IF q = r \/ (pc[q] = "wait" /\ <<host[q], key[q]>> = hk) THEN "resend" ELSE pc[q]]
  /\ UNCHANGED <<host, key, realm, attached, nsend>>

Send2(r) ==
  /\ pc[r] = "resend"
  /\ SendRegistry(r, got[r])
  /\ pc' = [pc EXCEPT ![r] = "sent2"]
  /\ UNCHANGED <<host, key, realm, nfetch, cached, inflight, got>>

Resp2(r) ==
  /\ pc[r] = "sent2"
  /\ pc' = [pc EXCEPT ![r] = IF Valid(r) THEN "done" ELSE "failed"]
  /\ UNCHANGED <<host, key, realm, attached, nsend, nfetch, cached, inflight, got, sent>>

Next == (\E r \in Req : Start(r) \/ Resp1(r) \/ Chal(r) \/ Fetch(r) \/ Send2(r) \/ Resp2(r))
        \/ ((\A r \in Req : pc[r] \in {"done", "failed"}) /\ UNCHANGED vars)
Spec == Init /\ [][Next]_vars

NoLeak == \A m \in sent : \A s \in m.secrets :
            IF s[1] = "pass" THEN m.kind = "token" /\ m.dest = RealmHost(s[2]) ELSE m.dest = s[2] /\ m.kind = "registry"
TokensForOwnHost == \A r \in Req : attached[r] # <<>> => attached[r][1] = host[r]
ReuseKey == \A r \in Req : attached[r] # <<>> => attached[r] = <<host[r], key[r]>>
Bounded == \A r \in Req : nsend[r] <= 3 /\ nfetch[r] <= 1
NeverFails == \A r \in Req : pc[r] # "failed"
\* at most one fetch per <<host, key>> while nobody has been served from the cache yet (coalescing)
OneFetchPerKey == \A hk \in Host \X Key : Cardinality({r \in Req : <<host[r], key[r]>> = hk /\ nfetch[r] > 0}) <= 1
=============================================================================
