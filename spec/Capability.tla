----------------------------- MODULE Capability -----------------------------
(***************************************************************************)
(* C14, last clause (L1): a Repository's detected Referrers-API capability  *)
(* never flips.  `cap` is Repository.referrersState (unknown / supported /  *)
(* not supported).  It is read and set by                                   *)
(*   SetReferrersCapability   compare-and-swap from unknown                 *)
(*   Referrers()              load; API request; set from the answer        *)
(*   Push (manifest with a subject)  load; push; OCI-Subject header sets    *)
(*                            supported; load; else set unsupported + index *)
(*   Delete (a referrer)      load; fetch; pingReferrers under its lock     *)
(* each step of which is one action below, so TLC interleaves them freely;  *)
(* the registry's own answer (`truth`) may change under the client (Flip).  *)
(*                                                                         *)
(* The monitor (CapabilityMon.tla) cannot read `cap`; it derives EVIDENCE   *)
(* from what each returned call did on the wire.  The same rules are        *)
(* evaluated here on the model (`ev`), and EvidenceSound shows that on      *)
(* every interleaving they agree with `cap` - that is, the monitor's rules  *)
(* raise no alarm on an implementation whose capability does not flip.      *)
(***************************************************************************)
EXTENDS Integers, FiniteSets, TLC

CONSTANTS NP, MaxFlips
Proc == 1..NP
Kinds == {"setT", "setF", "referrers", "push", "delete"}

VARIABLES cap, truth, flips, kind, pc, loc, obs, res, ev, lock
vars == <<cap, truth, flips, kind, pc, loc, obs, res, ev, lock>>

NoObs == [api |-> FALSE, api404 |-> FALSE, tag |-> FALSE, fetched |-> FALSE]

Init ==
  /\ cap = "u" /\ truth \in BOOLEAN /\ flips = 0
  /\ kind \in [Proc -> Kinds]
  /\ pc = [p \in Proc |-> "start"] /\ loc = [p \in Proc |-> "u"]
  /\ obs = [p \in Proc |-> NoObs] /\ res = [p \in Proc |-> "none"]
  /\ ev = {} /\ lock = 0

CAS(b) == IF cap = "u" THEN b ELSE cap        \* SetReferrersCapability's effect on cap

\* evidence a returned call gives about cap (the monitor's rules)
Evidence(k, o, r) ==
  CASE k = "setT" -> IF r = "ok" THEN {"s"} ELSE {"n"}
    [] k = "setF" -> IF r = "ok" THEN {"n"} ELSE {"s"}
    [] k = "referrers" -> IF ~o.api THEN {"n"}
                          ELSE IF o.api404 /\ ~o.tag /\ r = "unsupported" THEN {"s"} ELSE {}
    [] k = "push" -> {}       \* proves nothing: its index update may have been carried out by another call's batch
    [] k = "delete" -> IF r = "ok" /\ ~o.fetched THEN {"s"} ELSE {}

Done(p, r, o) ==
  /\ pc' = [pc EXCEPT ![p] = "done"] /\ res' = [res EXCEPT ![p] = r] /\ obs' = [obs EXCEPT ![p] = o]
  /\ ev' = ev \cup Evidence(kind[p], o, r)
Goto(p, l) == pc' = [pc EXCEPT ![p] = l] /\ UNCHANGED <<res, ev>>

SetCap(p) ==
  /\ pc[p] = "start" /\ kind[p] \in {"setT", "setF"}
  /\ LET b == IF kind[p] = "setT" THEN "s" ELSE "n" IN
     /\ cap' = CAS(b)
     /\ Done(p, IF cap = "u" \/ cap = b THEN "ok" ELSE "alreadyset", obs[p])
  /\ UNCHANGED <<truth, flips, kind, loc, lock>>

\* ----- Referrers()
RLoad(p) == /\ pc[p] = "start" /\ kind[p] = "referrers"
            /\ loc' = [loc EXCEPT ![p] = cap]
            /\ Goto(p, IF cap = "n" THEN "rtag" ELSE "rapi")
            /\ UNCHANGED <<cap, truth, flips, kind, obs, lock>>
RApi(p) == /\ pc[p] = "rapi"
           /\ LET o == [obs[p] EXCEPT !.api = TRUE, !.api404 = ~truth] IN
              IF loc[p] = "s"
              THEN Done(p, IF truth THEN "ok" ELSE "unsupported", o) /\ UNCHANGED cap
              ELSE /\ obs' = [obs EXCEPT ![p] = o] /\ UNCHANGED cap
                   /\ Goto(p, IF truth THEN "rsetT" ELSE "rsetF")
           /\ UNCHANGED <<truth, flips, kind, loc, lock>>
RSetT(p) == /\ pc[p] = "rsetT" /\ cap' = CAS("s") /\ Done(p, "ok", obs[p]) /\ UNCHANGED <<truth, flips, kind, loc, lock>>
RSetF(p) == /\ pc[p] = "rsetF" /\ cap' = CAS("n") /\ Goto(p, "rtag") /\ UNCHANGED <<truth, flips, kind, loc, obs, lock>>
RTag(p) == /\ pc[p] = "rtag" /\ Done(p, "ok", [obs[p] EXCEPT !.tag = TRUE]) /\ UNCHANGED <<cap, truth, flips, kind, loc, lock>>

\* ----- Push of a manifest with a subject
PLoad(p) == /\ pc[p] = "start" /\ kind[p] = "push"
            /\ loc' = [loc EXCEPT ![p] = cap]
            /\ Goto(p, IF cap = "s" THEN "ppushS" ELSE "ppush")
            /\ UNCHANGED <<cap, truth, flips, kind, obs, lock>>
PPushS(p) == /\ pc[p] = "ppushS" /\ Done(p, "ok", obs[p]) /\ UNCHANGED <<cap, truth, flips, kind, loc, lock>>
\* the push request; a registry with the Referrers API answers with OCI-Subject, which sets supported
PPush(p) == /\ pc[p] = "ppush"
            /\ Goto(p, IF truth THEN "phdr" ELSE "pload2")
            /\ UNCHANGED <<cap, truth, flips, kind, loc, obs, lock>>
PHdr(p) == /\ pc[p] = "phdr" /\ cap' = CAS("s") /\ Goto(p, "pload2") /\ UNCHANGED <<truth, flips, kind, loc, obs, lock>>
PLoad2(p) == /\ pc[p] = "pload2"
             /\ IF cap = "s" THEN Done(p, "ok", obs[p]) ELSE Goto(p, "psetF") /\ UNCHANGED obs
             /\ UNCHANGED <<cap, truth, flips, kind, loc, lock>>
PSetF(p) == /\ pc[p] = "psetF" /\ cap' = CAS("n") /\ Goto(p, "pindex") /\ UNCHANGED <<truth, flips, kind, loc, obs, lock>>
\* the index update goes through syncutil.Merge: the change may be carried out by another call's batch, in which case
\* this call returns ok without having touched the referrers tag itself
Batched(p) == {TRUE} \cup (IF \E q \in Proc \ {p} : kind[q] \in {"push", "delete"} THEN {FALSE} ELSE {})
PIndex(p) == /\ pc[p] = "pindex" /\ \E tg \in Batched(p) : Done(p, "ok", [obs[p] EXCEPT !.tag = tg])
             /\ UNCHANGED <<cap, truth, flips, kind, loc, lock>>

\* ----- Delete of a referrer
DLoad(p) == /\ pc[p] = "start" /\ kind[p] = "delete"
            /\ IF cap = "s" THEN Done(p, "ok", obs[p]) ELSE Goto(p, "dfetch") /\ UNCHANGED obs
            /\ UNCHANGED <<cap, truth, flips, kind, loc, lock>>
DFetch(p) == /\ pc[p] = "dfetch" /\ obs' = [obs EXCEPT ![p].fetched = TRUE] /\ Goto(p, "dping")
             /\ UNCHANGED <<cap, truth, flips, kind, loc, lock>>
DPing(p) == /\ pc[p] = "dping"
            /\ CASE cap = "s" -> Done(p, "ok", obs[p])
                 [] cap = "n" -> Goto(p, "dindex") /\ UNCHANGED obs
                 [] OTHER -> Goto(p, "dlock") /\ UNCHANGED obs
            /\ UNCHANGED <<cap, truth, flips, kind, loc, lock>>
DLock(p) == /\ pc[p] = "dlock" /\ lock = 0 /\ lock' = p /\ Goto(p, "dping2")
            /\ UNCHANGED <<cap, truth, flips, kind, loc, obs>>
DPing2(p) == /\ pc[p] = "dping2"
             /\ CASE cap = "s" -> Done(p, "ok", obs[p]) /\ lock' = 0
                  [] cap = "n" -> Goto(p, "dindex") /\ UNCHANGED obs /\ lock' = 0
                  [] OTHER -> Goto(p, IF truth THEN "dsetT" ELSE "dsetF") /\ UNCHANGED <<obs, lock>>      \* the ping request
             /\ UNCHANGED <<cap, truth, flips, kind, loc>>
DSetT(p) == /\ pc[p] = "dsetT" /\ cap' = CAS("s") /\ lock' = 0 /\ Done(p, "ok", obs[p]) /\ UNCHANGED <<truth, flips, kind, loc>>
DSetF(p) == /\ pc[p] = "dsetF" /\ cap' = CAS("n") /\ lock' = 0 /\ Goto(p, "dindex") /\ UNCHANGED <<truth, flips, kind, loc, obs>>
DIndex(p) == /\ pc[p] = "dindex" /\ \E tg \in Batched(p) : Done(p, "ok", [obs[p] EXCEPT !.tag = tg])
             /\ UNCHANGED <<cap, truth, flips, kind, loc, lock>>

Flip == /\ flips < MaxFlips /\ truth' = ~truth /\ flips' = flips + 1
        /\ UNCHANGED <<cap, kind, pc, loc, obs, res, ev, lock>>

Next == Flip \/ \E p \in Proc :
          \/ SetCap(p)
          \/ RLoad(p) \/ RApi(p) \/ RSetT(p) \/ RSetF(p) \/ RTag(p)
          \/ PLoad(p) \/ PPushS(p) \/ PPush(p) \/ PHdr(p) \/ PLoad2(p) \/ PSetF(p) \/ PIndex(p)
          \/ DLoad(p) \/ DFetch(p) \/ DPing(p) \/ DLock(p) \/ DPing2(p) \/ DSetT(p) \/ DSetF(p) \/ DIndex(p)
Spec == Init /\ [][Next]_vars

TypeOK == cap \in {"u", "s", "n"} /\ lock \in 0..NP
Monotone == [][cap # "u" => cap' = cap]_cap
EvidenceSound == \A e \in ev : cap = e
\* with a registry that does not change its answer and nobody forcing the capability, detection is the truth
DetectionFaithful == (flips = 0 /\ \A p \in Proc : kind[p] \notin {"setT", "setF"}) => (cap # "u" => cap = IF truth THEN "s" ELSE "n")
\* the ping lock is held only inside pingReferrers (it is always released)
LockHeldInPing == lock # 0 => pc[lock] \in {"dping2", "dsetT", "dsetF"}
=============================================================================
