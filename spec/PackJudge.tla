----------------------------- MODULE PackJudge -----------------------------
(***************************************************************************)
(* L3 judge for C19: compares what the real PackManifest / Pack did for    *)
(* each case with Expected(case) of Pack.tla.                              *)
(***************************************************************************)
EXTENDS Pack, Json

CONSTANTS TraceFile, OutFile
Trace == ndJsonDeserialize(TraceFile)
VARIABLES l, viol, done
vars == <<l, viol, done>>
Rec == Trace[l]

RECURSIVE Str(_)
Str(s) == IF s = <<>> THEN "" ELSE Head(s) \o Str(Tail(s))

\* annotation lists are sequences of <<key, value>> sorted by key
Without(ps, k) == SelectSeq(ps, LAMBDA p : p[1] # k)
Lookup(ps, k) == IF \E i \in 1..Len(ps) : ps[i][1] = k
                 THEN (CHOOSE i \in 1..Len(ps) : ps[i][1] = k) ELSE 0

Checks(r) ==
  LET c == r.c
      atOK == MediaTypeOK(r.atc)
      cfgOK == MediaTypeOK(r.cfgc)
      createdOK == Rfc3339OK(r.createdc)
      e == Expected(c, atOK, cfgOK, createdOK)
      at == Str(r.atc)
  IN
  IF r.res = "fault" THEN
    \* a blob push failed (target "faultblob"): the call fails with that error and pushes no manifest
    {<<"FaultOnlyWhenInjected", r.nfaulted > 0>>,
     <<"NoManifestAfterFailedBlob", r.nmanifest = 0>>}
  ELSE IF r.res = "ok" /\ r.nfaulted > 0 THEN {<<"FailedBlobPushSurfaces", FALSE>>}
  ELSE IF e.res # "ok" THEN
    {<<"Rejected", (Validates(c) \/ e.res = "datetime") => r.res # "ok">>,
     <<"RejectedBeforeAnyPush", (e.nopush /\ r.res # "ok") => r.npush = 0>>,
     <<"RejectedWithoutManifestPush", r.res # "ok" => r.nmanifest = 0>>}
  ELSE IF r.res # "ok" THEN {<<"Accepted", FALSE>>}
  ELSE
    LET p == r.parsed  d == r.desc  q == r.req
        wantCfgMT == IF e.cfgmt = "given" THEN Str(r.cfgc) ELSE IF e.cfgmt = "at" THEN at ELSE e.cfgmt
        wantAt == IF e.outat = "at" THEN at ELSE e.outat
        wantDescAt == IF e.descat = "at" THEN at ELSE IF e.descat = "cfgmt" THEN wantCfgMT ELSE e.descat
        ck == q.createdkey
    IN
    {<<"Accepted", TRUE>>,
     <<"DescriptorMatchesStoredBytes", r.stored.found /\ r.stored.dg = d.dg /\ r.stored.size = d.size>>,
     <<"Parses", p.ok>>,
     <<"MediaType", d.mt = e.mt /\ p.mt = e.mt>>,
     <<"ConfigAsRequested",
         CASE e.config = "given" -> p.cfgdg = q.cfgdg /\ p.cfgmt = wantCfgMT /\ p.cfgann = q.cfgann
           [] e.config = "customempty" -> p.cfgdg = r.customemptydg /\ p.cfgmt = wantCfgMT /\ p.cfgsize = 2
                                          /\ p.cfgann = q.cfgann
           [] e.config = "emptyjson" -> p.cfgdg = r.emptyjsondg /\ p.cfgmt = MTEmptyJSON /\ p.cfgsize = 2
                                        /\ p.cfgann = q.cfgann
           [] OTHER -> p.cfgdg = "">>,
     <<"InventedConfigPresent", e.config \in {"customempty", "emptyjson"} => r.cfgpresent>>,
     <<"LayersAsRequested", IF e.layers = "given" THEN p.layers = q.layers ELSE p.layers = <<r.emptyjsondg>> >>,
     <<"PlaceholderLayerPresent", e.layers = "placeholder" => r.layerspresent>>,
     <<"SubjectAsRequested", p.subject = (IF e.subject THEN q.subject ELSE "") /\ (e.subject => p.subjsame)>>,
     <<"ArtifactType", p.at = wantAt /\ d.at = wantDescAt>>,
     <<"AnnotationsKept", Without(p.ann, ck) = Without(q.ann, ck)>>,
     <<"CreatedFilled", p.hascreated /\ Rfc3339OK(p.created)>>,
     <<"CreatedKept", c.ann = "created" => p.created = r.createdc>>,
     <<"DescriptorAnnotations", d.ann = p.ann>>,
     <<"Reproducible", c.ann = "created" => (r.again.res = "ok" /\ r.again.dg = d.dg)>>}

Init == l = 1 /\ viol = {} /\ done = FALSE
Step ==
  /\ l <= Len(Trace)
  /\ l' = l + 1
  /\ done' = FALSE
  /\ viol' = viol \cup {[t |-> Rec.t, i |-> Rec.i, inv |-> k[1]] : k \in {k \in Checks(Rec) : ~k[2]}}
Finish ==
  /\ l = Len(Trace) + 1 /\ ~done
  /\ done' = TRUE
  /\ JsonSerialize(OutFile, [consumed |-> l - 1, viol |-> viol])
  /\ UNCHANGED <<l, viol>>
Next == Step \/ Finish
Spec == Init /\ [][Next]_vars
Consumed == TLCGet("stats").diameter = Len(Trace) + 2
=============================================================================
