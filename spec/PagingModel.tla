----------------------------- MODULE PagingModel -----------------------------
(***************************************************************************)
(* C15: listings (tags, catalog, referrers) as a client loop against a     *)
(* paginating server.  A case: the list (items 1..len in the registry's    *)
(* order; for referrers every item has an artifact type), last (0: none),  *)
(* client page size n (0: unset), server cap m (0: none), the form of the  *)
(* Link header, the page at which the callback fails (0: never), whether   *)
(* the server applies the artifact-type filter, and whether a response     *)
(* document exceeds MaxMetadataBytes.                                      *)
(* Server semantics are those of the distribution specification: a page    *)
(* holds the items after `last`, at most n (and at most the server's cap); *)
(* when items remain the response carries a Link to the next page.         *)
(***************************************************************************)
EXTENDS Integers, Sequences, FiniteSets, TLC

Min(a, b) == IF a < b THEN a ELSE b
PageSize(n, m) == IF n = 0 THEN m ELSE IF m = 0 THEN n ELSE Min(n, m)      \* 0: unlimited

\* the items the listing must deliver: after `last`, matching the filter (types[i] for referrers)
\* api "ocitags" is the OCI-layout store's Tags: items 1..len are a sorted universe of tag names of which those with
\* types[i] = "A" are tags at present; `last` may be any name of the universe, tag or not
Wanted(c) == SelectSeq([i \in 1..c.len |-> i],
                       LAMBDA i : i > c.last /\ (IF c.api = "ocitags" THEN c.types[i] = "A" ELSE (c.filter = "" \/ c.types[i] = c.filter)))

\* one server page starting after item `after`: [items, next] ; next = 0: no Link
\* with server-side filtering the server walks the filtered list
ServerList(c) == IF c.filter # "" /\ c.serverfilters THEN SelectSeq([i \in 1..c.len |-> i], LAMBDA i : c.types[i] = c.filter)
                 ELSE [i \in 1..c.len |-> i]
ServerPage(c, after, n) ==
  LET rest == SelectSeq(ServerList(c), LAMBDA i : i > after)
      k == PageSize(n, c.m)
      items == IF k = 0 \/ Len(rest) <= k THEN rest ELSE SubSeq(rest, 1, k)
  IN [items |-> items, next |-> IF Len(items) < Len(rest) THEN items[Len(items)] ELSE 0]

ClientFilter(c, items) == IF c.filter # "" /\ ~c.serverfilters THEN SelectSeq(items, LAMBDA i : c.types[i] = c.filter) ELSE items

\* the run: pages delivered to the callback, requests made, outcome
RECURSIVE Loop(_, _, _, _, _)
Loop(c, after, pages, reqs, pageno) ==
  LET p == ServerPage(c, after, c.n)
      mine == ClientFilter(c, p.items)
      called == c.api # "referrers" \/ mine # <<>>          \* referrers: the callback is skipped for an empty page
      pages2 == IF called THEN Append(pages, mine) ELSE pages
      reqs2 == Append(reqs, after)
  IN IF c.oversize = pageno THEN [pages |-> pages, reqs |-> reqs2, outcome |-> "toolarge"]
     ELSE IF called /\ c.cbfail = Len(pages2) THEN [pages |-> pages2, reqs |-> reqs2, outcome |-> "cb"]
     ELSE IF p.next = 0 THEN [pages |-> pages2, reqs |-> reqs2, outcome |-> "ok"]
     ELSE Loop(c, p.next, pages2, reqs2, pageno + 1)
Run(c) == IF c.api = "ocitags"      \* no server: the callback gets the whole (possibly empty) listing at once
          THEN [pages |-> <<Wanted(c)>>, reqs |-> <<>>, outcome |-> IF c.cbfail = 1 THEN "cb" ELSE "ok"]
          ELSE Loop(c, c.last, <<>>, <<>>, 1)

RECURSIVE Flatten(_)
Flatten(ps) == IF ps = <<>> THEN <<>> ELSE Head(ps) \o Flatten(Tail(ps))
=============================================================================
