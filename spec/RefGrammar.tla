----------------------------- MODULE RefGrammar -----------------------------
(***************************************************************************)
(* Character-level recognisers for artifact references (C20), written from *)
(* the documented grammar of registry.ParseReference and the distribution  *)
(* specification, not from the Go regular expressions.  A string is a      *)
(* sequence of one-character strings.                                      *)
(*                                                                         *)
(*   <artifact>  ::= <registry> "/" <path>                                 *)
(*   <path>      ::= <REPOSITORY> | <REPOSITORY> <reference>               *)
(*   <reference> ::= "@" <digest> | ":" <TAG> "@" <DIGEST> | ":" <TAG>     *)
(*                                                                         *)
(* REPOSITORY: components joined by "/"; a component is alnum+ followed    *)
(*             by any number of (separator alnum+), separator being ".",   *)
(*             "_", "__" or one or more "-"; alnum is [a-z0-9]             *)
(* TAG       : [A-Za-z0-9_][A-Za-z0-9_.-]{0,127}                            *)
(* DIGEST    : sha256:<64 hex> | sha384:<96 hex> | sha512:<128 hex>        *)
(***************************************************************************)
EXTENDS Integers, Sequences, FiniteSets, TLC

Lower == {"a","b","c","d","e","f","g","h","i","j","k","l","m","n","o","p","q","r","s","t","u","v","w","x","y","z"}
Upper == {"A","B","C","D","E","F","G","H","I","J","K","L","M","N","O","P","Q","R","S","T","U","V","W","X","Y","Z"}
Digit == {"0","1","2","3","4","5","6","7","8","9"}
Alnum == Lower \cup Digit
Word  == Lower \cup Upper \cup Digit \cup {"_"}
Hex   == Digit \cup {"a","b","c","d","e","f"}

\* first position of character c in s, 0 when absent
IndexOf(s, c) == IF \E i \in 1..Len(s) : s[i] = c
                 THEN CHOOSE i \in 1..Len(s) : s[i] = c /\ \A j \in 1..(i - 1) : s[j] # c
                 ELSE 0

RECURSIVE Str(_)
Str(s) == IF s = <<>> THEN "" ELSE Head(s) \o Str(Tail(s))

---------------------------------------------------------------------------
\* REPOSITORY as a deterministic automaton.
\* S: start of a path component, A: after an alphanumeric, D: after ".",
\* U1/U2: after "_"/"__", H: after one or more "-", X: dead.
RepoStep(q, c) ==
  CASE q = "S"  -> IF c \in Alnum THEN "A" ELSE "X"
    [] q = "A"  -> IF c \in Alnum THEN "A" ELSE IF c = "." THEN "D" ELSE IF c = "_" THEN "U1"
                   ELSE IF c = "-" THEN "H" ELSE IF c = "/" THEN "S" ELSE "X"
    [] q = "D"  -> IF c \in Alnum THEN "A" ELSE "X"
    [] q = "U1" -> IF c \in Alnum THEN "A" ELSE IF c = "_" THEN "U2" ELSE "X"
    [] q = "U2" -> IF c \in Alnum THEN "A" ELSE "X"
    [] q = "H"  -> IF c \in Alnum THEN "A" ELSE IF c = "-" THEN "H" ELSE "X"
    [] OTHER    -> "X"
RECURSIVE RepoRun(_, _, _)
RepoRun(q, s, i) == IF i > Len(s) THEN q ELSE RepoRun(RepoStep(q, s[i]), s, i + 1)
RepoOK(s) == RepoRun("S", s, 1) = "A"

\* REPOSITORY, second formalisation: structural.  A path component is a
\* non-empty alternation  alnum+ (sep alnum+)*  with sep in {".", "_", "__", "-"+};
\* components are joined by "/".  Used by RefBuild to cross-check the automaton.
IsSepRun(s, i, j) ==   \* s[i..j] is one separator
  LET t == SubSeq(s, i, j) IN
  \/ t = <<".">> \/ t = <<"_">> \/ t = <<"_", "_">>
  \/ (Len(t) >= 1 /\ \A k \in 1..Len(t) : t[k] = "-")
ComponentOK(s) ==
  /\ Len(s) >= 1 /\ s[1] \in Alnum /\ s[Len(s)] \in Alnum
  /\ \A i \in 1..Len(s) : s[i] \in Alnum \cup {".", "_", "-"}
  \* every maximal run of non-alphanumerics is one separator
  /\ \A i \in 1..Len(s) : \A j \in i..Len(s) :
       ( /\ \A k \in i..j : s[k] \notin Alnum
         /\ (i = 1 \/ s[i - 1] \in Alnum) /\ (j = Len(s) \/ s[j + 1] \in Alnum) )
       => IsSepRun(s, i, j)
RECURSIVE RepoOK2(_)
RepoOK2(s) == LET k == IndexOf(s, "/") IN
  IF k = 0 THEN ComponentOK(s)
  ELSE ComponentOK(SubSeq(s, 1, k - 1)) /\ RepoOK2(SubSeq(s, k + 1, Len(s)))

TagOK(s) == /\ Len(s) >= 1 /\ Len(s) <= 128
            /\ s[1] \in Word
            /\ \A i \in 2..Len(s) : s[i] \in Word \cup {".", "-"}

AlgLen(a) == CASE a = <<"s","h","a","2","5","6">> -> 64
               [] a = <<"s","h","a","3","8","4">> -> 96
               [] a = <<"s","h","a","5","1","2">> -> 128
               [] OTHER -> 0
DigestOK(s) == LET c == IndexOf(s, ":") IN
  /\ c # 0
  /\ LET alg == SubSeq(s, 1, c - 1)  hex == SubSeq(s, c + 1, Len(s)) IN
     /\ AlgLen(alg) # 0
     /\ Len(hex) = AlgLen(alg)
     /\ \A i \in 1..Len(hex) : hex[i] \in Hex

\* registry authority: three-valued, as the property allows
HostChar == Lower \cup Upper \cup Digit \cup {".", "-"}
\* an IPv6 literal in brackets, with or without a port.  Which bracketed strings net/url takes for an IPv6 literal
\* depends on the Go version (newer ones reject malformed literals), so only a few well-formed ones must be accepted;
\* every other bracketed registry is not judged.
V6Known == {<<":", ":", "1">>, <<"2", "0", "0", "1", ":", "d", "b", "8", ":", ":", "1">>, <<"f", "e", "8", "0", ":", ":", "1">>}
RegIsV6(s) ==
  /\ Len(s) >= 5 /\ s[1] = "["
  /\ LET rb == IndexOf(s, "]") IN
     /\ rb >= 5
     /\ SubSeq(s, 2, rb - 1) \in V6Known
     /\ \/ rb = Len(s)
        \/ /\ Len(s) >= rb + 2 /\ s[rb + 1] = ":"
           /\ \A i \in (rb + 2)..Len(s) : s[i] \in Digit
RegMustAccept(s) == LET c == IndexOf(s, ":") IN
  IF RegIsV6(s) THEN TRUE
  ELSE IF c = 0 THEN Len(s) >= 1 /\ \A i \in 1..Len(s) : s[i] \in HostChar
  ELSE /\ c >= 2 /\ c < Len(s)
       /\ \A i \in 1..(c - 1) : s[i] \in HostChar
       /\ \A i \in (c + 1)..Len(s) : s[i] \in Digit
RegMustReject(s) == s = <<>> \/ \E i \in 1..Len(s) : s[i] \in {"@", " ", "?", "#", "/"}

---------------------------------------------------------------------------
\* the documented split of <path> into forms A-D
SplitPath(p) ==
  LET at == IndexOf(p, "@") IN
  IF at # 0 THEN
    LET r0 == SubSeq(p, 1, at - 1)
        c == IndexOf(r0, ":")
    IN [repo |-> IF c # 0 THEN SubSeq(r0, 1, c - 1) ELSE r0,
        ref |-> SubSeq(p, at + 1, Len(p)), form |-> IF c # 0 THEN "B" ELSE "A",
        lenient |-> at = Len(p)]
  ELSE LET c == IndexOf(p, ":") IN
    IF c # 0 THEN [repo |-> SubSeq(p, 1, c - 1), ref |-> SubSeq(p, c + 1, Len(p)), form |-> "C",
                   lenient |-> c = Len(p)]
    ELSE [repo |-> p, ref |-> <<>>, form |-> "D", lenient |-> FALSE]

\* the whole artifact string
Split(s) ==
  LET k == IndexOf(s, "/") IN
  IF k = 0 THEN [hasPath |-> FALSE, reg |-> s, repo |-> <<>>, ref |-> <<>>, form |-> "-", lenient |-> FALSE]
  ELSE LET x == SplitPath(SubSeq(s, k + 1, Len(s))) IN
       [hasPath |-> TRUE, reg |-> SubSeq(s, 1, k - 1), repo |-> x.repo, ref |-> x.ref, form |-> x.form,
        lenient |-> x.lenient]

PathOK(x) == /\ RepoOK(x.repo)
             /\ CASE x.form = "D" -> TRUE
                  [] x.form = "C" -> TagOK(x.ref)
                  [] OTHER -> DigestOK(x.ref)

\* "yes" / "no" / "unjudged"
Verdict(s) ==
  LET x == Split(s) IN
  IF ~x.hasPath THEN "no"
  ELSE IF RegMustReject(x.reg) THEN "no"
  ELSE IF x.lenient THEN IF RepoOK(x.repo) THEN "unjudged" ELSE "no"
  ELSE IF ~PathOK(x) THEN "no"
  ELSE IF RegMustAccept(x.reg) THEN "yes" ELSE "unjudged"
=============================================================================
