---------------------------- MODULE VerifyJudge ----------------------------
(***************************************************************************)
(* L3 + L2 judge for C05.  One record = what one real consumer (ReadAll,   *)
(* FetchAll, VerifyReader, memory / OCI / file / limited stores) did with  *)
(* one emitted case.  L3: the requirement of VerifyIngest.tla.  L2: for    *)
(* the consumers whose algorithm is transcribed (ReadAll-based and         *)
(* CopyBuffer-based) the outcome equals the model's.                       *)
(***************************************************************************)
EXTENDS VerifyIngest, Json

CONSTANTS TraceFile, OutFile
Trace == ndJsonDeserialize(TraceFile)
VARIABLES l, viol, nonconf, done
jvars == <<l, viol, nonconf, done>>
Rec == Trace[l]

IsReader(k) == k \in {"readall", "fetchall", "verify"}
\* which transcribed algorithm a consumer follows
AlgOf(r) == LET k == r.consumer  cs == r.c IN
  IF k \in {"readall", "fetchall", "memory"} THEN AlgReadAll(cs)
  ELSE IF k \in {"limited", "fileunnamed"} THEN AlgLimited(cs, r.limit)
  ELSE AlgCopyFixed(cs)

\* the bytes the descriptor describes, when the stream has that many (else nothing a consumer returns can equal them)
Described(cs) == IF cs.size >= 0 /\ cs.size <= Len(Stream(cs)) THEN SubSeq(Stream(cs), 1, cs.size) ELSE <<-1>>
IsConc(r) == "concurrent" \in DOMAIN r /\ r.concurrent
Checks(r) ==
  LET cs == r.c  k == r.consumer IN
  IF IsReader(k) THEN
    {<<"ReaderOnlyMatching", r.ok => (~MustFail(cs) /\ ~Trailing(cs))>>,
     <<"ReaderReturnsDescribedBytes", r.ok => r.bytes = Described(cs)>>}
  ELSE
    {<<"PushMustFail", MustFail(cs) => ~r.ok>>,
     <<"FailedPushInvisible", ~r.ok => (~r.exists /\ ~r.fetchok)>>,
     <<"FailedPushLeavesNoBlobFile", ~r.ok => r.newblobs = 0>>,
     <<"VisibleMatchesDescriptor", r.fetchok => (~MustFail(cs) /\ r.bytes = Described(cs))>>,
     <<"ExistsMeansFetchable", r.exists => r.fetchok>>,
     \* the same through the plain descriptor (no title), as a manifest's layer entry names the content
     <<"FailedPushInvisiblePlain", (~r.ok /\ ~IsConc(r)) => (~r.existsp /\ ~r.fetchpok)>>,
     <<"VisibleMatchesDescriptorPlain", r.fetchpok => (~MustFail(cs) /\ r.bytesp = Described(cs))>>,
     <<"ConcurrentNoHang", ~("hang" \in DOMAIN r /\ r.hang)>>,
     <<"BlobFilesComplete", r.badblobfiles = 0>>}

Sanity(r) == Good(r.c) => r.ok          \* not a verdict: guards against vacuity

JInit == l = 1 /\ viol = {} /\ nonconf = {} /\ done = FALSE
Step ==
  /\ l <= Len(Trace)
  /\ l' = l + 1
  /\ done' = FALSE
  /\ viol' = viol \cup {[t |-> Rec.t, i |-> Rec.i, inv |-> k[1]] : k \in {k \in Checks(Rec) : ~k[2]}}
               \cup (IF Sanity(Rec) THEN {} ELSE {[t |-> Rec.t, i |-> Rec.i, inv |-> "GoodAccepted"]})
  \* (the transcribed algorithms assume the end of the stream comes in a Read call of its own)
  /\ nonconf' = IF IsConc(Rec) \/ Rec.together \/ Rec.ok = (AlgOf(Rec).res = "ok") THEN nonconf
                ELSE nonconf \cup {[t |-> Rec.t, i |-> Rec.i, inv |-> "L2"]}
Finish ==
  /\ l = Len(Trace) + 1 /\ ~done
  /\ done' = TRUE
  /\ JsonSerialize(OutFile, [consumed |-> l - 1, viol |-> viol, nonconf |-> nonconf])
  /\ UNCHANGED <<l, viol, nonconf>>
JNext == Step \/ Finish
JSpec == JInit /\ [][JNext]_jvars
Consumed == TLCGet("stats").diameter = Len(Trace) + 2
=============================================================================
