------------------------------ MODULE CredModel ------------------------------
(***************************************************************************)
(* C18: the docker config file as an abstract document and the REQUIRED    *)
(* effect of the credentials file store's Put / Get / Delete.              *)
(*   doc.top    set of [k, v]: every top-level key other than "auths",     *)
(*              value as canonical JSON text (fields the library does not  *)
(*              know are just text to it)                                  *)
(*   doc.auths  set of entries [addr, user, pass, refresh, access, luser,  *)
(*              lpass, extra]: user/pass from the base64 "auth" field,     *)
(*              luser/lpass the legacy username/password fields, extra the *)
(*              canonical JSON of any other field of the entry             *)
(***************************************************************************)
EXTENDS Integers, Sequences, FiniteSets, TLC

NoCred == [user |-> "", pass |-> "", refresh |-> "", access |-> ""]
Addrs(doc) == {e.addr : e \in doc.auths}
EntryOf(doc, a) == CHOOSE e \in doc.auths : e.addr = a

HasColon(chars) == \E i \in 1..Len(chars) : chars[i] = ":"

\* Get: the exact key, else a legacy key whose host name is the address; the
\* base64 auth field overrides the legacy username / password fields
CredOfEntry(e) ==
  [user |-> IF e.hasauth THEN e.user ELSE e.luser, pass |-> IF e.hasauth THEN e.pass ELSE e.lpass,
   refresh |-> e.refresh, access |-> e.access]
\* host[a] is the host name of key a (computed by the driver with the documented rule: strip scheme and path)
GetSet(doc, a, host) ==
  IF a \in Addrs(doc) THEN {CredOfEntry(EntryOf(doc, a))}
  ELSE IF \E e \in doc.auths : host[e.addr] = a THEN {CredOfEntry(e) : e \in {x \in doc.auths : host[x.addr] = a}}
  ELSE {NoCred}

\* Put: refuses a user name with a colon; otherwise replaces exactly that entry
PutDoc(doc, a, c) ==
  [top |-> doc.top,
   auths |-> {e \in doc.auths : e.addr # a} \cup
             {[addr |-> a, hasauth |-> (c.user # "" \/ c.pass # ""), user |-> c.user, pass |-> c.pass,
               refresh |-> c.refresh, access |-> c.access, luser |-> "", lpass |-> "", extra |-> ""]}]
DelDoc(doc, a) == [top |-> doc.top, auths |-> {e \in doc.auths : e.addr # a}]
=============================================================================
