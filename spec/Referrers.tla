---------------------------- MODULE Referrers ----------------------------
(***************************************************************************)
(* C14 (L1): client-maintained referrers index for ONE subject on a        *)
(* registry without the Referrers API.  Each process pushes or deletes one *)
(* referrer through the same Repository:                                   *)
(*   PushOrFetch  PUT of the referrer manifest (push) / GET of it (delete) *)
(*   Assign       syncutil.Merge.assign under its lock: join the open      *)
(*                batch, or the pending one when the batch is committed    *)
(*   BecomeMain   the first receiver of the batch's status channel runs it *)
(*   Prepare      GET the index by the referrers tag                       *)
(*   Commit       Merge.commit closes the batch; applyReferrerChanges      *)
(*   PushIdx      PUT the new index under the tag                          *)
(*   DelOld       DELETE the superseded index manifest                     *)
(*   Complete     Merge.complete: release the waiters, promote pending     *)
(*   Post         (delete) DELETE the referrer manifest itself             *)
(* Every interleaving of these steps is explored for every choice of       *)
(* operations (NP processes) and every exact pre-existing index.           *)
(***************************************************************************)
EXTENDS Integers, Sequences, FiniteSets, TLC

CONSTANT NP           \* number of processes; process p changes referrer p
Proc == 1..NP
Referrer == 1..(NP + 1)     \* one more referrer that nobody touches

VARIABLES Op,         \* [Proc -> [kind: {"add","remove"}, r: referrer]] chosen in Init
          pc,         \* [Proc -> pc]
          \* registry
          manifests,  \* set of live referrer manifests in registry
          indexes,    \* set of index manifests (each a set of referrers) present in registry
          tagged,     \* the index currently tagged by the referrers tag, or "none"
          \* Merge object
          committed, items, mainTaken, pending, pendingExists, batch, \* batch: [Proc -> 0 none | 1 current | 2 pending]
          result,     \* [Proc -> "none"|"ok"]
          status,     \* per-batch: "open" | "closed"(success) -- waiters released
          old, newv   \* main's locals: old index (or "none"), computed new index
vars == <<Op, pc, manifests, indexes, tagged, committed, items, mainTaken, pending, batch, result, status, old, newv, pendingExists>>

Init ==
  /\ Op \in [Proc -> [kind : {"add", "remove"}, r : Referrer]]
  /\ \A p \in Proc : Op[p].r = p
  /\ pc = [p \in Proc |-> "start"]
  /\ manifests \in SUBSET Referrer          \* pre-existing live referrers
  /\ \A p \in Proc : (Op[p].kind = "remove") <=> (p \in manifests)      \* one deletes what exists, pushes what does not
  /\ tagged \in {<<>>, <<manifests>>}   \* pre-existing index is exact or absent(if no referrers)
  /\ (tagged = <<>> => manifests = {})
  /\ indexes = IF tagged = <<>> THEN {} ELSE {tagged[1]}
  /\ committed = FALSE /\ items = <<>> /\ pending = <<>> /\ mainTaken = FALSE /\ pendingExists = FALSE
  /\ batch = [p \in Proc |-> 0]
  /\ result = [p \in Proc |-> "none"]
  /\ status = "open"
  /\ old = <<>> /\ newv = {}

\* step 1: the manifest itself is pushed / (for delete: index updated first, manifest deleted afterwards)
PushOrFetch(p) ==
  /\ pc[p] = "start"
  /\ IF Op[p].kind = "add" THEN manifests' = manifests \cup {Op[p].r} ELSE UNCHANGED manifests
  /\ pc' = [pc EXCEPT ![p] = "assign"]
  /\ UNCHANGED <<Op, indexes, tagged, committed, items, mainTaken, pending, batch, result, status, old, newv, pendingExists>>

\* Merge.assign under lock
Assign(p) ==
  /\ pc[p] = "assign"
  /\ IF committed
     THEN /\ pending' = Append(pending, p) /\ batch' = [batch EXCEPT ![p] = 2]
          /\ pc' = [pc EXCEPT ![p] = "wait"]
          /\ UNCHANGED <<items, mainTaken>>
     ELSE /\ items' = Append(items, p) /\ batch' = [batch EXCEPT ![p] = 1]
          /\ pc' = [pc EXCEPT ![p] = "wait"]
          /\ UNCHANGED <<pending, mainTaken>>
  /\ UNCHANGED <<Op, manifests, indexes, tagged, committed, result, status, old, newv, pendingExists>>

\* receive from status channel: the first receiver of a batch becomes main
BecomeMain(p) ==
  /\ pc[p] = "wait" /\ batch[p] = 1 /\ ~mainTaken
  /\ mainTaken' = TRUE
  /\ pc' = [pc EXCEPT ![p] = "prepare"]
  /\ UNCHANGED <<Op, manifests, indexes, tagged, committed, items, pending, batch, result, status, old, newv, pendingExists>>

Prepare(p) ==   \* GET index by tag
  /\ pc[p] = "prepare"
  /\ old' = tagged
  /\ pc' = [pc EXCEPT ![p] = "commit"]
  /\ UNCHANGED <<Op, manifests, indexes, tagged, committed, items, mainTaken, pending, batch, result, status, newv, pendingExists>>

Apply(base, seq) ==
  LET RECURSIVE F(_, _)
      F(s, i) == IF i > Len(seq) THEN s
                 ELSE F(IF Op[seq[i]].kind = "add" THEN s \cup {Op[seq[i]].r} ELSE s \ {Op[seq[i]].r}, i + 1)
  IN F(base, 1)

Commit(p) ==
  /\ pc[p] = "commit"
  /\ committed' = TRUE
  /\ newv' = Apply(IF old = <<>> THEN {} ELSE old[1], items)
  /\ pc' = [pc EXCEPT ![p] = "pushidx"]
  /\ UNCHANGED <<Op, manifests, indexes, tagged, items, mainTaken, pending, batch, result, status, old, pendingExists>>

PushIdx(p) ==  \* PUT new index with tag (skipped when no update or empty result)
  /\ pc[p] = "pushidx"
  /\ IF (old # <<>> /\ newv = old[1]) THEN UNCHANGED <<indexes, tagged>> /\ pc' = [pc EXCEPT ![p] = "complete"]
     ELSE IF newv # {} THEN /\ indexes' = indexes \cup {newv} /\ tagged' = <<newv>> /\ pc' = [pc EXCEPT ![p] = "delold"]
     ELSE UNCHANGED <<indexes, tagged>> /\ pc' = [pc EXCEPT ![p] = "delold"]
  /\ UNCHANGED <<Op, manifests, committed, items, mainTaken, pending, batch, result, status, old, newv, pendingExists>>

DelOld(p) ==   \* DELETE old index manifest by digest (removes tag if it still points to it)
  /\ pc[p] = "delold"
  /\ IF old # <<>> /\ old[1] # newv
     THEN /\ indexes' = indexes \ {old[1]}
          /\ tagged' = IF tagged = old THEN <<>> ELSE tagged
     ELSE UNCHANGED <<indexes, tagged>>
  /\ pc' = [pc EXCEPT ![p] = "complete"]
  /\ UNCHANGED <<Op, manifests, committed, items, mainTaken, pending, batch, result, status, old, newv, pendingExists>>

Complete(p) ==
  /\ pc[p] = "complete"
  \* release waiters of this batch, promote pending
  /\ result' = [q \in Proc |-> IF batch[q] = 1 THEN "ok" ELSE result[q]]
  /\ pc' = [q \in Proc |-> IF batch[q] = 1 THEN "post" ELSE pc[q]]
  /\ batch' = [q \in Proc |-> IF batch[q] = 1 THEN 0 ELSE IF batch[q] = 2 THEN 1 ELSE batch[q]]
  /\ committed' = FALSE /\ items' = pending /\ pending' = <<>> /\ mainTaken' = FALSE
  /\ old' = <<>> /\ newv' = {}
  /\ UNCHANGED <<Op, manifests, indexes, tagged, status, pendingExists>>

Post(p) ==   \* for remove: delete the manifest itself after the index update
  /\ pc[p] = "post"
  /\ IF Op[p].kind = "remove" THEN manifests' = manifests \ {Op[p].r} ELSE UNCHANGED manifests
  /\ pc' = [pc EXCEPT ![p] = "done"]
  /\ UNCHANGED <<Op, indexes, tagged, committed, items, mainTaken, pending, batch, result, status, old, newv, pendingExists>>

Quiescent == \A p \in Proc : pc[p] = "done"
Next == \/ \E p \in Proc : PushOrFetch(p) \/ Assign(p) \/ BecomeMain(p) \/ Prepare(p) \/ Commit(p) \/ PushIdx(p) \/ DelOld(p) \/ Complete(p) \/ Post(p)
        \/ (Quiescent /\ UNCHANGED vars)
Spec == Init /\ [][Next]_vars

Listed == IF tagged = <<>> THEN {} ELSE tagged[1]
IndexExact == Quiescent => Listed = manifests
NoDangling == Quiescent => indexes \subseteq (IF tagged = <<>> THEN {} ELSE {tagged[1]})
=============================================================================
