---------------------------- MODULE VerifyIngest ----------------------------
(***************************************************************************)
(* C05: only content matching its descriptor becomes visible.              *)
(*                                                                         *)
(* A case is a scripted reader (the stream it yields, how it is chunked,   *)
(* whether it ends with EOF or an I/O error) and a descriptor (digest of   *)
(* some byte string or a malformed / unsupported digest, and a size).      *)
(* Digests are ideal: the digest of a byte string is the string itself.    *)
(*                                                                         *)
(* Two things are defined over cases:                                      *)
(*  - the REQUIREMENT (MustFail, MustReportTrailing, ...) written from the  *)
(*    property text alone;                                                 *)
(*  - the ALGORITHM of content/reader.go and internal/ioutil/io.go          *)
(*    (VerifyReader.Read / Verify, ensureEOF, ReadAll with io.ReadFull,    *)
(*    CopyBuffer with io.CopyBuffer) transcribed step by step.             *)
(* MCVerify checks on every case that the algorithm meets the requirement; *)
(* the same case space is emitted for the Go driver, and VerifyJudge.tla   *)
(* compares what the real consumers did with both.                         *)
(***************************************************************************)
EXTENDS Integers, Sequences, FiniteSets, TLC

CONSTANTS MaxLen,     \* longest stream
          NegSizes    \* TRUE: descriptors with size -1 are in the case space

Byte == {0, 1}
Data == UNION {[1..k -> Byte] : k \in 0..MaxLen}
Malformed == <<9>>
Unsupported == <<8>>
Sizes == (IF NegSizes THEN {-1} ELSE {}) \cup 0..(MaxLen + 1)

\* data: what the reader would yield; it stops after `cut` bytes with `endk`
CaseSpace == [data : Data, cut : 0..MaxLen, endk : {"eof", "err"}, chunk : {1, 2, 9}, zeros : BOOLEAN,
              dg : Data \cup {Malformed, Unsupported}, size : Sizes]
Cases == {c \in CaseSpace : c.cut <= Len(c.data) /\ (c.endk = "eof" => c.cut = Len(c.data))}

Stream(c) == SubSeq(c.data, 1, c.cut)
Min(a, b) == IF a < b THEN a ELSE b

---------------------------------------------------------------------------
\* REQUIREMENT
BadDigest(c) == c.dg \in {Malformed, Unsupported}
\* the reader ends early, fails before Size bytes, or the first Size bytes do not hash to Digest
MustFail(c) ==
  \/ c.size < 0
  \/ BadDigest(c)
  \/ c.cut < c.size                                   \* ends early (EOF) or fails (error) before Size bytes
  \/ SubSeq(Stream(c), 1, c.size) # c.dg              \* first Size bytes do not hash to Digest
\* bytes beyond Size: ReadAll / FetchAll / the verifying reader must report them
Trailing(c) == c.size >= 0 /\ c.cut > c.size
\* exactly the described bytes through a reader that ends with EOF
Good(c) == ~MustFail(c) /\ c.cut = c.size /\ c.endk = "eof"

---------------------------------------------------------------------------
\* ALGORITHM.  Reader state r = [pos, zp]: bytes handed out, a (0,nil) read is pending.
R0(c) == [pos |-> 0, zp |-> c.zeros]
\* one Read with buffer space b >= 1 on the scripted reader
Under(c, r, b) ==
  IF c.zeros /\ r.zp THEN [n |-> 0, e |-> "nil", r |-> [r EXCEPT !.zp = FALSE]]
  ELSE IF r.pos = c.cut THEN [n |-> 0, e |-> (IF c.endk = "eof" THEN "eof" ELSE "io"), r |-> r]
  ELSE LET n == Min(Min(b, c.chunk), c.cut - r.pos) IN
       [n |-> n, e |-> "nil", r |-> [pos |-> r.pos + n, zp |-> TRUE]]

\* VerifyReader state s = [r, N, err]; err in nil eof ueof io bad
V0(c) == [r |-> R0(c), N |-> c.size, err |-> IF BadDigest(c) THEN "bad" ELSE "nil"]
VRRead(c, s, b) ==
  IF s.err # "nil" THEN [n |-> 0, e |-> s.err, s |-> s]
  ELSE IF s.N <= 0 THEN [n |-> 0, e |-> "eof", s |-> [s EXCEPT !.err = "eof"]]        \* io.LimitedReader
  ELSE LET u == Under(c, s.r, Min(b, s.N))
           n2 == s.N - u.n
           e2 == IF u.e = "eof" /\ n2 > 0 THEN "ueof" ELSE u.e
       IN [n |-> u.n, e |-> e2, s |-> [r |-> u.r, N |-> n2, err |-> e2]]

\* ensureEOF on the raw (tee'd) reader: io.ReadFull of one byte
RECURSIVE EnsureEOF(_, _)
EnsureEOF(c, r) == LET u == Under(c, r, 1) IN
  IF u.n > 0 THEN [ok |-> FALSE, r |-> u.r]
  ELSE IF u.e = "nil" THEN EnsureEOF(c, u.r)
  ELSE [ok |-> (u.e = "eof"), r |-> u.r]

\* VerifyReader.Verify
Verify(c, s) ==
  IF s.err = "nil" /\ s.N > 0 THEN "err"                    \* errEarlyVerify
  ELSE IF s.err \notin {"nil", "eof"} THEN "err"
  ELSE LET p == EnsureEOF(c, s.r) IN
       IF ~p.ok THEN "err"                                  \* ErrTrailingData
       ELSE IF SubSeq(c.data, 1, p.r.pos) = c.dg THEN "ok" ELSE "err"   \* verifier.Verified()

\* content.ReadAll: io.ReadFull into a buffer of Size bytes, then Verify
RECURSIVE ReadFull(_, _, _)
ReadFull(c, s, got) ==
  IF got >= c.size THEN [ok |-> TRUE, s |-> s, got |-> got]
  ELSE LET x == VRRead(c, s, c.size - got) IN
       IF x.e # "nil" THEN [ok |-> (got + x.n >= c.size), s |-> x.s, got |-> got + x.n]
       ELSE ReadFull(c, x.s, got + x.n)
AlgReadAll(c) ==
  IF c.size < 0 THEN [res |-> "err", got |-> 0]
  ELSE LET f == ReadFull(c, V0(c), 0) IN
       IF ~f.ok THEN [res |-> "err", got |-> f.got]
       ELSE [res |-> Verify(c, f.s), got |-> f.got]

\* content.LimitStorage: size gate, then the reader is cut with io.LimitReader(content, Size)
Limited(c) == IF c.size >= 0 /\ c.cut >= c.size THEN [c EXCEPT !.cut = c.size, !.endk = "eof"] ELSE c
AlgLimited(c, limit) == IF c.size > limit THEN [res |-> "err", got |-> 0] ELSE AlgReadAll(Limited(c))

\* ioutil.CopyBuffer: io.CopyBuffer with a large buffer, then Verify
RECURSIVE CopyLoop(_, _, _)
CopyLoop(c, s, got) ==
  LET x == VRRead(c, s, 64) IN
  IF x.e = "nil" THEN CopyLoop(c, x.s, got + x.n)
  ELSE [ok |-> (x.e = "eof"), s |-> x.s, got |-> got + x.n]
AlgCopy(c) ==
  LET f == CopyLoop(c, V0(c), 0) IN
  IF ~f.ok THEN [res |-> "err", got |-> f.got] ELSE [res |-> Verify(c, f.s), got |-> f.got]

\* the defect of the pinned tree (F6): NewVerifyReader did not reject negative
\* sizes.  FixedNeg = TRUE models the repaired NewVerifyReader.
CONSTANT FixedNeg
AlgCopyFixed(c) == IF FixedNeg /\ c.size < 0 THEN [res |-> "err", got |-> 0] ELSE AlgCopy(c)

=============================================================================
