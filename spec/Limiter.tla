------------------------------ MODULE Limiter ------------------------------
(***************************************************************************)
(* Growth beyond the listed properties (DESIGN 7.3), and the unbounded    *)
(* core of C04's first clause: internal/syncutil/limit.go by itself.       *)
(*                                                                         *)
(*   LimitRegion(ctx, limiter)   a region starts `ended`                   *)
(*   region.Start()              no-op unless ended; Acquire(ctx, 1) - may *)
(*                               fail when ctx is cancelled - then         *)
(*                               ended = false                             *)
(*   region.End()                no-op if ended; Release(1); ended = true  *)
(*   Go(ctx, limiter, fn, items) Start before spawning, `defer End` in the *)
(*                               goroutine; fn may End and Start again     *)
(*                               (copyGraph does, around its successors)   *)
(*                                                                         *)
(* `sem` is the number of permits taken from a semaphore of weight C.      *)
(* IndInv is an inductive invariant: TLC checks it over every reachable    *)
(* state for small constants; Apalache checks Init => IndInv and           *)
(* IndInv /\ Next => IndInv' from EVERY state that satisfies IndInv, that  *)
(* is for runs of any length (constants fixed by CInit).                   *)
(* The seeded change C04-m8 (ended cleared before a failing Acquire) is    *)
(* the action BadStartFail below: adding it to Next breaks IndInv.         *)
(***************************************************************************)
EXTENDS Integers, FiniteSets

CONSTANTS
  \* @type: Int;
  C,
  \* @type: Set(Int);
  Task

VARIABLES
  \* @type: Int;
  sem,
  \* @type: Int -> Str;
  pc,          \* "new" (region created) | "in" (inside the limited region) | "out" (ended, may start again) | "done" | "failed"
  \* @type: Int -> Bool;
  ended,       \* LimitedRegion.ended
  \* @type: Bool;
  cancelled

vars == <<sem, pc, ended, cancelled>>

CInit == C = 2 /\ Task = 1..4

Init ==
  /\ sem = 0 /\ cancelled = FALSE
  /\ pc = [t \in Task |-> "new"]
  /\ ended = [t \in Task |-> TRUE]

\* region.Start() succeeds: Acquire got a permit
StartOK(t) ==
  /\ pc[t] \in {"new", "out"} /\ ended[t] /\ sem < C
  /\ sem' = sem + 1
  /\ ended' = [ended EXCEPT ![t] = FALSE]
  /\ pc' = [pc EXCEPT ![t] = "in"]
  /\ UNCHANGED cancelled

\* region.Start() fails: the context is cancelled; `ended` stays true, the deferred End is a no-op
StartFail(t) ==
  /\ pc[t] \in {"new", "out"} /\ ended[t] /\ cancelled
  /\ pc' = [pc EXCEPT ![t] = "failed"]
  /\ UNCHANGED <<sem, ended, cancelled>>

\* region.End() inside fn (before waiting for successors)
End(t) ==
  /\ pc[t] = "in" /\ ~ended[t]
  /\ sem' = sem - 1
  /\ ended' = [ended EXCEPT ![t] = TRUE]
  /\ pc' = [pc EXCEPT ![t] = "out"]
  /\ UNCHANGED cancelled

\* fn returns; the deferred region.End() releases the permit if one is held
Finish(t) ==
  /\ pc[t] \in {"in", "out"}
  /\ sem' = IF ended[t] THEN sem ELSE sem - 1
  /\ ended' = [ended EXCEPT ![t] = TRUE]
  /\ pc' = [pc EXCEPT ![t] = "done"]
  /\ UNCHANGED cancelled

Cancel == ~cancelled /\ cancelled' = TRUE /\ UNCHANGED <<sem, pc, ended>>

Next == Cancel \/ \E t \in Task : StartOK(t) \/ StartFail(t) \/ End(t) \/ Finish(t)
Spec == Init /\ [][Next]_vars

\* ---------------------------------------------------------------- properties
Holders == {t \in Task : ~ended[t]}
TypeOK ==
  /\ sem \in 0..C
  /\ pc \in [Task -> {"new", "in", "out", "done", "failed"}]
  /\ ended \in [Task -> BOOLEAN]
  /\ cancelled \in BOOLEAN
\* permits = tasks inside the region, never more than C: the first clause of C04 on the limiter itself
PermitsAreHolders == sem = Cardinality(Holders)
Bounded == Cardinality({t \in Task : pc[t] = "in"}) <= C
InRegionHoldsPermit == \A t \in Task : (pc[t] = "in") = ~ended[t]
IndInv == TypeOK /\ PermitsAreHolders /\ InRegionHoldsPermit /\ Bounded

\* ---------------------------------------------------------------- the seeded defect
\* C04-m8: `ended` is cleared before the Acquire that then fails
BadStartFail(t) ==
  /\ pc[t] \in {"new", "out"} /\ ended[t] /\ cancelled
  /\ ended' = [ended EXCEPT ![t] = FALSE]
  /\ pc' = [pc EXCEPT ![t] = "out"]        \* the deferred End will "release" a permit that was never taken
  /\ UNCHANGED <<sem, cancelled>>
BadNext == Next \/ \E t \in Task : BadStartFail(t)
BadSpec == Init /\ [][BadNext]_vars
=============================================================================
