------------------------------ MODULE StoreMon ------------------------------
(***************************************************************************)
(* C06 C07 C08 C09: the built-in Targets as a content map plus a           *)
(* reference map, with the REQUIRED effect of every operation written      *)
(* from the property text (not from the implementation):                   *)
(*                                                                         *)
(*   content  set of nodes present         tags  reference -> node         *)
(*   indexed  nodes listed in the OCI index by digest (pushed manifests,   *)
(*            anything ever tagged) - what Resolve(<digest>) answers from   *)
(*   Pred(n)  = present manifests that link to n (whether or not n is       *)
(*            present)                                                      *)
(*   Delete   removes DeleteSet: the target and, with AutoGC, recursively   *)
(*            the untagged manifests whose subject is removed and the       *)
(*            untagged nodes that thereby lose their last predecessor       *)
(*   GC       keeps Live: everything reachable from a tagged node or from   *)
(*            an indexed manifest whose subject chain reaches Live          *)
(*                                                                         *)
(* The monitor replays a recorded history of the real store: for every     *)
(* operation it compares the result with the required one and advances     *)
(* the model; for every observation (live store, raw directory, the store  *)
(* reopened read-write / from an fs.FS / from a tar) it compares with the  *)
(* model state.  MCStore.tla checks the model itself exhaustively.         *)
(***************************************************************************)
EXTENDS StoreModel, Json

CONSTANTS TraceFile, OutFile
Trace == ndJsonDeserialize(TraceFile)

VARIABLES l, viol, done,
          gclo,     \* <<>>, or <<S>> after a GC until the next live observation: the index lists at least S (and at most
                    \* `indexed`); the observation then fixes `indexed` (see GCIndexLower in StoreModel.tla)
          par,      \* the operations of the concurrent tail in progress (<<>> outside one)
          lost,     \* the concurrent tail ended in a state no sequential order explains: the model state is unknown
          alt       \* nodes whose bytes also lie as a stray file under another digest algorithm's directory
                    \* (blobs/sha512/<hex>): unreachable blob files that GC has to sweep like any other
vars == <<l, g, content, tags, indexed, stray, alt, tagann, viol, done, gclo, par, lost>>

Rec == Trace[l]
NoG == [n |-> 0]

V(checks) == viol' = viol \cup {[t |-> Rec.t, i |-> Rec.i, inv |-> c[1]] : c \in {c \in checks : ~c[2]}}

Init == l = 1 /\ g = NoG /\ content = {} /\ tags = <<>> /\ indexed = {} /\ stray = {} /\ alt = {} /\ tagann = <<>> /\ viol = {} /\ done = FALSE
        /\ par = <<>> /\ lost = FALSE /\ gclo = <<>>

EvInit ==
  /\ Rec.e = "init"
  /\ g' = Rec /\ content' = {} /\ indexed' = {} /\ stray' = {} /\ alt' = {}
  /\ tags' = [r \in Rng(Rec.refs) |-> 0]
  /\ tagann' = [r \in Rng(Rec.refs) |-> <<"", "">>]
  /\ par' = <<>> /\ lost' = FALSE /\ gclo' = <<>>
  /\ UNCHANGED viol

\* mutating operations
EvOp ==
  /\ Rec.e = "op" /\ Rec.op \in {"push", "pushbad", "tag", "untag", "delete", "gc", "stray"}
  /\ LET x == Expect(Rec) IN
     /\ content' = x.content /\ stray' = x.stray /\ tags' = x.tags /\ indexed' = x.indexed
     /\ tagann' = IF Rec.op = "tag" /\ x.res = "ok" THEN [tagann EXCEPT ![Rec.ref] = <<Rec.ann, Rec.rn>>] ELSE tagann
     /\ V({<<"OpResult", Rec.res = x.res>>,
           <<"NoHang", Rec.res # "hang">>})
  /\ gclo' = IF Rec.op = "gc" /\ IsOci THEN <<GCIndexLower(Present, tags, indexed)>> ELSE gclo
  /\ alt' = IF Rec.op = "gc" /\ Rec.res = "ok" THEN {} ELSE alt
  /\ UNCHANGED <<g, par, lost>>

\* a stray blob file under another algorithm's directory: nothing a store answers changes
EvStrayAlt ==
  /\ Rec.e = "op" /\ Rec.op = "strayalt"
  /\ alt' = alt \cup {Rec.n}
  /\ UNCHANGED <<g, content, tags, indexed, stray, tagann, viol, gclo, par, lost>>

\* queries
EvQuery ==
  /\ Rec.e = "op" /\ Rec.op \in {"fetch", "exists", "resolve", "pred", "tags"}
  /\ V(CASE Rec.op = "fetch" -> {<<"FetchResult", IF Rec.n \in Present THEN Rec.res = "ok" /\ Rec.bytesok ELSE Rec.res = "notfound">>}
         [] Rec.op = "exists" -> {<<"ExistsResult", Rec.res = "ok" /\ (Rec.val <=> Rec.n \in Present)>>}
         [] Rec.op = "resolve" -> {<<"ResolveResult",
                 IF Rec.ref = "" THEN Rec.res # "ok"
                 ELSE IF Rec.ref \notin Refs \/ tags[Rec.ref] = 0 THEN Rec.res = "notfound"
                 ELSE Rec.res = "ok" /\ Rec.node = tags[Rec.ref]>>}
         [] Rec.op = "pred" -> {<<"PredExact", Rec.res = "ok" /\ Rng(Rec.list) = Pred(content, Rec.n)>>,
                                <<"PredNoDup", Len(Rec.list) = Cardinality(Rng(Rec.list))>>}
         [] Rec.op = "tags" -> {<<"TagsListing", /\ Rec.res = "ok" /\ Rec.list = Rec.sorted
                                                  /\ Rng(Rec.list) = {r \in Refs : tags[r] # 0 /\ r \in Rng(Rec.gt)}
                                                  /\ Len(Rec.list) = Cardinality(Rng(Rec.list))>>})
  /\ UNCHANGED <<g, content, tags, indexed, stray, alt, tagann, gclo, par, lost>>

\* an observation of a store (the live one or a reopened one): o = [exists, fetchok, tags, bydigest, pred, taglist]
TagPairs(T) == {<<r, T[r]>> : r \in {q \in Refs : T[q] # 0}}
ObsChecksIx(o, pfx, ix) ==
  {<<pfx \o "Exists", Rng(o.exists) = Present>>,
   <<pfx \o "Fetch", Rng(o.fetchok) = Present>>,
   <<pfx \o "Tags", {<<o.tags[i][1], o.tags[i][2]>> : i \in 1..Len(o.tags)} = TagPairs(tags)>>,
   <<pfx \o "TagAnnotations", \A i \in 1..Len(o.tags) : o.tags[i][1] \in Refs => o.tags[i][3] = tagann[o.tags[i][1]][1]>>,
   <<pfx \o "ExistsPlain", Rng(o.existsplain) = Present /\ Rng(o.fetchplain) = Present>>,
   \* the live store answers with the descriptor as it was tagged (tagann[ref][2]: the reference-name annotation the
   \* caller's own descriptor carried, normally none): the reference-name annotation of index.json (which a reopened
   \* store may show, C08) is not part of it
   <<pfx \o "NoRefNameLeak", pfx = "Live" => \A i \in 1..Len(o.tags) : o.tags[i][1] \in Refs => o.tags[i][4] = tagann[o.tags[i][1]][2]>>,
   <<pfx \o "Pred", \A n \in Nodes : Rng(o.pred[n]) = Pred(content, n)>>,
   <<pfx \o "PredNoDup", \A n \in Nodes : Len(o.pred[n]) = Cardinality(Rng(o.pred[n]))>>,
   <<pfx \o "ByDigest", IsOci => /\ Rng(o.byindex) = ix
                                 /\ Rng(o.byblob) = Present \ ix>>,
   \* resolving a digest gives a plain descriptor (digest, media type, size) however the layout was opened
   <<pfx \o "ByDigestPlain", Rng(o.notplain) = {}>>,
   <<pfx \o "TagList", IsOci => Rng(o.taglist) = {r \in Refs : tags[r] # 0}>>}

ObsChecks(o, pfx) == ObsChecksIx(o, pfx, indexed)
\* the first live observation after a GC fixes which of the permitted referrers the index lists
Binds == gclo # <<>> /\ Rec.mode = "live" /\ ~lost /\ IsOci
EvObs ==
  /\ Rec.e = "obs"
  /\ IF Binds
     THEN /\ V(ObsChecksIx(Rec.o, "Live", Rng(Rec.o.byindex))
               \cup {<<"LiveByDigest", gclo[1] \subseteq Rng(Rec.o.byindex) /\ Rng(Rec.o.byindex) \subseteq indexed>>})
          /\ indexed' = Rng(Rec.o.byindex) \cap indexed
          /\ gclo' = <<>>
     ELSE /\ V(IF lost THEN {} ELSE ObsChecks(Rec.o, IF Rec.mode = "live" THEN "Live" ELSE "Reopen"))
          /\ UNCHANGED <<indexed, gclo>>
  /\ UNCHANGED <<g, content, tags, stray, alt, tagann, par, lost>>

\* the raw directory of an OCI layout
EvDisk ==
  /\ Rec.e = "disk"
  \* validity of the directory as an image layout does not depend on the model state
  /\ V({<<"DiskLayoutParses", Rec.layoutok /\ Rec.indexok>>,
        <<"DiskBlobNames", Rec.badblobs = 0>>,
        <<"DiskNamedEntriesResolve", Rec.danglingnamed = 0>>}
       \cup (IF lost THEN {} ELSE
       {<<"DiskBlobFiles", Rng(Rec.blobs) = Present>>,
        <<"DiskAltBlobFiles", Rng(Rec.altblobs) = alt>>,
        <<"DiskIndexTags", ~Rec.saved \/ {<<Rec.entries[i][1], Rec.entries[i][2]>> : i \in {j \in 1..Len(Rec.entries) : Rec.entries[j][1] # ""}}
                               = TagPairs(tags)>>}))
  /\ UNCHANGED <<g, content, tags, indexed, stray, alt, tagann, gclo, par, lost>>

EvReopenErr ==
  /\ Rec.e = "reopenerr"
  /\ V({<<"ReopenOpens", FALSE>>})
  /\ UNCHANGED <<g, content, tags, indexed, stray, alt, tagann, gclo, par, lost>>

\* ----- the concurrent tail (C06, last clause): "after concurrent operations quiesce the state is the one some
\* sequential order of the same operations would produce, and no operation ever returned bytes that do not match
\* its descriptor".  The operations are collected; at the end every order of them is run through the model from
\* the state before the tail, and the quiescent observation of the live store must equal one of the final states.
Cur == [content |-> content, tags |-> tags, indexed |-> indexed, stray |-> stray, tagann |-> tagann]
Apply(st, r) ==
  LET x == ExpectOn(st.content, st.tags, st.indexed, st.stray, r) IN
  [content |-> x.content, tags |-> x.tags, indexed |-> x.indexed, stray |-> x.stray,
   tagann |-> IF r.op = "tag" /\ x.res = "ok" THEN [st.tagann EXCEPT ![r.ref] = <<r.ann, r.rn>>] ELSE st.tagann]
RECURSIVE Finals(_, _)
Finals(st, K) == IF K = {} THEN {st} ELSE UNION {Finals(Apply(st, par[k]), K \ {k}) : k \in K}
\* In the memory store the content map is one atomic map: the results of the concurrent Push and Tag calls themselves
\* must be those of one order too ("pushing content that is already present is refused").  The OCI layout and the file
\* store are not held to this: there two racing pushes of one blob may both report success.
IsMut(r) == r.op \in {"push", "pushbad", "tag"}
RECURSIVE Explains(_, _)
Explains(st, K) ==     \* some order of the operations K from state st returns what the calls returned
  IF K = {} THEN TRUE
  ELSE \E k \in K : LET x == ExpectOn(st.content, st.tags, st.indexed, st.stray, par[k]) IN
                      (IsMut(par[k]) => par[k].res = x.res) /\ Explains(Apply(st, par[k]), K \ {k})
\* the live observation o is the one of state f
Matches(o, f) ==
  LET pres == f.content \cup f.stray IN
  /\ Rng(o.exists) = pres /\ Rng(o.fetchok) = pres /\ Rng(o.existsplain) = pres /\ Rng(o.fetchplain) = pres
  /\ {<<o.tags[i][1], o.tags[i][2]>> : i \in 1..Len(o.tags)} = {<<r, f.tags[r]>> : r \in {q \in Refs : f.tags[q] # 0}}
  /\ \A i \in 1..Len(o.tags) : o.tags[i][1] \in Refs => o.tags[i][3] = f.tagann[o.tags[i][1]][1]
  /\ \A n \in Nodes : Rng(o.pred[n]) = Pred(f.content, n)
  /\ (IsOci => /\ Rng(o.byblob) = pres \ Rng(o.byindex)
                /\ IF \E k \in 1..Len(par) : par[k].op = "gc"      \* a GC in the tail: the index within its bounds
                   THEN {f.tags[r] : r \in {q \in Refs : f.tags[q] # 0}} \subseteq Rng(o.byindex) /\ Rng(o.byindex) \subseteq f.indexed
                   ELSE Rng(o.byindex) = f.indexed)

EvPar == Rec.e = "par" /\ par' = <<>> /\ UNCHANGED <<g, content, tags, indexed, stray, alt, tagann, viol, lost, gclo>>
EvPop ==
  /\ Rec.e = "pop"
  /\ par' = Append(par, Rec)
  /\ V({<<"ConcurrentNoHang", Rec.res # "hang">>,
        <<"ConcurrentFetchMatches", (Rec.op = "fetch" /\ Rec.res = "ok") => Rec.bytesok>>})
  /\ UNCHANGED <<g, content, tags, indexed, stray, alt, tagann, lost, gclo>>
EvParHang == Rec.e = "parhang" /\ V({<<"ConcurrentNoHang", FALSE>>}) /\ lost' = TRUE
             /\ UNCHANGED <<g, content, tags, indexed, stray, alt, tagann, par, gclo>>
EvParEnd ==
  /\ Rec.e = "parend"
  /\ LET good == {f \in Finals(Cur, 1..Len(par)) : Matches(Trace[l + 1].o, f)} IN
     IF good # {}
     THEN LET f == CHOOSE x \in good : TRUE IN
          /\ content' = f.content /\ tags' = f.tags /\ stray' = f.stray /\ tagann' = f.tagann
          /\ indexed' = IF IsOci THEN Rng(Trace[l + 1].o.byindex) \cap f.indexed ELSE f.indexed
          /\ V({<<"ConcurrentResultsExplained", g.kind # "memory" \/ Explains(Cur, 1..Len(par))>>})
          /\ UNCHANGED lost
     ELSE /\ V({<<"ConcurrentSerializable", FALSE>>}) /\ lost' = TRUE
          /\ UNCHANGED <<content, tags, indexed, stray, tagann>>
  /\ alt' = IF \E k \in 1..Len(par) : par[k].op = "gc" /\ par[k].res = "ok" THEN {} ELSE alt
  /\ par' = <<>>
  /\ UNCHANGED <<g, gclo>>

\* the crafted twin layout (the bytes of a manifest referenced as a manifest and as an opaque layer below one root,
\* reopened after GC): the manifest's config and layer have exactly the manifest as predecessor
EvTwin ==
  /\ Rec.e = "twin"
  /\ V({<<"ReopenOpens", Rec.opened>>,
        <<"ReopenPredTwin", Rec.opened => (Rec.predcfg = <<Rec.want>> /\ Rec.predlayer = <<Rec.want>>)>>})
  /\ UNCHANGED <<g, content, tags, indexed, stray, alt, tagann, gclo, par, lost>>

Step ==
  /\ l <= Len(Trace)
  /\ l' = l + 1
  /\ done' = FALSE
  /\ \/ EvTwin \/ EvInit \/ EvOp \/ EvStrayAlt \/ EvQuery \/ EvObs \/ EvDisk \/ EvReopenErr \/ EvPar \/ EvPop \/ EvParHang \/ EvParEnd

Finish ==
  /\ l = Len(Trace) + 1 /\ ~done
  /\ done' = TRUE
  /\ JsonSerialize(OutFile, [consumed |-> l - 1, viol |-> viol])
  /\ UNCHANGED <<l, g, content, tags, indexed, stray, alt, tagann, viol, gclo, par, lost>>

Next == Step \/ Finish
Spec == Init /\ [][Next]_vars
Consumed == TLCGet("stats").diameter = Len(Trace) + 2
=============================================================================
