------------------------------ MODULE TarJudge ------------------------------
(***************************************************************************)
(* C11 judge: one record per archive / named-blob sequence that TLC        *)
(* enumerated from TarExtract.tla and the driver replayed into a real      *)
(* file store in a sandbox.                                                *)
(* L3  OutsideUnchanged: nothing outside of the working directory was      *)
(*     created, changed, re-moded or deleted; EscapeRejected: an entry or  *)
(*     title that lexically resolves outside was answered with an error.   *)
(* L2  the resulting tree and the error outcome equal the model's.         *)
(***************************************************************************)
EXTENDS PathLex, Json

CONSTANTS TraceFile, OutFile
Trace == ndJsonDeserialize(TraceFile)
VARIABLES l, viol, nonconf, done
vars == <<l, viol, nonconf, done>>
Rec == Trace[l]
Rng(s) == {s[i] : i \in 1..Len(s)}

W == <<"w">>
Base == <<"w", "d">>

\* does the entry's own name lexically leave its base?
LexEscapes(e) ==
  IF e.k \in {"named", "restore"}
  THEN LET target == IF e.nabs THEN Clean(e.name, TRUE) ELSE Clean(W \o e.name, TRUE)
           r == Rel(W, target)
       IN ~r.ok \/ (r.p # <<>> /\ r.p[1] = "..")
  ELSE LET base == IF e.nabs THEN Base ELSE <<"d">>
           r == Rel(base, Clean(e.name, e.nabs))
           cp == IF r.ok THEN Clean(r.p, FALSE) ELSE <<>>
       IN ~r.ok \/ (cp # <<>> /\ cp[1] = "..")

ObjSet(s) == {<<s[i].p, s[i].t, s[i].tgt, s[i].tabs, s[i].new>> : i \in 1..Len(s)}

Checks(r) ==
  {<<"OutsideUnchanged", r.outside = <<>> >>,
   <<"EscapeRejected", (r.hist # <<>> /\ LexEscapes(r.hist[Len(r.hist)])) => r.lasterr>>}

\* follow-up entries appended by the harness to a TLC-enumerated tree carry no model prediction
\* The model rejects some entries the code accepts harmlessly (it does not create missing parent directories);
\* that combination is left to the L3 judgement.
Conforms(r) == r.nomodel \/ (r.failed /\ ~r.err) \/ (ObjSet(r.got) = ObjSet(r.exp) /\ (r.err <=> r.failed))

Init == l = 1 /\ viol = {} /\ nonconf = {} /\ done = FALSE
Step ==
  /\ l <= Len(Trace)
  /\ l' = l + 1
  /\ done' = FALSE
  /\ viol' = viol \cup {[t |-> Rec.t, i |-> Rec.i, inv |-> k[1]] : k \in {k \in Checks(Rec) : ~k[2]}}
  /\ nonconf' = IF Conforms(Rec) THEN nonconf ELSE nonconf \cup {[t |-> Rec.t, i |-> Rec.i, inv |-> "TreeDiffers"]}
Finish ==
  /\ l = Len(Trace) + 1 /\ ~done
  /\ done' = TRUE
  /\ JsonSerialize(OutFile, [consumed |-> l - 1, viol |-> viol, nonconf |-> nonconf])
  /\ UNCHANGED <<l, viol, nonconf>>
Next == Step \/ Finish
Spec == Init /\ [][Next]_vars
Consumed == TLCGet("stats").diameter = Len(Trace) + 2
=============================================================================
