------------------------------ MODULE MCVerify ------------------------------
(* L1 for C05: one state per case of VerifyIngest.tla; the transcribed      *)
(* algorithm meets the requirement on every case.                           *)
EXTENDS VerifyIngest
VARIABLE c
Init == c \in Cases
Next == UNCHANGED c
Spec == Init /\ [][Next]_c

OnlyMatchingReadAll == AlgReadAll(c).res = "ok" => (~MustFail(c) /\ ~Trailing(c) /\ AlgReadAll(c).got = c.size)
OnlyMatchingCopy == AlgCopyFixed(c).res = "ok" => (~MustFail(c) /\ ~Trailing(c) /\ AlgCopyFixed(c).got = c.size)
GoodAccepted == Good(c) => (AlgReadAll(c).res = "ok" /\ AlgCopyFixed(c).res = "ok")
=============================================================================
