------------------------------ MODULE PathLex ------------------------------
(* Go's lexical path functions on segment lists (filepath.Clean / Rel / Dir), shared by TarExtract.tla and TarJudge.tla. *)
EXTENDS Integers, Sequences, FiniteSets, TLC

\* ---------- lexical functions (filepath.Clean/Join/Rel/Dir) on [abs, segs] ----------
RECURSIVE CleanSegs(_, _, _)
CleanSegs(segs, acc, abs) ==
  IF segs = <<>> THEN acc
  ELSE LET h == Head(segs) t == Tail(segs) IN
       IF h = "." THEN CleanSegs(t, acc, abs)
       ELSE IF h = ".." THEN
            IF acc # <<>> /\ acc[Len(acc)] # ".." THEN CleanSegs(t, SubSeq(acc, 1, Len(acc) - 1), abs)
            ELSE IF abs THEN CleanSegs(t, acc, abs)
            ELSE CleanSegs(t, Append(acc, ".."), abs)
       ELSE CleanSegs(t, Append(acc, h), abs)
Clean(segs, abs) == CleanSegs(segs, <<>>, abs)

RECURSIVE CommonLen(_, _)
CommonLen(a, b) == IF a # <<>> /\ b # <<>> /\ Head(a) = Head(b) THEN 1 + CommonLen(Tail(a), Tail(b)) ELSE 0
Ups(n) == [i \in 1..n |-> ".."]
\* filepath.Rel(base, targ) for two cleaned paths of the same kind; error if base has leading ".." beyond common
Rel(base, targ) ==
  LET k == CommonLen(base, targ)
      restB == SubSeq(base, k + 1, Len(base))
      restT == SubSeq(targ, k + 1, Len(targ))
  IN IF \E i \in 1..Len(restB) : restB[i] = ".." THEN [ok |-> FALSE, p |-> <<>>]
     ELSE [ok |-> TRUE, p |-> Ups(Len(restB)) \o restT]
DirOf(p) == IF Len(p) <= 1 THEN <<>> ELSE SubSeq(p, 1, Len(p) - 1)   \* <<>> stands for "."

=============================================================================
