----------------------------- MODULE PagingCases -----------------------------
(* Direction A: emits the case space of Paging.tla for the Go driver. *)
EXTENDS Paging, Json, SequencesExt
CONSTANT OutFile
ASSUME JsonSerialize(OutFile, SetToSeq(Cases))
=============================================================================
