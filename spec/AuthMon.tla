------------------------------- MODULE AuthMon -------------------------------
(***************************************************************************)
(* C16 monitor.  The trace is what the innermost RoundTripper saw while    *)
(* the real auth.Client served scripted request histories: for every       *)
(* outgoing request its destination host, whether it went to a registry or *)
(* a token endpoint, which known secrets it carried (passwords, refresh    *)
(* tokens, access tokens, issued bearer tokens, also inside Basic          *)
(* material) and the scope set of an issued token it carried.              *)
(*  NoLeak     a secret of host h goes to h, or (password / refresh token) *)
(*             to the token endpoint on the realm h advertised, for a      *)
(*             token request naming service h (and, where the realm URL    *)
(*             is per registry, to the realm URL h advertised); a service  *)
(*             name is the challenger's free choice and proves nothing     *)
(*  Bounded    at most 3 sends to the registry and 1 token fetch per call  *)
(*  Succeeds   with valid credentials the call ends with a non-401 answer  *)
(*  Coalesce   identical concurrent calls cause one token fetch            *)
(*  ReuseKey   an issued token is attached only for its own host and, with *)
(*             the scope-keyed cache, only for the canonical scope set of  *)
(*             the call (hints, plus the challenge after a 401)            *)
(*  Canon      CleanScopes is order-insensitive, duplicate-free and        *)
(*             wildcard-absorbing (Canon below), on direct calls too       *)
(***************************************************************************)
EXTENDS Integers, Sequences, FiniteSets, TLC, Json

CONSTANTS TraceFile, OutFile
Trace == ndJsonDeserialize(TraceFile)

VARIABLES l, cfg, realm, dos, nreg, ntok, phaseTok, challenged, viol, done
vars == <<l, cfg, realm, dos, nreg, ntok, phaseTok, challenged, viol, done>>
Rec == Trace[l]
Rng(s) == {s[i] : i \in 1..Len(s)}

\* canonical form of a scope list: per (type, name) the union of the actions, "*" absorbs the others
Keys(ss) == {<<s.type, s.name>> : s \in Rng(ss)}
ActionsOf(ss, k) == UNION {Rng(s.actions) : s \in {x \in Rng(ss) : x.type = k[1] /\ x.name = k[2]}} \ {""}
Canon(ss) == {[type |-> k[1], name |-> k[2], actions |-> IF "*" \in ActionsOf(ss, k) THEN {"*"} ELSE ActionsOf(ss, k)] :
                k \in {q \in Keys(ss) : ActionsOf(ss, q) # {}}}

RealmOf(h) == IF \E i \in 1..Len(realm) : realm[i][1] = h THEN (CHOOSE p \in Rng(realm) : p[1] = h)[2] ELSE ""
Required(d) == <<[type |-> "repository", name |-> d.repo,
                  actions |-> IF d.method \in {"GET", "HEAD"} THEN <<"pull">> ELSE <<"pull", "push">>]>>

V(checks) == viol' = viol \cup {[t |-> Rec.t, i |-> Rec.i, inv |-> c[1]] : c \in {c \in checks : ~c[2]}}

Init == /\ l = 1 /\ cfg = [cache |-> ""] /\ realm = <<>> /\ dos = <<>> /\ nreg = <<>> /\ ntok = <<>> /\ phaseTok = 0
        /\ challenged = {} /\ viol = {} /\ done = FALSE

EvInit ==
  /\ Rec.e = "init"
  /\ cfg' = Rec /\ realm' = Rec.realms /\ dos' = <<>> /\ nreg' = <<>> /\ ntok' = <<>> /\ phaseTok' = 0 /\ challenged' = {}
  /\ UNCHANGED viol
EvChange == Rec.e = "change" /\ realm' = Rec.realms /\ UNCHANGED <<cfg, dos, nreg, ntok, phaseTok, challenged, viol>>

DoOf(id) == CHOOSE d \in Rng(dos) : d.id = id
EvDo ==
  /\ Rec.e = "do"
  /\ dos' = Append(dos, Rec)
  /\ nreg' = [i \in DOMAIN nreg \cup {Rec.id} |-> IF i = Rec.id THEN 0 ELSE nreg[i]]
  /\ ntok' = [i \in DOMAIN ntok \cup {Rec.id} |-> IF i = Rec.id THEN 0 ELSE ntok[i]]
  /\ phaseTok' = IF dos = <<>> \/ dos[Len(dos)].phase # Rec.phase THEN 0 ELSE phaseTok
  /\ UNCHANGED <<cfg, realm, challenged, viol>>

SecretOK(s, r) ==
  LET owner == s[1]  kind == s[2] IN
  IF kind \in {"token", "access"} THEN r.dest = owner /\ r.kind = "registry"
  ELSE \/ (r.dest = owner /\ r.kind = "registry")
       \* (tokfor: the registry a per-registry realm URL belongs to, "" when the realm URL does not say)
       \/ (r.kind = "token" /\ r.dest = RealmOf(owner) /\ r.service = owner /\ r.tokfor \in {"", owner})

EvSend ==
  /\ Rec.e = "send"
  /\ LET d == DoOf(Rec.id)
         first == nreg[Rec.id] = 0
         wantScopes == IF Rec.id \in challenged THEN Canon(d.hints \o Required(d)) ELSE Canon(d.hints)
     IN /\ nreg' = IF Rec.kind = "registry" THEN [nreg EXCEPT ![Rec.id] = @ + 1] ELSE nreg
        /\ ntok' = IF Rec.kind = "token" THEN [ntok EXCEPT ![Rec.id] = @ + 1] ELSE ntok
        /\ phaseTok' = IF Rec.kind = "token" THEN phaseTok + 1 ELSE phaseTok
        /\ V({<<"NoLeak", \A s \in Rng(Rec.secrets) : SecretOK(s, Rec)>>,
              <<"RegistryRequestsGoHome", Rec.kind = "registry" => Rec.dest = d.host>>,
              <<"TokenOnlyForItsHost", Rec.tokhost # "" => Rec.tokhost = Rec.dest>>,
              \* a cached token is reused only under the scheme it was obtained for: what goes out as a Bearer token to a
              \* registry is never Basic material (user name and password), whatever that registry challenged with before
              <<"SchemeKept", (Rec.kind = "registry" /\ Rec.authscheme = "bearer") => \A s \in Rng(Rec.secrets) : s[2] # "password">>,
              <<"ReuseKeyScopes", (Rec.tokhost # "" /\ cfg.cache = "shared" /\ Rec.kind = "registry") => Canon(Rec.tokscopes) = wantScopes>>,
              <<"TokenRequestScopes", (Rec.kind = "token" /\ cfg.cache # "single") => Canon(Rec.asked) = Canon(d.hints \o Required(d))>>,
              <<"Coalesce", (Rec.kind = "token" /\ cfg.coalesce /\ d.conc > 1 /\ cfg.cache \in {"shared", "single"}) => phaseTok = 0>>})
  /\ UNCHANGED <<cfg, realm, dos, challenged>>

EvResp ==
  /\ Rec.e = "resp"
  /\ challenged' = IF Rec.kind = "registry" /\ Rec.status = 401 THEN challenged \cup {Rec.id} ELSE challenged
  \* a token fetch given up at its requester's deadline (status 0) is taken over by a waiter: it no longer counts
  /\ phaseTok' = IF Rec.kind = "token" /\ Rec.status = 0 THEN phaseTok - 1 ELSE phaseTok
  /\ UNCHANGED <<cfg, realm, dos, nreg, ntok, viol>>

EvRet ==
  /\ Rec.e = "ret"
  /\ V({<<"BoundedRegistrySends", nreg[Rec.id] <= 3>>,
        <<"BoundedTokenFetches", ntok[Rec.id] <= 1>>,
        \* (a request whose own context deadline passed while it waited is entitled to its error)
        <<"Succeeds", Rec.deadline \/ (~Rec.err /\ Rec.status # 401)>>})
  /\ UNCHANGED <<cfg, realm, dos, nreg, ntok, phaseTok, challenged>>

EvHang == Rec.e = "hang" /\ V({<<"NoHang", FALSE>>}) /\ UNCHANGED <<cfg, realm, dos, nreg, ntok, phaseTok, challenged>>

EvCanon ==
  /\ Rec.e = "canon"
  /\ V({<<"CanonSemantics", Canon(Rec.out) = Canon(Rec.in)>>,
        <<"CanonDuplicateFree", Cardinality(Keys(Rec.out)) = Len(Rec.out)>>,
        <<"CanonWildcardAbsorbs", \A s \in Rng(Rec.out) : "*" \in Rng(s.actions) => Len(s.actions) = 1>>,
        <<"CanonSorted", Rec.issorted>>})
  /\ UNCHANGED <<cfg, realm, dos, nreg, ntok, phaseTok, challenged>>

Step ==
  /\ l <= Len(Trace)
  /\ l' = l + 1
  /\ done' = FALSE
  /\ \/ EvInit \/ EvChange \/ EvDo \/ EvSend \/ EvResp \/ EvRet \/ EvHang \/ EvCanon
Finish ==
  /\ l = Len(Trace) + 1 /\ ~done
  /\ done' = TRUE
  /\ JsonSerialize(OutFile, [consumed |-> l - 1, viol |-> viol])
  /\ UNCHANGED <<l, cfg, realm, dos, nreg, ntok, phaseTok, challenged, viol>>
Next == Step \/ Finish
Spec == Init /\ [][Next]_vars
Consumed == TLCGet("stats").diameter = Len(Trace) + 2
=============================================================================
