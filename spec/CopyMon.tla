------------------------------ MODULE CopyMon ------------------------------
(***************************************************************************)
(* L3 monitor for the copy family (C01 C02 C03 C04).                       *)
(*                                                                         *)
(* The next-state relation consumes one recorded event of the real         *)
(* library per step and admits ANY well-formed observation: it only        *)
(* applies the environment's semantics (what a completed Push does to the  *)
(* destination, what begins and ends an operation).  The properties are    *)
(* evaluated on every state of every trace; a failed judgement is added to *)
(* `viol` as <<trace, line, invariant>> instead of stopping TLC, so that   *)
(* one pass reports every violation and the runner can match them against  *)
(* the known-findings file.  Nothing here depends on how copy.go works.    *)
(***************************************************************************)
EXTENDS Integers, Sequences, FiniteSets, TLC, Json

CONSTANTS TraceFile, OutFile

Trace == ndJsonDeserialize(TraceFile)

VARIABLES l,        \* next line of Trace
          g,        \* the scenario (the init record of the current trace)
          dst,      \* nodes present in the destination (as last read from the underlying store)
          srcIn,    \* source reads in flight
          dstIn,    \* destination operations in flight
          nPush,    \* [node -> number of pushes begun in this call]
          nFetch,   \* [node -> number of source reads of this node begun in this call]
          cbs,      \* [node -> sequence of callback kinds seen in this call]
          pushed,   \* nodes whose push completed successfully in this call
          cbFail,   \* a callback returned an error in this call
          ret,      \* the "ret" record of the call (or NoRet)
          phase,    \* "idle" | "main" | "retry"
          viol,     \* set of [t, i, inv]
          done

vars == <<l, g, dst, srcIn, dstIn, nPush, nFetch, cbs, pushed, cbFail, ret, phase, viol, done>>

Rng(s) == {s[i] : i \in 1..Len(s)}
NoRet == [e |-> "none"]
NoG == [n |-> 0]

Nodes == 1..g.n
SuccNF(n) == Rng(g.succ[n])
SuccAll(n) == Rng(g.all[n])
IsForeign(n) == g.kinds[n] = "foreign"

Closed(S) == \A n \in S : SuccNF(n) \subseteq S

RECURSIVE ReachFrom(_, _)
ReachFrom(S, seen) ==
  IF S \subseteq seen THEN seen
  ELSE ReachFrom(UNION {SuccNF(n) : n \in S}, seen \cup S)
ReachNF(n) == ReachFrom({n}, {})
ReachSet(S) == ReachFrom(S, {})

\* predecessor relation of a store that indexes every successor link of every
\* manifest it holds (foreign layers are not in the source, manifests that
\* list them are)
Pred(n) == {m \in Nodes : ~IsForeign(m) /\ n \in SuccAll(m)}

\* the source's own predecessor relation: a remote repository lists the referrers of a node (manifests whose subject it
\* is), every other source lists every manifest that links to it
PredRel(n) == IF g.predsubj THEN {m \in Nodes : g.subj[m] = n} ELSE Pred(n)
\* with an artifact-type or annotation filter a predecessor is followed exactly when it satisfies the filter
\* (g.pass[m], all TRUE without a filter)
PredF(n) == {m \in PredRel(n) : g.pass[m]}

RECURSIVE UpTo(_, _, _)
\* nodes reachable from S by at most d (followed) predecessor steps (d < 0: unbounded)
UpTo(S, d, seen) ==
  IF d = 0 \/ S \subseteq seen THEN seen \cup S
  ELSE UpTo(UNION {PredF(n) : n \in S}, d - 1, seen \cup S)

\* nodes with the same bytes as a node of S: a destination keyed by digest
\* holds them as soon as it holds one of them
Same(S) == UNION {Rng(g.same[n]) : n \in S}

ExpectedRoot == IF g.maproot # 0 THEN g.maproot ELSE g.root
IsExt == g.api \in {"extcopygraph", "extcopy"}
IsTagging == g.api \in {"copy", "extcopy"}

Rec == Trace[l]
Zero == [n \in Nodes |-> 0]

\* V(checks): checks is a set of <<name, holds>>; record the ones that fail
V(checks) == viol' = viol \cup {[t |-> Rec.t, i |-> Rec.i, inv |-> c[1]] : c \in {c \in checks : ~c[2]}}

Init ==
  /\ l = 1 /\ g = NoG /\ dst = {} /\ srcIn = 0 /\ dstIn = 0
  /\ nPush = <<>> /\ nFetch = <<>> /\ cbs = <<>> /\ pushed = {} /\ cbFail = FALSE
  /\ ret = NoRet /\ phase = "idle" /\ viol = {} /\ done = FALSE

EvInit ==
  /\ Rec.e = "init"
  /\ g' = Rec
  /\ dst' = Rng(Rec.dst0)
  /\ srcIn' = 0 /\ dstIn' = 0
  /\ nPush' = [n \in 1..Rec.n |-> 0] /\ nFetch' = [n \in 1..Rec.n |-> 0]
  /\ cbs' = [n \in 1..Rec.n |-> <<>>]
  /\ pushed' = {} /\ cbFail' = FALSE /\ ret' = NoRet /\ phase' = "main"
  /\ UNCHANGED viol

SrcBegin ==
  /\ Rec.e \in {"fetchB", "predB", "sresolveB"}
  /\ srcIn' = srcIn + 1
  /\ nFetch' = IF Rec.e = "fetchB" /\ Rec.n # 0 THEN [nFetch EXCEPT ![Rec.n] = @ + 1] ELSE nFetch
  /\ V({<<"InFlightSrc", srcIn + 1 <= g.c>>,
        <<"BlobFetchOnce", Rec.e = "fetchB" /\ Rec.n # 0 /\ ~Rec.man => nFetch[Rec.n] = 0>>,
        <<"KnownNode", Rec.e = "fetchB" => Rec.n # 0>>})
  /\ UNCHANGED <<g, dst, dstIn, nPush, cbs, pushed, cbFail, ret, phase>>

\* a source read is in flight from the Fetch call until the stream it returned is closed (fetchC); a Fetch that
\* returned an error, a predecessor listing and a resolve end when they return
SrcEnd ==
  /\ Rec.e \in {"fetchE", "predE", "sresolveE", "fetchC"}
  /\ srcIn' = IF Rec.e = "fetchE" /\ ~Rec.err THEN srcIn ELSE srcIn - 1
  /\ UNCHANGED <<g, dst, dstIn, nPush, nFetch, cbs, pushed, cbFail, ret, phase, viol>>

DstBegin ==
  /\ Rec.e \in {"existsB", "pushB", "tagB", "mountB"}
  /\ dstIn' = dstIn + 1
  /\ nPush' = IF Rec.e = "pushB" /\ Rec.n # 0 THEN [nPush EXCEPT ![Rec.n] = @ + 1] ELSE nPush
  /\ V({<<"InFlightDst", dstIn + 1 <= g.c>>,
        <<"PushOnce", Rec.e = "pushB" /\ Rec.n # 0 => nPush[Rec.n] = 0>>,
        <<"KnownNode", Rec.n # 0>>})
  /\ UNCHANGED <<g, dst, srcIn, nFetch, cbs, pushed, cbFail, ret, phase>>

ExistsEnd ==
  /\ Rec.e \in {"existsE", "tagE"}
  /\ dstIn' = dstIn - 1
  /\ UNCHANGED <<g, dst, srcIn, nPush, nFetch, cbs, pushed, cbFail, ret, phase, viol>>

\* a push returned: the event carries the node set of the underlying
\* destination read right after it
\* (a mount attempt - registry.Mounter with CopyGraphOptions.MountFrom - is a destination operation that makes the
\* node present like a push; several source repositories may be tried for one node)
PushEnd ==
  /\ Rec.e \in {"pushE", "mountE"}
  /\ dstIn' = dstIn - 1
  /\ dst' = Rng(Rec.has)
  /\ pushed' = IF Rec.r = "ok" /\ Rec.n # 0 /\ Rec.n \notin dst THEN pushed \cup {Rec.n} ELSE pushed
  /\ V({<<"ClosedAtPush", Closed(Rng(Rec.has))>>,
        <<"PushAfterSucc", Rec.n # 0 /\ Rec.n \in Rng(Rec.has) => SuccNF(Rec.n) \subseteq Rng(Rec.has)>>,
        <<"DstMonotone", dst \subseteq Rng(Rec.has)>>})
  /\ UNCHANGED <<g, srcIn, nPush, nFetch, cbs, cbFail, ret, phase>>

Terminal(k) == k \in {"post", "skipped", "mounted"}
HasTerminal(n) == \E j \in 1..Len(cbs[n]) : Terminal(cbs[n][j])

Callback ==
  /\ Rec.e = "cb"
  /\ LET n == Rec.n  k == Rec.k  sofar == IF n = 0 THEN <<>> ELSE cbs[n] IN
     /\ cbs' = IF n = 0 THEN cbs ELSE [cbs EXCEPT ![n] = Append(@, k)]
     /\ cbFail' = (cbFail \/ Rec.err)
     /\ V({<<"KnownNode", n # 0>>,
           <<"CbPreOnce", k = "pre" => sofar = <<>> >>,
           <<"CbPostAfterPre", k = "post" => sofar = <<"pre">> >>,
           <<"CbMountedGrammar", k = "mounted" => sofar \in {<<>>, <<"pre">>} >>,
           <<"CbMountedPresent", k = "mounted" /\ n # 0 => n \in dst>>,
           <<"CbSkippedAlone", k = "skipped" => sofar = <<>> >>,
           <<"CbSkippedPresent", k = "skipped" /\ n # 0 => n \in dst>>,
           <<"CbPostAfterSuccessors", k = "post" /\ n # 0 => \A m \in SuccNF(n) : HasTerminal(m)>>,
           <<"CbPostAfterPush", k = "post" /\ n # 0 => n \in dst>>})
  /\ UNCHANGED <<g, dst, srcIn, dstIn, nPush, nFetch, pushed, ret, phase>>

Return ==
  /\ Rec.e = "ret"
  /\ ret' = Rec
  \* (Rec.soft: source streams that carried bytes beyond the described size - the call may fail or not, depending on
  \* whether the destination reads that far; what it leaves behind is judged at `final` either way)
  /\ V({<<"FaultSurfaces", Rec.fired > 0 => Rec.err>>,
        <<"NoSpuriousError", (Rec.fired = 0 /\ Rec.soft = 0 /\ ~Rec.cancelled) => ~Rec.err>>,
        <<"CallbackErrorReturned", cbFail /\ Rec.fired = 1 /\ Rec.soft = 0 => Rec.cberr>>,
        <<"Quiescent", srcIn = 0 /\ dstIn = 0>>,
        <<"TransferredNotified", ~Rec.err => \A n \in pushed : cbs[n] \in {<<"pre", "post">>, <<"mounted">>} >>,
        <<"ReturnedRoot", ~Rec.err /\ IsTagging => Rec.root = (IF IsExt THEN g.root ELSE ExpectedRoot)>>})
  /\ UNCHANGED <<g, dst, srcIn, dstIn, nPush, nFetch, cbs, pushed, cbFail, phase>>

Hang ==
  /\ Rec.e = "hang"
  /\ V({<<"NoHang", FALSE>>})
  /\ UNCHANGED <<g, dst, srcIn, dstIn, nPush, nFetch, cbs, pushed, cbFail, ret, phase>>

\* the process died in the middle of this call because a goroutine of the library panicked; the event is appended by
\* the check after it reproduced the crash on a replay of the scenario.  The limiter's own complaint that a permit was
\* released that was not held is C04's accounting (permits = running tasks) broken; any other panic is not judged here.
Panic ==
  /\ Rec.e = "panic"
  /\ V({<<"PermitReleasedOnlyIfHeld", Rec.what # "semaphore: released more than held">>})
  /\ UNCHANGED <<g, dst, srcIn, dstIn, nPush, nFetch, cbs, pushed, cbFail, ret, phase>>

RetryBegin ==
  /\ Rec.e = "retryB"
  /\ phase' = "retry"
  /\ srcIn' = 0 /\ dstIn' = 0 /\ nPush' = Zero /\ nFetch' = Zero
  /\ cbs' = [n \in Nodes |-> <<>>] /\ pushed' = {} /\ cbFail' = FALSE
  /\ UNCHANGED <<g, dst, ret, viol>>

\* (Rec.mayfail: the destination cannot hold the graph at all - a file store and two different blobs under one name -
\* so neither the call nor its repetition has to succeed)
RetryEnd ==
  /\ Rec.e = "retry"
  /\ V({<<"RetrySucceeds", Rec.mayfail \/ ~Rec.err>>})
  /\ ret' = Rec                       \* what `final` is judged against: the outcome of the repetition
  /\ UNCHANGED <<g, dst, srcIn, dstIn, nPush, nFetch, cbs, pushed, cbFail, phase>>

\* expectations of the extended copy (C03)
Anc(d) == UpTo({g.root}, d, {})                \* d = -1: every ancestor
ExtAll == ReachSet(Anc(-1))
ExtWithin(d) == ReachSet(Anc(d))

Final ==
  /\ Rec.e = "final"
  /\ LET has == Rng(Rec.has)
         good == Rng(Rec.bytesok)
         ok == ret # NoRet /\ ~ret.err                             \* the call, or its repetition, succeeded
         want == IF IsExt THEN ReachNF(g.root) ELSE ReachNF(ExpectedRoot)
     IN V({<<"ClosedFinal", Closed(has)>>,
           <<"SuccessComplete", ok => want \subseteq has>>,
           <<"SuccessBytes", ok => want \subseteq good>>,
           <<"EdgesResolvable", ok => \A i \in 1..Len(Rec.dangling) : Rec.dangling[i][1] \notin want>>,
           <<"PresentBytes", has \subseteq good>>,
           <<"RootTagged", ok /\ IsTagging => Rec.tag = (IF IsExt THEN g.root ELSE ExpectedRoot)>>,
           <<"ExtAllAncestors", ok /\ IsExt /\ g.depth = 0 =>
                  (ExtAll \subseteq has /\ has \subseteq Rng(g.dst0) \cup Same(ExtAll))>>,
           <<"ExtAllBytes", ok /\ IsExt /\ g.depth = 0 => ExtAll \subseteq good>>,
           <<"ExtDepthBound", ok /\ IsExt /\ g.depth > 0 => (has \ Rng(g.dst0)) \subseteq Same(ExtWithin(g.depth))>>,
           <<"NothingElse", ok /\ ~IsExt => has \subseteq Rng(g.dst0) \cup Same(ReachNF(ExpectedRoot) \cup ReachNF(g.root))>>})
  /\ phase' = "idle"
  /\ UNCHANGED <<g, dst, srcIn, dstIn, nPush, nFetch, cbs, pushed, cbFail, ret>>

\* another writer stored a leaf blob in the destination (fault phase "race"): it is present from now on
Foreign ==
  /\ Rec.e = "foreign"
  /\ dst' = dst \cup {Rec.n}
  /\ UNCHANGED <<g, srcIn, dstIn, nPush, nFetch, cbs, pushed, cbFail, ret, phase, viol>>

Other ==
  /\ Rec.e \in {"cancel", "maproot", "fault"}
  /\ UNCHANGED <<g, dst, srcIn, dstIn, nPush, nFetch, cbs, pushed, cbFail, ret, phase, viol>>

Step ==
  /\ l <= Len(Trace)
  /\ l' = l + 1
  /\ done' = FALSE
  /\ \/ EvInit \/ SrcBegin \/ SrcEnd \/ DstBegin \/ ExistsEnd \/ PushEnd \/ Callback
     \/ Return \/ Hang \/ Panic \/ Foreign \/ RetryBegin \/ RetryEnd \/ Final \/ Other

Finish ==
  /\ l = Len(Trace) + 1 /\ ~done
  /\ done' = TRUE
  /\ JsonSerialize(OutFile, [consumed |-> l - 1, viol |-> viol])
  /\ UNCHANGED <<l, g, dst, srcIn, dstIn, nPush, nFetch, cbs, pushed, cbFail, ret, phase, viol>>

Next == Step \/ Finish
Spec == Init /\ [][Next]_vars

\* every line must be consumed: an event the monitor does not know is an
\* error of the machinery, not of the code
Consumed == TLCGet("stats").diameter = Len(Trace) + 2
=============================================================================
