----------------------------- MODULE RetryModel -----------------------------
(***************************************************************************)
(* C17: the retrying transport (registry/remote/retry/client.go) as a      *)
(* state machine over a server script, and the property's clauses.         *)
(* A case: script (what the server does on each attempt), body kind        *)
(* (none / replayable through GetBody / one-shot), MaxRetry, and the pause *)
(* during which the caller cancels the context (0: never).                 *)
(*   "ok" 200   "nf" 404   "unauth" 401   -> returned at once               *)
(*   "rt" 408   "tm" 429   "tmra" 429 + Retry-After   "ise" 500   "un" 503  *)
(*   "timeout" a transport error that reports Timeout()  -> retried          *)
(*   "neterr" any other transport error                  -> returned at once *)
(***************************************************************************)
EXTENDS Integers, Sequences, FiniteSets, TLC

CONSTANTS MaxLen      \* longest script
Answers == {"ok", "nf", "unauth", "rt", "tm", "tmra", "ise", "un", "timeout", "neterr"}
Retryable(s) == s \in {"rt", "tm", "tmra", "ise", "un", "timeout"}
IsError(s) == s \in {"timeout", "neterr"}
Scripts == UNION {[1..k -> Answers] : k \in 0..MaxLen}
CaseSpace == [script : Scripts, body : {"none", "replay", "oneshot"}, maxretry : 0..3, cancel : 0..3]

AnswerAt(c, a) == IF a <= Len(c.script) THEN c.script[a] ELSE "ok"     \* the server answers 200 once the script is over

\* the model as a function (used by RetryJudge): number of attempts and outcome of a case
RECURSIVE RunFrom(_, _, _)
RunFrom(cs, a, p) ==       \* a: attempts already sent; p: pauses taken
  LET s == AnswerAt(cs, a + 1) IN
  IF a >= cs.maxretry THEN [sent |-> a + 1, outcome |-> s]
  ELSE IF s = "neterr" \/ ~Retryable(s) \/ cs.body = "oneshot" THEN [sent |-> a + 1, outcome |-> s]
  ELSE IF cs.cancel = p + 1 THEN [sent |-> a + 1, outcome |-> "ctx"]
  ELSE RunFrom(cs, a + 1, p + 1)
Run(cs) == RunFrom(cs, 0, 0)
=============================================================================
