------------------------------ MODULE RefBuild ------------------------------
(***************************************************************************)
(* L1 for C20: every string over the characters that matter to the grammar *)
(* up to length L is a state.  Checks that the two formalisations of the   *)
(* repository grammar (automaton and structural) agree on all of them,     *)
(* that the verdict is total and that an accepted string re-assembles from *)
(* its parts.  -coverage shows every automaton transition and every split  *)
(* form taken.                                                             *)
(***************************************************************************)
EXTENDS RefGrammar

CONSTANT L
Alphabet == {"a", "A", "0", ".", "_", "-", "/", ":", "@"}

VARIABLE s
Init == s = <<>>
Next == Len(s) < L /\ \E c \in Alphabet : s' = Append(s, c)
Spec == Init /\ [][Next]_s

R == <<"r", "/">> \o s            \* the string behind a fixed valid registry

RepoEquiv == RepoOK(s) <=> RepoOK2(s)
VerdictTotal == Verdict(s) \in {"yes", "no", "unjudged"} /\ Verdict(R) \in {"yes", "no", "unjudged"}
AcceptedShape ==
  Verdict(R) = "yes" =>
    LET x == Split(R) IN
    /\ x.reg = <<"r">> /\ x.repo # <<>>
    /\ \A i \in 1..Len(x.repo) : x.repo[i] \notin Upper \cup {":", "@"}
    /\ x.form \in {"C", "D"}                      \* no digest fits in L characters
    /\ (x.form = "D" => R = x.reg \o <<"/">> \o x.repo)
    /\ (x.form = "C" => R = x.reg \o <<"/">> \o x.repo \o <<":">> \o x.ref /\ x.ref # <<>>)
\* strings the property leaves unjudged behind a valid registry are exactly the lenient ones
UnjudgedIsLenient == Verdict(R) = "unjudged" => Split(R).lenient
=============================================================================
