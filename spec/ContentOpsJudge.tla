-------------------------- MODULE ContentOpsJudge --------------------------
(***************************************************************************)
(* L2 judge of the helper API (content.go): one record = what the real     *)
(* oras.Resolve / Fetch / FetchBytes / Tag / TagN / PushBytes / TagBytesN  *)
(* call did for one case of ContentOps.tla on a freshly built target       *)
(* (memory store, OCI layout, or a remote repository over the in-process   *)
(* registry).  The outcome, the returned node, the returned bytes and the  *)
(* reference map read back afterwards must equal the model's.  The helpers *)
(* are not the subject of a listed property: a difference is reported as   *)
(* NONCONFORMANCE, not as a violation.                                     *)
(***************************************************************************)
EXTENDS ContentOps, Json, TLC

CONSTANTS TraceFile, OutFile
Trace == ndJsonDeserialize(TraceFile)
VARIABLES l, viol, done
jvars == <<l, viol, done>>
Rec == Trace[l]

AllNames == DOMAIN Refs0 \cup {"d1", "d2", "d3"}
Checks(r) ==
  LET cs == r.c  e == Expected(cs)  after == RefsAfter(cs) IN
  {<<"OutcomeAsModel", r.res = e.res>>,
   <<"NodeAsModel", r.n = e.n>>,
   <<"BytesOfReturnedNode", (cs.op \in {"fetch", "fetchbytes"} /\ r.res = "ok") => r.bytesok>>,
   <<"MediaTypeAsAsked", (cs.op \in {"pushbytes", "tagbytesn"} /\ r.res = "ok") => r.mt = (IF cs.mt = "" THEN "default" ELSE "given")>>,
   <<"RefsAsModel", \A nm \in AllNames : r.refs[nm] = (IF nm \in DOMAIN after THEN after[nm] ELSE 0)>>}

JInit == l = 1 /\ viol = {} /\ done = FALSE
Step ==
  /\ l <= Len(Trace)
  /\ l' = l + 1
  /\ done' = FALSE
  /\ viol' = viol \cup {[t |-> Rec.t, i |-> Rec.i, inv |-> k[1]] : k \in {k \in Checks(Rec) : ~k[2]}}
Finish ==
  /\ l = Len(Trace) + 1 /\ ~done
  /\ done' = TRUE
  /\ JsonSerialize(OutFile, [consumed |-> l - 1, viol |-> viol])
  /\ UNCHANGED <<l, viol>>
JNext == Step \/ Finish
JSpec == JInit /\ [][JNext]_jvars
Consumed == TLCGet("stats").diameter = Len(Trace) + 2
=============================================================================
