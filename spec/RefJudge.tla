------------------------------ MODULE RefJudge ------------------------------
(***************************************************************************)
(* L3 judge for C20: every record is what the real registry.ParseReference,*)
(* Reference.String, remote.Repository.ParseReference and the request URLs *)
(* of a remote.Repository did for one input; the expected outcome is       *)
(* computed here from RefGrammar.  Failed judgements accumulate in viol.    *)
(***************************************************************************)
EXTENDS RefGrammar, Json

CONSTANTS TraceFile, OutFile
Trace == ndJsonDeserialize(TraceFile)

VARIABLES l, viol, done
vars == <<l, viol, done>>
Rec == Trace[l]

Fmt(reg, repo, ref) ==        \* Reference.String of a valid reference
  IF ref = <<>> THEN reg \o <<"/">> \o repo
  ELSE IF DigestOK(ref) THEN reg \o <<"/">> \o repo \o <<"@">> \o ref
  ELSE reg \o <<"/">> \o repo \o <<":">> \o ref

ParseChecks(r) ==
  LET v == Verdict(r.s)  x == Split(r.s) IN
  {<<"MustAccept", v = "yes" => r.ok>>,
   <<"MustReject", v = "no" => ~r.ok>>,
   <<"Parts", r.ok => (r.reg = x.reg /\ r.repo = x.repo /\ r.ref = x.ref)>>,
   <<"Format", r.ok => r.str = Fmt(r.reg, r.repo, r.ref)>>,
   <<"RoundTrip", r.ok => (r.ok2 /\ r.reg2 = r.reg /\ r.repo2 = r.repo /\ r.ref2 = r.ref)>>}

\* what a Repository for base reg/repo must make of the string s
RepoExpect(r) ==
  LET v == Verdict(r.s)  x == Split(r.s) IN
  IF v = "yes" THEN      \* a fully qualified reference
    IF x.reg = r.breg /\ x.repo = r.brepo /\ x.ref # <<>> THEN [ok |-> "yes", ref |-> x.ref]
    ELSE [ok |-> "no", ref |-> <<>>]
  ELSE IF v = "unjudged" THEN [ok |-> "unjudged", ref |-> <<>>]
  ELSE LET at == IndexOf(r.s, "@") IN
    IF at # 0 THEN LET d == SubSeq(r.s, at + 1, Len(r.s)) IN
                   IF DigestOK(d) THEN [ok |-> "yes", ref |-> d] ELSE [ok |-> "no", ref |-> <<>>]
    ELSE IF IndexOf(r.s, ":") # 0 THEN
      IF DigestOK(r.s) THEN [ok |-> "yes", ref |-> r.s] ELSE [ok |-> "no", ref |-> <<>>]
    ELSE IF TagOK(r.s) THEN [ok |-> "yes", ref |-> r.s] ELSE [ok |-> "no", ref |-> <<>>]

RepoChecks(r) ==
  LET e == RepoExpect(r) IN
  {<<"RepoMustAccept", e.ok = "yes" => r.ok>>,
   <<"RepoMustReject", e.ok = "no" => ~r.ok>>,
   <<"RepoSameReference", (e.ok = "yes" /\ r.ok) => (r.ref = e.ref /\ r.reg = r.breg /\ r.repo = r.brepo)>>,
   <<"RepoStaysHome", r.ok => (r.reg = r.breg /\ r.repo = r.brepo /\ r.ref # <<>>)>>}

UrlChecks(r) ==
  {<<"UrlPath", r.path = "/v2/" \o Str(r.repo) \o "/" \o r.kind \o "/" \o Str(r.ref)>>,
   <<"UrlNoQuery", r.query = "">>}

Checks(r) == CASE r.e = "parse" -> ParseChecks(r)
               [] r.e = "repoparse" -> RepoChecks(r)
               [] r.e = "url" -> UrlChecks(r)

Init == l = 1 /\ viol = {} /\ done = FALSE
Step ==
  /\ l <= Len(Trace)
  /\ l' = l + 1
  /\ done' = FALSE
  /\ viol' = viol \cup {[t |-> Rec.t, i |-> Rec.i, inv |-> c[1]] : c \in {c \in Checks(Rec) : ~c[2]}}
Finish ==
  /\ l = Len(Trace) + 1 /\ ~done
  /\ done' = TRUE
  /\ JsonSerialize(OutFile, [consumed |-> l - 1, viol |-> viol])
  /\ UNCHANGED <<l, viol>>
Next == Step \/ Finish
Spec == Init /\ [][Next]_vars
Consumed == TLCGet("stats").diameter = Len(Trace) + 2
=============================================================================
