----------------------------- MODULE RetryCases -----------------------------
(* Direction A: emits the case space of Retry.tla for the Go driver. *)
EXTENDS RetryModel, Json, SequencesExt
CONSTANT OutFile
ASSUME JsonSerialize(OutFile, SetToSeq(CaseSpace))
=============================================================================
