------------------------------- MODULE CredMon -------------------------------
(***************************************************************************)
(* C18 judge.  Sequential histories: every operation result and the parsed *)
(* file after every step equal CredModel's.  Concurrent rounds: the final  *)
(* file equals the model after SOME sequential order of the completed      *)
(* operations and every Get returned a credential some prefix explains.    *)
(* Crash records: the file found after a kill is the complete old or the   *)
(* complete new document, with owner-only permissions once replaced.       *)
(***************************************************************************)
EXTENDS CredModel, Json

CONSTANTS TraceFile, OutFile
Trace == ndJsonDeserialize(TraceFile)
VARIABLES l, doc, host, exists, viol, done
vars == <<l, doc, host, exists, viol, done>>
Rec == Trace[l]
Rng(s) == {s[i] : i \in 1..Len(s)}

DocOf(d) == [top |-> Rng(d.top), auths |-> Rng(d.auths)]
HostMap(h) == [a \in {h[i][1] : i \in 1..Len(h)} |-> (CHOOSE p \in Rng(h) : p[1] = a)[2]]
CredRec(c) == [user |-> c.user, pass |-> c.pass, refresh |-> c.refresh, access |-> c.access]

V(checks) == viol' = viol \cup {[t |-> Rec.t, i |-> Rec.i, inv |-> c[1]] : c \in {c \in checks : ~c[2]}}

Init == l = 1 /\ doc = [top |-> {}, auths |-> {}] /\ host = <<>> /\ exists = FALSE /\ viol = {} /\ done = FALSE

EvInit ==
  /\ Rec.e = "init"
  /\ doc' = DocOf(Rec.doc) /\ host' = HostMap(Rec.hosts) /\ exists' = Rec.exists
  /\ UNCHANGED viol

EvOp ==
  /\ Rec.e = "op"
  /\ CASE Rec.op = "put" ->
            IF HasColon(Rec.userchars)
            THEN /\ V({<<"PutRejectsColonUser", Rec.res # "ok">>}) /\ UNCHANGED <<doc, exists>>
            ELSE /\ doc' = PutDoc(doc, Rec.addr, CredRec(Rec.cred)) /\ exists' = TRUE
                 /\ V({<<"PutSucceeds", Rec.res = "ok">>})
       [] Rec.op = "putretry" ->       \* a Put whose save was made to fail, then the same Put again on the same store
            /\ doc' = PutDoc(doc, Rec.addr, CredRec(Rec.cred)) /\ exists' = TRUE
            /\ V({<<"FailedSaveReported", Rec.first # "ok">>,
                  <<"PutSucceeds", Rec.res = "ok">>})
       [] Rec.op = "delete" ->
            /\ doc' = DelDoc(doc, Rec.addr)
            /\ exists' = (exists \/ Rec.addr \in Addrs(doc))
            /\ V({<<"DeleteSucceeds", Rec.res = "ok">>})
       [] Rec.op = "get" ->
            /\ V({<<"GetResult", Rec.res = "ok" /\ CredRec(Rec.got) \in GetSet(doc, Rec.addr, host)>>})
            /\ UNCHANGED <<doc, exists>>
  /\ UNCHANGED host

\* the file as parsed after an operation
EvFile ==
  /\ Rec.e = "file"
  /\ V({<<"FileExists", Rec.exists = exists>>,
        <<"FileParses", Rec.exists => Rec.parses>>,
        <<"OthersPreserved", (Rec.exists /\ Rec.parses) => DocOf(Rec.doc).top = doc.top>>,
        <<"EntriesAsModel", (Rec.exists /\ Rec.parses) => DocOf(Rec.doc).auths = doc.auths>>,
        <<"OwnerOnly", (Rec.exists /\ Rec.written) => Rec.mode = "600">>})
  /\ UNCHANGED <<doc, host, exists>>

\* a concurrent round: ops is the sequence of completed operations (any order); the final file must be explained
ApplyOp(d, o) == CASE o.op = "put" -> (IF HasColon(o.userchars) THEN d ELSE PutDoc(d, o.addr, CredRec(o.cred)))
                   [] o.op = "delete" -> DelDoc(d, o.addr)
                   [] OTHER -> d
RECURSIVE ApplyPerm(_, _, _, _)
ApplyPerm(d, ops, p, i) == IF i > Len(ops) THEN d ELSE ApplyPerm(ApplyOp(d, ops[p[i]]), ops, p, i + 1)
Perms(n) == {p \in [1..n -> 1..n] : \A i, j \in 1..n : i # j => p[i] # p[j]}
\* every document some prefix of some order can produce (for judging Gets)
RECURSIVE Prefixes(_, _, _, _)
Prefixes(d, ops, p, i) == IF i > Len(ops) THEN {d} ELSE {d} \cup Prefixes(ApplyOp(d, ops[p[i]]), ops, p, i + 1)
EvConc ==
  /\ Rec.e = "conc"
  /\ LET ops == Rec.ops  n == Len(ops)
         finals == {ApplyPerm(doc, ops, p, 1) : p \in Perms(n)}
         mids == UNION {Prefixes(doc, ops, p, 1) : p \in Perms(n)}
         got == DocOf(Rec.doc)
     IN /\ V({<<"ConcurrentFinalIsSequential", (Rec.parses \/ (~exists /\ ~Rec.written)) /\ (Rec.parses => got \in finals)>>,
              <<"ConcurrentGetsExplained",
                  \A i \in 1..n : ops[i].op = "get" =>
                      \E d \in mids : CredRec(ops[i].got) \in GetSet(d, ops[i].addr, host)>>,
              <<"OwnerOnly", Rec.written => Rec.mode = "600">>})
        /\ doc' = got
  /\ exists' = (exists \/ Rec.written) /\ UNCHANGED host

\* after a kill before the k-th system call of a Put / Delete
EvCrash ==
  /\ Rec.e = "crash"
  /\ LET new == ApplyOp(doc, Rec.victim)  got == DocOf(Rec.doc) IN
     V({<<"CrashFileParses", Rec.exists = exists \/ Rec.exists>>,
        <<"CrashOldOrNew", IF Rec.exists THEN Rec.parses /\ got \in {doc, new} ELSE ~exists>>,
        <<"CrashOwnerOnly", (Rec.exists /\ Rec.parses /\ got # doc) => Rec.mode = "600">>})
  /\ UNCHANGED <<doc, host, exists>>

\* a Put / Delete during which no file may grow beyond a limit (writes fail): the operation either reports the failure
\* and leaves the old file, or succeeds with the new one - never a damaged or half-written file
EvWFault ==
  /\ Rec.e = "wfault"
  /\ LET new == ApplyOp(doc, Rec.victim)  got == DocOf(Rec.doc) IN
     V({<<"WriteFaultOldOrNew", IF Rec.exists THEN Rec.parses /\ got \in {doc, new} ELSE ~exists>>,
        <<"WriteFaultReported", (Rec.res = "ok" /\ Rec.exists /\ Rec.parses) => got = new>>,
        <<"WriteFaultLeavesOld", (Rec.res = "err" /\ Rec.exists /\ Rec.parses) => got = doc>>})
  /\ UNCHANGED <<doc, host, exists>>

Step ==
  /\ l <= Len(Trace)
  /\ l' = l + 1
  /\ done' = FALSE
  /\ \/ EvInit \/ EvOp \/ EvFile \/ EvConc \/ EvCrash \/ EvWFault
Finish ==
  /\ l = Len(Trace) + 1 /\ ~done
  /\ done' = TRUE
  /\ JsonSerialize(OutFile, [consumed |-> l - 1, viol |-> viol])
  /\ UNCHANGED <<l, doc, host, exists, viol>>
Next == Step \/ Finish
Spec == Init /\ [][Next]_vars
Consumed == TLCGet("stats").diameter = Len(Trace) + 2
=============================================================================
