----------------------------- MODULE RoundCases -----------------------------
(* Direction A: emits the case space of FileRoundTrip.tla for the Go driver. *)
EXTENDS FileRoundTrip, Json, SequencesExt
CONSTANT OutFile
ASSUME JsonSerialize(OutFile, SetToSeq(CaseSpace))
=============================================================================
