---------------------------- MODULE ContentOps ----------------------------
(***************************************************************************)
(* Growth of the specification beyond the listed properties (DESIGN §7.1): *)
(* the helper API of content.go - oras.Resolve / Fetch / FetchBytes / Tag  *)
(* / TagN / PushBytes / TagBytes / TagBytesN - as pure outcome functions   *)
(* over the abstract target of StoreModel (a content map plus a reference  *)
(* map), including platform selection (internal/platform) and the size     *)
(* limits.  The model is implementation-shaped: `reffetch` says whether    *)
(* the target is a registry.ReferenceFetcher + ReferencePusher (a remote   *)
(* repository), for which the helpers take another route (FetchReference / *)
(* PushReference, metadata limits) than for the built-in stores.           *)
(*                                                                         *)
(* The universe is fixed (the driver builds exactly this):                  *)
(*   1 cfgA  image config  {amd64, linux}                                   *)
(*   2 cfgB  image config  {arm64, linux, variant v8}                       *)
(*   3 layer opaque blob                                                    *)
(*   4 mA    image manifest (config 1, layer 3)                             *)
(*   5 mB    image manifest (config 2, layer 3)                             *)
(*   6 idx   image index [4 as amd64/linux, 5 as arm64/linux/v8]            *)
(*   7 art   image manifest whose config is of an unknown media type        *)
(*   8 big   image manifest (config 1) larger than the small limit          *)
(*   9 new   content that is not in the target (pushed by PushBytes ...)    *)
(* references  "idx" -> 6, "a" -> 4, "b" -> 5, "art" -> 7, "big" -> 8       *)
(***************************************************************************)
EXTENDS Integers, Sequences, FiniteSets

Nodes == 1..9
Kind == <<"config", "config", "blob", "manifest", "manifest", "index", "manifest", "manifest", "blob">>
IsMeta(n) == Kind[n] \in {"manifest", "index"}
Big == {8}                      \* larger than the small limit, smaller than the 4 MiB defaults
Refs0 == [r \in {"idx", "a", "b", "art", "big"} |->
            CASE r = "idx" -> 6 [] r = "a" -> 4 [] r = "b" -> 5 [] r = "art" -> 7 [] r = "big" -> 8]
Present0 == 1..8

\* ------------------------------------------------------------- platforms
NoPlat == [arch |-> "", os |-> "", variant |-> ""]
Plats == {NoPlat,
          [arch |-> "amd64", os |-> "linux", variant |-> ""],
          [arch |-> "arm64", os |-> "linux", variant |-> ""],
          [arch |-> "arm64", os |-> "linux", variant |-> "v8"],
          [arch |-> "arm64", os |-> "linux", variant |-> "v7"],
          [arch |-> "s390x", os |-> "linux", variant |-> ""]}
\* platform.Match: architecture and OS equal; the variant only when the wanted platform names one
Match(got, want) == got.arch = want.arch /\ got.os = want.os /\ (want.variant # "" => got.variant = want.variant)
CfgPlat(c) == IF c = 1 THEN [arch |-> "amd64", os |-> "linux", variant |-> ""]
              ELSE [arch |-> "arm64", os |-> "linux", variant |-> "v8"]
ConfigOf(m) == CASE m = 4 -> 1 [] m = 5 -> 2 [] m = 8 -> 1 [] OTHER -> 0          \* 0: unknown config type (7)
IndexEntries == <<[n |-> 4, plat |-> CfgPlat(1)], [n |-> 5, plat |-> CfgPlat(2)]>>

Out(res, n) == [res |-> res, n |-> n]

\* platform.SelectManifest on root d for platform p
Select(d, p) ==
  CASE Kind[d] = "index" ->
         LET hits == {i \in 1..Len(IndexEntries) : Match(IndexEntries[i].plat, p)} IN
         IF hits = {} THEN Out("notfound", 0)
         ELSE Out("ok", IndexEntries[CHOOSE i \in hits : \A j \in hits : i <= j].n)      \* the first match
    [] Kind[d] = "manifest" ->
         IF ConfigOf(d) = 0 THEN Out("unsupported", 0)
         ELSE IF Match(CfgPlat(ConfigOf(d)), p) THEN Out("ok", d) ELSE Out("notfound", 0)
    [] OTHER -> Out("unsupported", 0)

\* 0 = "use the default" (4 MiB: nothing of the universe exceeds it); the small limit lets everything through but Big
Exceeds(n, limit) == limit # 0 /\ n \in Big

\* ------------------------------------------------------------------ cases
\* A case: the operation, its arguments, and whether the target is a reference fetcher/pusher (remote repository).
RefNames == {"idx", "a", "b", "art", "big", "nosuch"}
Limits == {0, 1}        \* 0: default, 1: the small limit
ReadCases == [op : {"resolve", "fetch", "fetchbytes"}, ref : RefNames, plat : Plats, maxmeta : Limits, maxbytes : Limits,
              reffetch : BOOLEAN]
TagCases == [op : {"tag", "tagn"}, ref : RefNames, ndst : 0..3, conc : {0, 1, 2}, maxmeta : Limits, reffetch : BOOLEAN]
PushCases == [op : {"pushbytes", "tagbytesn"}, fresh : BOOLEAN, meta : BOOLEAN, mt : {"", "given"}, ndst : 0..3,
              conc : {0, 2}, reffetch : BOOLEAN]
Relevant(c) ==
  CASE c.op = "resolve" -> c.maxbytes = 0
    [] c.op = "fetch" -> c.maxbytes = 0
    [] c.op = "fetchbytes" -> TRUE
    [] c.op = "tag" -> c.ndst = 1 /\ c.conc = 0 /\ c.maxmeta = 0
    [] c.op = "tagn" -> TRUE
    \* content that is already there is pushed again under the media type it was stored with; a registry takes
    \* references to manifests only
    [] c.op = "pushbytes" -> c.ndst = 0 /\ c.conc = 0 /\ (~c.fresh => c.mt = (IF c.meta THEN "given" ELSE ""))
    [] c.op = "tagbytesn" -> /\ (~c.fresh => c.mt = (IF c.meta THEN "given" ELSE ""))
                             /\ (c.reffetch /\ c.ndst > 0 => c.meta /\ c.mt = "given")
CaseSpace == {c \in ReadCases \cup TagCases \cup PushCases : Relevant(c)}

DstNames(k) == {"d1", "d2", "d3"} \cap (CASE k = 0 -> {} [] k = 1 -> {"d1"} [] k = 2 -> {"d1", "d2"} [] OTHER -> {"d1", "d2", "d3"})

\* --------------------------------------------------------------- outcomes
\* oras.Resolve / the resolution inside Fetch with a target platform
Resolved(c) ==
  IF c.ref \notin DOMAIN Refs0 THEN Out("notfound", 0)
  ELSE LET d == Refs0[c.ref] IN
    IF c.plat = NoPlat THEN Out("ok", d)
    ELSE IF c.reffetch /\ IsMeta(d) /\ Exceeds(d, c.maxmeta) THEN Out("toolarge", 0)      \* cached in memory first
    ELSE Select(d, c.plat)

Content(c) == IF c.fresh THEN 9 ELSE (IF c.meta THEN 4 ELSE 3)
\* PushBytes hands the store's answer through: for a built-in store content that is already there is an error, a
\* registry accepts the upload again
Pushed(c) == IF c.fresh \/ c.reffetch THEN Out("ok", Content(c)) ELSE Out("exists", 0)

\* what the call returns: [res, n] (n: the node whose descriptor - and, for fetches, bytes - comes back)
Expected(c) ==
  CASE c.op \in {"resolve", "fetch"} -> Resolved(c)
    [] c.op = "fetchbytes" ->
         LET r == Resolved(c) IN
         IF r.res = "ok" /\ Exceeds(r.n, c.maxbytes) THEN Out("toolarge", 0) ELSE r
    [] c.op \in {"tag", "tagn"} ->
         IF c.op = "tagn" /\ c.ndst = 0 THEN Out("missingref", 0)
         ELSE IF c.ref \notin DOMAIN Refs0 THEN Out("notfound", 0)
         \* a reference fetcher + pusher: TagN with several destinations reads the manifest into memory first
         ELSE IF c.op = "tagn" /\ c.ndst > 1 /\ c.reffetch /\ Exceeds(Refs0[c.ref], c.maxmeta) THEN Out("toolarge", 0)
         ELSE Out("ok", Refs0[c.ref])
    [] c.op = "pushbytes" -> Pushed(c)
    [] c.op = "tagbytesn" ->
         IF c.ndst = 0 THEN Pushed(c)                       \* no reference: TagBytesN is PushBytes
         ELSE Out("ok", Content(c))                          \* "already exists" is tolerated when tagging

\* the reference map after the call
RefsAfter(c) ==
  LET e == Expected(c) IN
  IF c.op \in {"tag", "tagn", "tagbytesn"} /\ e.res = "ok"
  THEN [r \in DOMAIN Refs0 \cup DstNames(c.ndst) |-> IF r \in DstNames(c.ndst) THEN e.n ELSE Refs0[r]]
  ELSE Refs0

=============================================================================
