-------------------------------- MODULE Retry --------------------------------
(* C17 (L1): the retry loop of retry.Transport.RoundTrip as a state machine over the case space of RetryModel.tla; *)
(* the invariants are the property's clauses; ModelAgrees ties it to the functional form used by the judge.        *)
EXTENDS RetryModel

VARIABLES c, attempt, phase, sent, pauses, outcome
vars == <<c, attempt, phase, sent, pauses, outcome>>
\* attempt: index of the retry loop (0-based as in the code); sent: attempts the server has seen;
\* pauses: number of pauses taken; phase: "send" | "decide" | "pause" | "done"

Init == /\ c \in CaseSpace /\ attempt = 0 /\ phase = "send" /\ sent = 0 /\ pauses = 0 /\ outcome = "none"

Send == /\ phase = "send" /\ sent' = sent + 1 /\ phase' = "decide" /\ UNCHANGED <<c, attempt, pauses, outcome>>

Return(o) == phase' = "done" /\ outcome' = o /\ UNCHANGED <<c, attempt, sent, pauses>>
Decide ==
  /\ phase = "decide"
  /\ LET s == AnswerAt(c, sent) IN
     IF attempt >= c.maxretry THEN Return(s)                         \* policy.Retry returns -1
     ELSE IF s = "neterr" THEN Return("neterr")                      \* the predicate returns the error
     ELSE IF ~Retryable(s) THEN Return(s)
     ELSE IF c.body = "oneshot" THEN Return(s)                       \* the body cannot be rewound: no retry
     ELSE /\ phase' = "pause" /\ pauses' = pauses + 1 /\ UNCHANGED <<c, attempt, sent, outcome>>

Pause ==
  /\ phase = "pause"
  /\ IF c.cancel = pauses THEN Return("ctx")                         \* cancelled during this pause
     ELSE /\ attempt' = attempt + 1 /\ phase' = "send" /\ UNCHANGED <<c, sent, pauses, outcome>>

Next == Send \/ Decide \/ Pause \/ (phase = "done" /\ UNCHANGED vars)
Spec == Init /\ [][Next]_vars
FairSpec == Spec /\ WF_vars(Send \/ Decide \/ Pause)

\* the clauses
Bounded == sent <= c.maxretry + 1
OneShotOnce == c.body = "oneshot" => sent <= 1
NonRetryableAtOnce == (phase = "done" /\ outcome \notin {"ctx"}) =>
                        \A a \in 1..(sent - 1) : Retryable(AnswerAt(c, a))     \* every earlier answer was retryable
LastAnswerReturned == (phase = "done" /\ outcome # "ctx") => outcome = AnswerAt(c, sent)
CancelStops == (phase = "done" /\ outcome = "ctx") => (c.cancel # 0 /\ pauses = c.cancel /\ sent = pauses)
Terminates == <>(phase = "done")

ModelAgrees == phase = "done" => (Run(c).sent = sent /\ Run(c).outcome = outcome)
=============================================================================
