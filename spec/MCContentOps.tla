---------------------------- MODULE MCContentOps ----------------------------
(* L1 of ContentOps.tla: every case of the helper API's case space is a state; the invariants are sanity properties of
   the outcome functions themselves. *)
EXTENDS ContentOps
\* ------------------------------------------------------- L1 (sanity of the model itself)
VARIABLE c
Init == c \in CaseSpace
Next == UNCHANGED c
Spec == Init /\ [][Next]_c
ResultSane == LET e == Expected(c) IN (e.res = "ok") = (e.n # 0)
\* platform selection never returns something that does not match the request
SelectSound == (c.op \in {"resolve", "fetch", "fetchbytes"} /\ c.plat # NoPlat /\ Expected(c).res = "ok") =>
                  LET n == Expected(c).n IN Kind[n] = "manifest" /\ ConfigOf(n) # 0 /\ Match(CfgPlat(ConfigOf(n)), c.plat)
\* a call that fails leaves the reference map alone
FailedCallsChangeNothing == Expected(c).res # "ok" => RefsAfter(c) = Refs0
=============================================================================
