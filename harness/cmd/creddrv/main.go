// creddrv runs one operation of the credentials file store for the crash checks (C18):
//
//	creddrv victim  <config path> <op.json>   open the store, write the marker, run the operation
//	creddrv inspect <config path>             print the abstract document, existence, parse status and mode
package main

import (
	"context"
	"encoding/json"
	"fmt"
	"os"
	"os/signal"
	"runtime"
	"strconv"
	"syscall"

	"oras.land/oras-go/v2/registry/remote/auth"
	"oras.land/oras-go/v2/registry/remote/credentials"
	"verif/harness/credfam"
)

type op struct {
	Op   string `json:"op"`
	Addr string `json:"addr"`
	Cred struct {
		User, Pass, Refresh, Access string
	} `json:"cred"`
}

func main() {
	runtime.LockOSThread()
	if len(os.Args) < 3 {
		fmt.Fprintln(os.Stderr, "usage: creddrv victim|inspect <path> [op.json]")
		os.Exit(3)
	}
	path := os.Args[2]
	switch os.Args[1] {
	case "inspect":
		doc, exists, parses, mode := credfam.ReadDoc(path)
		json.NewEncoder(os.Stdout).Encode(map[string]any{"doc": doc, "exists": exists, "parses": parses, "mode": mode})
	case "victim":
		raw, err := os.ReadFile(os.Args[3])
		if err != nil {
			fmt.Fprintln(os.Stderr, err)
			os.Exit(3)
		}
		var o op
		if err := json.Unmarshal(raw, &o); err != nil {
			fmt.Fprintln(os.Stderr, err)
			os.Exit(3)
		}
		st, err := credentials.NewFileStore(path)
		if err != nil {
			fmt.Fprintln(os.Stderr, err)
			os.Exit(3)
		}
		if v := os.Getenv("VERIF_FSIZE"); v != "" {
			// a write fault: no file may grow beyond this many bytes (write fails with EFBIG; SIGXFSZ is ignored)
			n, _ := strconv.ParseUint(v, 10, 64)
			signal.Ignore(syscall.SIGXFSZ)
			if err := syscall.Setrlimit(syscall.RLIMIT_FSIZE, &syscall.Rlimit{Cur: n, Max: n}); err != nil {
				fmt.Fprintln(os.Stderr, err)
				os.Exit(3)
			}
		}
		os.Stderr.WriteString("VERIF-MARK\n")
		ctx := context.Background()
		if o.Op == "put" {
			err = st.Put(ctx, o.Addr, auth.Credential{Username: o.Cred.User, Password: o.Cred.Pass, RefreshToken: o.Cred.Refresh, AccessToken: o.Cred.Access})
		} else {
			err = st.Delete(ctx, o.Addr)
		}
		os.Stderr.WriteString("VERIF-DONE\n")
		if err != nil {
			fmt.Fprintln(os.Stderr, "victim error:", err)
			os.Exit(4)
		}
	}
}
