// crashdrv executes scripted OCI-layout histories for the crash checks (C10):
//
//	crashdrv setup   <dir> <scenario.json>   run the setup operations on a fresh layout
//	crashdrv victim  <dir> <scenario.json>   open the layout, write the marker, run the victim operation
//	crashdrv inspect <dir> <scenario.json>   open the layout and print what it shows and what the directory holds
//
// The victim runs on the locked main thread so that every system call of the
// operation is issued by one thread, in program order.
package main

import (
	"bytes"
	"context"
	"encoding/json"
	"fmt"
	"math/rand"
	"os"
	"path/filepath"
	"runtime"
	"sort"

	"github.com/opencontainers/go-digest"
	ocispec "github.com/opencontainers/image-spec/specs-go/v1"
	"oras.land/oras-go/v2/content"
	"oras.land/oras-go/v2/content/oci"
	"verif/harness/vh"
)

type Op struct {
	Op  string `json:"op"`
	N   int    `json:"n,omitempty"`
	Ref string `json:"ref,omitempty"`
	Av  int    `json:"av,omitempty"` // tag: the descriptor carries the annotation verif.variant=v<Av> (0: none)
}

// tagDesc is the descriptor handed to Tag.
func tagDesc(g *vh.Graph, op Op) ocispec.Descriptor {
	d := g.Descs[op.N]
	if op.Av == 7 {
		// a descriptor as Resolve(tag) on another (or a reopened) layout returns it: it names a reference in its
		// reference-name annotation. That annotation is the caller's and must never turn into a tag here.
		d.Annotations = map[string]string{ocispec.AnnotationRefName: refs[op.N%len(refs)]}
		return d
	}
	if op.Av != 0 {
		d.Annotations = map[string]string{"verif.variant": fmt.Sprint("v", op.Av)}
	}
	return d
}

// annSig is a canonical string of a descriptor's annotations without the reference name.
func annSig(a map[string]string) string {
	var ks []string
	for k := range a {
		if k != ocispec.AnnotationRefName {
			ks = append(ks, k)
		}
	}
	sort.Strings(ks)
	out := ""
	for _, k := range ks {
		out += k + "=" + a[k] + ";"
	}
	return out
}

type Scenario struct {
	ID       int           `json:"id"`
	Nodes    []vh.NodeSpec `json:"nodes"`
	AutoGC   bool          `json:"autogc"`
	AutoSave bool          `json:"autosave"`
	Setup    []Op          `json:"setup"`
	Victim   Op            `json:"victim"`
}

var refs = []string{"t1", "t2"}

func die(f string, a ...any) {
	fmt.Fprintf(os.Stderr, "crashdrv: "+f+"\n", a...)
	os.Exit(3)
}

func apply(ctx context.Context, st *oci.Store, g *vh.Graph, op Op) error {
	switch op.Op {
	case "push":
		return st.Push(ctx, tagDesc(g, Op{N: op.N, Av: op.Av}), bytes.NewReader(g.Blobs[op.N]))
	case "tag":
		return st.Tag(ctx, tagDesc(g, op), op.Ref)
	case "untag":
		return st.Untag(ctx, op.Ref)
	case "delete":
		return st.Delete(ctx, g.Descs[op.N])
	case "gc":
		return st.GC(ctx)
	case "tagsave": // AutoSaveIndex off: tag in memory, then SaveIndex
		if err := st.Tag(ctx, tagDesc(g, op), op.Ref); err != nil {
			return err
		}
		return st.SaveIndex()
	case "tagsaveflip": // a batch made with AutoSaveIndex off, the option switched on again, then SaveIndex
		if err := st.Tag(ctx, tagDesc(g, op), op.Ref); err != nil {
			return err
		}
		st.AutoSaveIndex = true
		return st.SaveIndex()
	}
	return fmt.Errorf("unknown op %q", op.Op)
}

// gen writes count random scenarios: a universe, a valid setup history and a victim operation.
func gen(count int, seed int64, out string) {
	rng := rand.New(rand.NewSource(seed))
	f, err := os.Create(out)
	if err != nil {
		die("%v", err)
	}
	defer f.Close()
	enc := json.NewEncoder(f)
	victims := []string{"push", "push", "tag", "untag", "delete", "delete", "gc", "tagsave"}
	for id := 1; id <= count; id++ {
		n := 3 + rng.Intn(2)
		succ := vh.RandomSucc(n, rng, 35+rng.Intn(30))
		nodes := vh.ShapeFromSucc(succ, rng, vh.ShapeOpts{Subjects: true, Artifact: true})
		sc := Scenario{ID: id, Nodes: nodes, AutoGC: rng.Intn(3) != 0, AutoSave: true}
		want := victims[(id-1)%len(victims)]
		if want == "tagsave" {
			sc.AutoSave = false
		}
		present := map[int]bool{}
		tags := map[string]int{}
		var absent []int
		// push most nodes (children first), tag some
		for k := 1; k <= n; k++ {
			if rng.Intn(6) != 0 {
				sc.Setup = append(sc.Setup, Op{Op: "push", N: k})
				present[k] = true
			} else {
				absent = append(absent, k)
			}
		}
		var pres []int
		for k := range present {
			pres = append(pres, k)
		}
		sort.Ints(pres)
		both := 0
		if len(pres) > 0 && rng.Intn(3) == 0 {
			both = pres[rng.Intn(len(pres))] // every reference on one node
		}
		for _, r := range refs {
			if len(pres) > 0 && (both != 0 || rng.Intn(3) != 0) {
				k := pres[rng.Intn(len(pres))]
				if both != 0 {
					k = both
				}
				sc.Setup = append(sc.Setup, Op{Op: "tag", N: k, Ref: r, Av: rng.Intn(3)})
				tags[r] = k
			}
		}
		switch want {
		case "push":
			if len(absent) == 0 {
				// remove the last push from the setup so that there is something to push
				for i := len(sc.Setup) - 1; i >= 0; i-- {
					if sc.Setup[i].Op == "push" {
						k := sc.Setup[i].N
						used := false
						for _, t := range tags {
							used = used || t == k
						}
						if !used {
							absent = append(absent, k)
							sc.Setup = append(sc.Setup[:i], sc.Setup[i+1:]...)
							break
						}
					}
				}
			}
			if len(absent) == 0 {
				continue
			}
			sc.Victim = Op{Op: "push", N: absent[len(absent)-1], Av: []int{0, 7}[rng.Intn(2)]}
		case "tag":
			if len(pres) == 0 {
				continue
			}
			sc.Victim = Op{Op: "tag", N: pres[rng.Intn(len(pres))], Ref: refs[rng.Intn(len(refs))], Av: []int{0, 1, 2, 7}[rng.Intn(4)]}
			if rng.Intn(2) == 0 {
				// the same content again under a reference it already has, described with other annotations
				for r, k := range tags {
					sc.Victim = Op{Op: "tag", N: k, Ref: r, Av: 1 + rng.Intn(2)}
				}
			}
		case "untag":
			if len(tags) == 0 {
				continue
			}
			for r := range tags {
				sc.Victim = Op{Op: "untag", Ref: r}
			}
			var rs []string
			for r := range tags {
				rs = append(rs, r)
			}
			sort.Strings(rs)
			sc.Victim = Op{Op: "untag", Ref: rs[rng.Intn(len(rs))]}
		case "delete":
			if len(pres) == 0 {
				continue
			}
			sc.Victim = Op{Op: "delete", N: pres[rng.Intn(len(pres))]}
		case "gc":
			sc.Victim = Op{Op: "gc"}
		case "tagsave":
			if len(pres) == 0 {
				continue
			}
			sc.Victim = Op{Op: []string{"tagsave", "tagsaveflip"}[rng.Intn(2)], N: pres[rng.Intn(len(pres))], Ref: refs[rng.Intn(len(refs))]}
		}
		enc.Encode(sc)
	}
}

func main() {
	runtime.LockOSThread()
	if len(os.Args) == 5 && os.Args[1] == "gen" {
		var count int
		var seed int64
		fmt.Sscan(os.Args[2], &count)
		fmt.Sscan(os.Args[3], &seed)
		gen(count, seed, os.Args[4])
		return
	}
	if len(os.Args) != 4 {
		die("usage: crashdrv setup|victim|inspect <dir> <scenario.json>")
	}
	mode, dir := os.Args[1], os.Args[2]
	raw, err := os.ReadFile(os.Args[3])
	if err != nil {
		die("%v", err)
	}
	var sc Scenario
	if err := json.Unmarshal(raw, &sc); err != nil {
		die("%v", err)
	}
	g, err := vh.Build(sc.Nodes, fmt.Sprint("c", sc.ID))
	if err != nil {
		die("%v", err)
	}
	ctx := context.Background()
	switch mode {
	case "describe":
		all := make([][]int, g.N)
		isman := make([]bool, g.N)
		subj := make([]int, g.N)
		names := make([]string, g.N)
		for k := 1; k <= g.N; k++ {
			all[k-1], isman[k-1] = g.SuccAll(k), vh.IsManifestKind(g.Nodes[k].Kind)
			for _, e := range g.Nodes[k].Edges {
				if e.Role == "subject" {
					subj[k-1] = e.To
				}
			}
		}
		dg := map[string]int{}
		for k := 1; k <= g.N; k++ {
			dg[g.Descs[k].Digest.Encoded()] = k
		}
		json.NewEncoder(os.Stdout).Encode(map[string]any{"e": "init", "kind": "oci", "n": g.N, "all": all, "isman": isman, "subj": subj,
			"names": names, "refs": refs, "autogc": sc.AutoGC, "autosave": sc.AutoSave, "digests": dg})
	case "setup", "victim":
		st, err := oci.New(dir)
		if err != nil {
			die("open: %v", err)
		}
		st.AutoGC, st.AutoSaveIndex = sc.AutoGC, sc.AutoSave
		if mode == "setup" {
			for _, op := range sc.Setup {
				if err := apply(ctx, st, g, op); err != nil {
					die("setup %v: %v", op, err)
				}
			}
			if !sc.AutoSave {
				if err := st.SaveIndex(); err != nil {
					die("%v", err)
				}
			}
			return
		}
		os.Stderr.WriteString("VERIF-MARK\n")
		verr := apply(ctx, st, g, sc.Victim)
		os.Stderr.WriteString("VERIF-DONE\n")
		if verr != nil {
			fmt.Fprintf(os.Stderr, "victim error: %v\n", verr)
			os.Exit(4)
		}
	case "inspect":
		out := map[string]any{"openok": true}
		st, err := oci.New(dir)
		if err != nil {
			out["openok"], out["openerr"] = false, err.Error()
		} else {
			var exists, fetchok []int
			for k := 1; k <= g.N; k++ {
				if ok, _ := st.Exists(ctx, g.Descs[k]); ok {
					exists = append(exists, k)
				}
				if b, err := content.FetchAll(ctx, st, g.Descs[k]); err == nil && bytes.Equal(b, g.Blobs[k]) {
					fetchok = append(fetchok, k)
				}
			}
			tags := [][]any{}
			for _, r := range refs {
				if d, err := st.Resolve(ctx, r); err == nil {
					tags = append(tags, []any{r, g.NodeOf(d), annSig(d.Annotations)})
				}
			}
			out["exists"], out["fetchok"], out["tags"] = vh.Ints(exists), vh.Ints(fetchok), tags
		}
		// the raw directory
		var index ocispec.Index
		b, rerr := os.ReadFile(filepath.Join(dir, "index.json"))
		out["indexok"] = rerr == nil && json.Unmarshal(b, &index) == nil && index.SchemaVersion == 2
		blobs := []int{}
		bad := 0
		filepath.Walk(filepath.Join(dir, "blobs"), func(p string, fi os.FileInfo, err error) error {
			if err != nil || fi.IsDir() {
				return nil
			}
			alg := digest.Algorithm(filepath.Base(filepath.Dir(p)))
			data, rerr := os.ReadFile(p)
			if rerr != nil || !alg.Available() || alg.FromBytes(data).Encoded() != fi.Name() {
				bad++
				return nil
			}
			blobs = append(blobs, g.ByDg[digest.NewDigestFromEncoded(alg, fi.Name()).String()]...)
			return nil
		})
		sort.Ints(blobs)
		missing := 0
		entries := [][]any{}
		for _, e := range index.Manifests {
			entries = append(entries, []any{e.Annotations[ocispec.AnnotationRefName], g.NodeOf(e)})
			fi, err := os.Stat(filepath.Join(dir, "blobs", e.Digest.Algorithm().String(), e.Digest.Encoded()))
			if err != nil || fi.Size() != e.Size {
				missing++
			}
		}
		out["blobs"], out["badblobs"], out["entries"], out["entriesmissing"] = blobs, bad, entries, missing
		json.NewEncoder(os.Stdout).Encode(out)
	default:
		die("unknown mode %q", mode)
	}
}
