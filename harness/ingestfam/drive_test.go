// Package ingestfam replays the case space emitted by spec/VerifyCases.tla
// (scripted readers x descriptors) into the real verifying readers and the
// Push paths of the built-in stores (C05) and records the outcome for
// spec/VerifyJudge.tla.
package ingestfam

import (
	"bytes"
	"context"
	"encoding/json"
	"errors"
	"io"
	"math/rand"
	"os"
	"path/filepath"
	"strings"
	"sync"
	"testing"
	"time"

	"github.com/opencontainers/go-digest"
	ocispec "github.com/opencontainers/image-spec/specs-go/v1"
	"oras.land/oras-go/v2/content"
	"oras.land/oras-go/v2/content/file"
	"oras.land/oras-go/v2/content/memory"
	"oras.land/oras-go/v2/content/oci"
	"oras.land/oras-go/v2/verifhook"
	"verif/harness/vh"
)

type Case struct {
	Data  []int  `json:"data"`
	Cut   int    `json:"cut"`
	Endk  string `json:"endk"`
	Chunk int    `json:"chunk"`
	Zeros bool   `json:"zeros"`
	Dg    []int  `json:"dg"`
	Size  int64  `json:"size"`
}

var errIO = errors.New("verif: scripted I/O error")

// scripted is the reader of VerifyIngest.tla: a (0,nil) read before every
// chunk when zeros is set, chunks of at most chunk bytes, and after cut bytes
// EOF or an I/O error, for ever.
type scripted struct {
	c   Case
	pos int
	zp  bool
	pt  func(string) // scheduling point before every read (controlled concurrent rounds)
	// together: the last bytes come back in the same Read call as the end (io.EOF or the error), as io.Reader allows
	together bool
}

func newScripted(c Case) *scripted { return &scripted{c: c, zp: c.Zeros} }

func (s *scripted) Read(p []byte) (int, error) {
	if s.pt != nil {
		s.pt("read")
	}
	if len(p) == 0 {
		return 0, nil
	}
	if s.c.Zeros && s.zp {
		s.zp = false
		return 0, nil
	}
	if s.pos == s.c.Cut {
		if s.c.Endk == "eof" {
			return 0, io.EOF
		}
		return 0, errIO
	}
	n := min(len(p), s.c.Chunk, s.c.Cut-s.pos)
	for i := 0; i < n; i++ {
		p[i] = real(s.c.Data[s.pos+i])
	}
	s.pos += n
	s.zp = true
	if s.together && s.pos == s.c.Cut {
		if s.c.Endk == "eof" {
			return n, io.EOF
		}
		return n, errIO
	}
	return n, nil
}

func real(b int) byte { return byte('a' + b) }
func realBytes(a []int) []byte {
	out := make([]byte, len(a))
	for i, b := range a {
		out[i] = real(b)
	}
	return out
}
func abstract(b []byte) []int {
	out := make([]int, len(b))
	for i, x := range b {
		out[i] = int(x) - 'a'
	}
	return out
}

func descOf(c Case, title string) ocispec.Descriptor {
	d := ocispec.Descriptor{MediaType: "application/vnd.verif.blob", Size: c.Size}
	switch {
	case len(c.Dg) == 1 && c.Dg[0] == 9:
		d.Digest = digest.Digest("sha256:xyz")
	case len(c.Dg) == 1 && c.Dg[0] == 8:
		d.Digest = digest.Digest("sha1:da39a3ee5e6b4b0d3255bfef95601890afd80709")
	default:
		d.Digest = digest.FromBytes(realBytes(c.Dg))
	}
	if title != "" {
		d.Annotations = map[string]string{ocispec.AnnotationTitle: title}
	}
	return d
}

// blobFiles lists the files under <root>/blobs with a flag telling whether
// the file name is the digest of its content.
func blobFiles(root string) (n, bad int) {
	filepath.Walk(filepath.Join(root, "blobs"), func(p string, fi os.FileInfo, err error) error {
		if err != nil || fi.IsDir() {
			return nil
		}
		n++
		b, rerr := os.ReadFile(p)
		alg := filepath.Base(filepath.Dir(p))
		if rerr != nil || string(digest.NewDigestFromEncoded(digest.Algorithm(alg), fi.Name())) != digest.Algorithm(alg).FromBytes(b).String() {
			bad++
		}
		return nil
	})
	return
}

type pushTarget struct {
	name string
	mk   func(dir string) (content.Storage, func(), error)
	ttl  string // title annotation to push under
	root func(dir string) string
}

func targets() []pushTarget {
	return []pushTarget{
		{"memory", func(string) (content.Storage, func(), error) { return memory.New(), func() {}, nil }, "", nil},
		{"oci", func(d string) (content.Storage, func(), error) { s, err := oci.New(d); return s, func() {}, err }, "", func(d string) string { return d }},
		{"ocistorage", func(d string) (content.Storage, func(), error) { s, err := oci.NewStorage(d); return s, func() {}, err }, "", func(d string) string { return d }},
		{"filenamed", func(d string) (content.Storage, func(), error) {
			s, err := file.New(d)
			return s, func() { s.Close() }, err
		}, "blob.bin", nil},
		// the name is taken by a longer file that was in the working directory before (overwriting is allowed by default)
		{"fileover", func(d string) (content.Storage, func(), error) {
			if err := os.WriteFile(filepath.Join(d, "blob.bin"), bytes.Repeat([]byte("z"), 40), 0o644); err != nil {
				return nil, nil, err
			}
			s, err := file.New(d)
			return s, func() { s.Close() }, err
		}, "blob.bin", nil},
		// a longer push under the same name was refused before (its bytes did not match its digest)
		{"fileafterbad", func(d string) (content.Storage, func(), error) {
			s, err := file.New(d)
			if err != nil {
				return nil, nil, err
			}
			stale := bytes.Repeat([]byte("q"), 40)
			bad := ocispec.Descriptor{MediaType: "application/vnd.verif.blob", Digest: digest.FromString("something else"), Size: 40,
				Annotations: map[string]string{ocispec.AnnotationTitle: "blob.bin"}}
			s.Push(context.Background(), bad, bytes.NewReader(stale))
			return s, func() { s.Close() }, nil
		}, "blob.bin", nil},
		{"fileunnamed", func(d string) (content.Storage, func(), error) {
			s, err := file.New(d)
			return s, func() { s.Close() }, err
		}, "", nil},
		{"filefallbackoci", func(d string) (content.Storage, func(), error) {
			fb, err := oci.NewStorage(filepath.Join(d, "fallback"))
			if err != nil {
				return nil, nil, err
			}
			s, err := file.NewWithFallbackStorage(filepath.Join(d, "work"), fb)
			return s, func() { s.Close() }, err
		}, "", func(d string) string { return filepath.Join(d, "fallback") }},
		{"limited", func(string) (content.Storage, func(), error) {
			return content.LimitStorage(memory.New(), 2), func() {}, nil
		}, "", nil},
	}
}

// probe reads what a store shows for a descriptor.
func probe(ctx context.Context, st content.Storage, d ocispec.Descriptor) (exists, fetchok bool, got []byte) {
	exists, _ = st.Exists(ctx, d)
	if rc, ferr := st.Fetch(ctx, d); ferr == nil {
		got, ferr = io.ReadAll(rc)
		rc.Close()
		fetchok = ferr == nil
	}
	return
}

// controlled runs one round of concurrent good and bad pushers of one digest (and one name) into a store, released one
// scheduling point at a time: the points are the reads of the scripted readers and the library's own verif points.
func controlled(t *testing.T, ctx context.Context, base string, tg pushTarget, seed int64, emit func(Case, map[string]any)) {
	dir, _ := os.MkdirTemp(base, "cc")
	defer os.RemoveAll(dir)
	st, closeFn, err := tg.mk(dir)
	if err != nil {
		t.Fatal(err)
	}
	defer closeFn()
	rng := rand.New(rand.NewSource(seed))
	good := Case{Data: []int{0, 1, 1}, Cut: 3, Endk: "eof", Chunk: 1 + rng.Intn(3), Zeros: rng.Intn(2) == 0, Dg: []int{0, 1, 1}, Size: 3}
	bads := []Case{
		{Data: []int{0, 1, 0}, Cut: 3, Endk: "eof", Chunk: 1, Dg: []int{0, 1, 1}, Size: 3},
		{Data: []int{0, 1, 1}, Cut: 2, Endk: "err", Chunk: 1, Dg: []int{0, 1, 1}, Size: 3},
		{Data: []int{0, 1}, Cut: 2, Endk: "eof", Chunk: 1, Dg: []int{0, 1, 1}, Size: 3},
		{Data: []int{1, 1, 1, 0}, Cut: 4, Endk: "eof", Chunk: 2, Dg: []int{0, 1, 1}, Size: 3},
	}
	ps := &vh.PSched{Quiet: 400 * time.Microsecond}
	verifhook.Set(ps.Point)
	defer verifhook.Set(nil)
	np := 2 + rng.Intn(3)
	results := make([]bool, np)
	isGood := make([]bool, np)
	for g := 0; g < np; g++ {
		g := g
		c := bads[rng.Intn(len(bads))]
		if g == 0 || rng.Intn(3) == 0 {
			c, isGood[g] = good, true
		}
		ps.Go(g, func() {
			r := newScripted(c)
			r.pt = ps.Point
			results[g] = st.Push(ctx, descOf(c, tg.ttl), r) == nil
		})
	}
	if ps.Run(func(step int, pend []*vh.POp) int { return rng.Intn(len(pend)) }) {
		ps.ReleaseAll()
		emit(good, map[string]any{"ok": true, "exists": false, "fetchok": false, "bytes": []int{}, "existsp": false, "fetchpok": false,
			"bytesp": []int{}, "newblobs": 0, "badblobfiles": 0, "concurrent": true, "hang": true})
		return
	}
	verifhook.Set(nil)
	exists, fetchok, got := probe(ctx, st, descOf(good, tg.ttl))
	existsp, fetchpok, gotp := probe(ctx, st, descOf(good, ""))
	bad := 0
	if tg.root != nil {
		_, bad = blobFiles(tg.root(dir))
	}
	badOK, goodOK := false, false
	for g := range results {
		if isGood[g] {
			goodOK = goodOK || results[g]
		} else {
			badOK = badOK || results[g]
		}
	}
	// reported as a push of the good case; a bad pusher that was told "ok" is reported as a push of a bad case
	emit(good, map[string]any{"ok": goodOK, "exists": exists, "fetchok": fetchok, "bytes": abstract(got), "existsp": existsp,
		"fetchpok": fetchpok, "bytesp": abstract(gotp), "newblobs": 1, "badblobfiles": bad, "concurrent": true, "schedule": ps.Choices})
	if badOK {
		emit(bads[0], map[string]any{"ok": true, "exists": exists, "fetchok": fetchok, "bytes": abstract(got), "existsp": existsp,
			"fetchpok": fetchpok, "bytesp": abstract(gotp), "newblobs": 1, "badblobfiles": bad, "concurrent": true})
	}
}

func TestDrive(t *testing.T) {
	out := os.Getenv("VH_OUT")
	if out == "" {
		t.Skip("VH_OUT not set")
	}
	raw, err := os.ReadFile(os.Getenv("VH_CASES"))
	if err != nil {
		t.Fatal(err)
	}
	var cases []Case
	if err := json.Unmarshal(raw, &cases); err != nil {
		t.Fatal(err)
	}
	only := os.Getenv("VH_CONSUMERS")
	want := func(k string) bool { return only == "" || strings.Contains(","+only+",", ","+k+",") }
	rot := &vh.Rot{Dir: out, Max: vh.EnvInt("VH_ROT", 30000)}
	ctx := context.Background()
	n := 0
	perConsumer := map[string]int{}
	okCount := 0
	base := t.TempDir()
	emit := func(ci int, c Case, consumer string, m map[string]any) {
		tr := rot.Next()
		n++
		perConsumer[consumer]++
		if m["ok"] == true {
			okCount++
		}
		m["e"], m["consumer"], m["c"], m["case"] = "ingest", consumer, c, ci
		if _, ok := m["together"]; !ok {
			m["together"] = false
		}
		tr.Begin(n)
		tr.Emit(m)
	}
	for ci2 := 0; ci2 < 2*len(cases); ci2++ {
		ci, c := ci2/2, cases[ci2/2]
		together := ci2%2 == 1
		if together && c.Cut == 0 {
			continue // nothing to deliver together with the end
		}
		newScripted := func(c Case) *scripted { r := newScripted(c); r.together = together; return r }
		if c.Data == nil {
			c.Data = []int{}
		}
		if c.Dg == nil {
			c.Dg = []int{}
		}
		desc := descOf(c, "")
		// readers
		if want("readall") {
			b, err := content.ReadAll(newScripted(c), desc)
			emit(ci, c, "readall", map[string]any{"together": together, "ok": err == nil, "bytes": abstract(b)})
		}
		if want("fetchall") {
			f := content.FetcherFunc(func(context.Context, ocispec.Descriptor) (io.ReadCloser, error) {
				return io.NopCloser(newScripted(c)), nil
			})
			b, err := content.FetchAll(ctx, f, desc)
			emit(ci, c, "fetchall", map[string]any{"together": together, "ok": err == nil, "bytes": abstract(b)})
		}
		if want("verify") {
			vr := content.NewVerifyReader(newScripted(c), desc)
			var sb strings.Builder
			_, err := io.Copy(&sb, vr)
			if err == nil {
				err = vr.Verify()
			}
			emit(ci, c, "verify", map[string]any{"together": together, "ok": err == nil, "bytes": abstract([]byte(sb.String()))})
		}
		// stores
		for _, tg := range targets() {
			if !want(tg.name) {
				continue
			}
			dir, _ := os.MkdirTemp(base, "t")
			st, closeFn, err := tg.mk(dir)
			if err != nil {
				t.Fatal(err)
			}
			d := descOf(c, tg.ttl)
			nb0 := 0
			if tg.root != nil {
				nb0, _ = blobFiles(tg.root(dir))
			}
			perr := st.Push(ctx, d, newScripted(c))
			exists, _ := st.Exists(ctx, d)
			var got []byte
			fetchok := false
			if rc, ferr := st.Fetch(ctx, d); ferr == nil {
				got, ferr = io.ReadAll(rc)
				rc.Close()
				fetchok = ferr == nil
			}
			nb1, bad := 0, 0
			if tg.root != nil {
				nb1, bad = blobFiles(tg.root(dir))
			}
			// the same content asked for by its plain descriptor (no title), as a manifest's layer entry would
			existsp, fetchpok, gotp := probe(ctx, st, descOf(c, ""))
			emit(ci, c, tg.name, map[string]any{"together": together, "ok": perr == nil, "exists": exists, "fetchok": fetchok, "bytes": abstract(got),
				"existsp": existsp, "fetchpok": fetchpok, "bytesp": abstract(gotp),
				"newblobs": nb1 - nb0, "badblobfiles": bad, "limit": map[string]int{"limited": 2, "fileunnamed": 1 << 22}[tg.name]})
			closeFn()
			os.RemoveAll(dir)
		}
	}
	// concurrent pushers of good and bad content under one digest (OCI layout)
	conc := 0
	if want("oci") {
		conc = vh.EnvInt("VH_CONC", 50)
	}
	for r := 0; r < conc; r++ {
		dir, _ := os.MkdirTemp(base, "c")
		st, err := oci.New(dir)
		if err != nil {
			t.Fatal(err)
		}
		good := Case{Data: []int{0, 1, 1}, Cut: 3, Endk: "eof", Chunk: 1, Zeros: r%2 == 0, Dg: []int{0, 1, 1}, Size: 3}
		bads := []Case{
			{Data: []int{0, 1, 0}, Cut: 3, Endk: "eof", Chunk: 1, Dg: []int{0, 1, 1}, Size: 3},
			{Data: []int{0, 1, 1}, Cut: 2, Endk: "err", Chunk: 2, Dg: []int{0, 1, 1}, Size: 3},
			{Data: []int{0, 1}, Cut: 2, Endk: "eof", Chunk: 9, Dg: []int{0, 1, 1}, Size: 3},
		}
		var wg sync.WaitGroup
		results := make([]bool, 8)
		for g := 0; g < 8; g++ {
			wg.Add(1)
			go func(g int) {
				defer wg.Done()
				c := good
				if g%2 == 1 {
					c = bads[(g/2)%len(bads)]
				}
				results[g] = st.Push(ctx, descOf(c, ""), newScripted(c)) == nil
			}(g)
		}
		wg.Wait()
		d := descOf(good, "")
		exists, _ := st.Exists(ctx, d)
		var got []byte
		fetchok := false
		if rc, ferr := st.Fetch(ctx, d); ferr == nil {
			got, ferr = io.ReadAll(rc)
			rc.Close()
			fetchok = ferr == nil
		}
		_, bad := blobFiles(dir)
		badOK := false
		for g := 1; g < 8; g += 2 {
			badOK = badOK || results[g]
		}
		// reported as a push of the good case whose result is "a bad pusher succeeded"
		emit(-1, good, "oci", map[string]any{"ok": true, "exists": exists, "fetchok": fetchok, "bytes": abstract(got), "existsp": exists, "fetchpok": fetchok, "bytesp": abstract(got), "newblobs": 1, "badblobfiles": bad, "concurrent": true, "badpusherok": badOK})
		if badOK {
			c := bads[0]
			emit(-1, c, "oci", map[string]any{"ok": true, "exists": exists, "fetchok": fetchok, "bytes": abstract(got), "existsp": exists, "fetchpok": fetchok, "bytesp": abstract(got), "newblobs": 1, "badblobfiles": bad, "concurrent": true})
		}
		os.RemoveAll(dir)
	}
	ctl := 0
	for _, tg := range targets() {
		if !want(tg.name) || tg.name == "limited" || tg.name == "filefallbackoci" || tg.name == "fileover" || tg.name == "fileafterbad" {
			continue
		}
		for r := 0; r < vh.EnvInt("VH_CTL", 150); r++ {
			ctl++
			tg := tg
			controlled(t, ctx, base, tg, int64(vh.EnvInt("VH_SEED", 1))*100003+int64(r), func(c Case, m map[string]any) {
				m["limit"] = 0
				emit(-2, c, tg.name, m)
			})
		}
	}
	rot.Close()
	sum, _ := json.Marshal(map[string]any{"records": n, "cases": len(cases), "ok": okCount, "controlled_rounds": ctl, "per_consumer": perConsumer, "files": rot.Files, "concurrent_rounds": conc})
	os.WriteFile(out+"/summary.json", sum, 0o644)
}
