// Package storefam drives operation histories through the real memory, OCI
// layout and file stores (C06-C09), observing after every step the live
// store, the raw directory and the layout reopened three ways. The trace is
// judged by spec/StoreMon.tla, whose model states the required effects.
package storefam

import (
	"archive/tar"
	"bytes"
	"context"
	"encoding/json"
	"errors"
	"fmt"
	"io"
	"io/fs"
	"math/rand"
	"os"
	"path/filepath"
	"sort"
	"strings"
	"sync"
	"syscall"
	"testing"
	"time"

	"github.com/opencontainers/go-digest"
	"github.com/opencontainers/image-spec/specs-go"
	ocispec "github.com/opencontainers/image-spec/specs-go/v1"
	"oras.land/oras-go/v2/content"
	"oras.land/oras-go/v2/content/file"
	"oras.land/oras-go/v2/content/memory"
	"oras.land/oras-go/v2/content/oci"
	"oras.land/oras-go/v2/errdef"
	"oras.land/oras-go/v2/registry"
	"oras.land/oras-go/v2/verifhook"
	"verif/harness/vh"
)

// Op is one step of a history.
type Op struct {
	Op   string `json:"op"` // push pushbad tag untag delete gc stray fetch exists resolve pred tags
	N    int    `json:"n,omitempty"`
	Ref  string `json:"ref,omitempty"`
	Last string `json:"last,omitempty"`
	Av   int    `json:"av,omitempty"` // tag: which annotations the descriptor handed to Tag carries (0: the node's own)
	// push into a file store: a longer file lies at the blob's name already (left by an earlier run in the same working
	// directory); overwriting is allowed by default and the store must end up with exactly the pushed bytes
	Pre bool `json:"pre,omitempty"`
}

type Scenario struct {
	ID       int           `json:"id"`
	Kind     string        `json:"kind"` // memory | oci | file
	Nodes    []vh.NodeSpec `json:"nodes"`
	Names    []string      `json:"names"` // file store: name per node ("" = unnamed); index 0 unused
	AutoGC   bool          `json:"autogc"`
	AutoSave bool          `json:"autosave"`
	Ops      []Op          `json:"ops"`
	Reopen   string        `json:"reopen"`        // "all": reopen three ways after every mutating op; "end": only at the end
	Annot    []bool        `json:"annot"`         // OCI: the descriptor used to tag node k carries annotations
	Par      []Op          `json:"par,omitempty"` // concurrent tail: operations run as goroutines after Ops
	Prefix   []int         `json:"prefix,omitempty"`
	Seed     int64         `json:"seed,omitempty"`
	Choices  []int         `json:"choices,omitempty"`
	// Policy directs the schedule of the tail instead of drawing it: "holdmap" runs operation 1 up to the point right
	// after it took its snapshot of the reference map (resolver.Map), then operation 2 to its end, then the rest -
	// the window in which a save of index.json works from a stale snapshot
	Policy string `json:"policy,omitempty"`
	// Twin: a crafted layout in which the bytes of an image manifest are referenced twice below one root - as a manifest
	// (through an index) and as an opaque layer of an artifact - garbage-collected so that index.json lists the root
	// only, then reopened. "opaque" / "manifest": which of the two references the traversal meets first.
	Twin string `json:"twin,omitempty"`
}

var refs = []string{"t1", "t2", "v1.0"}

type readStore interface {
	content.ReadOnlyStorage
	content.Resolver
	content.PredecessorFinder
}

func class(err error) string {
	switch {
	case err == nil:
		return "ok"
	case errors.Is(err, errdef.ErrAlreadyExists):
		return "exists"
	case errors.Is(err, file.ErrDuplicateName):
		return "dupname"
	case errors.Is(err, errdef.ErrNotFound):
		return "notfound"
	case errors.Is(err, errdef.ErrMissingReference):
		return "missingref"
	case errors.Is(err, errdef.ErrInvalidReference):
		return "invalidref"
	}
	return "err"
}

type runner struct {
	t    *testing.T
	sc   *Scenario
	g    *vh.Graph
	tr   *vh.Tracer
	dir  string
	desc []ocispec.Descriptor // descriptor used for each node (with title for named file-store blobs)
}

func (r *runner) nodeOf(d ocispec.Descriptor) int { return r.g.NodeOf(d) }

// observe reads everything observable from a store.
func (r *runner) observe(ctx context.Context, st readStore, kind string) map[string]any {
	g := r.g
	var exists, fetchok, byindex, byblob, existsplain, fetchplain, notplain []int
	for k := 1; k <= g.N; k++ {
		if ok, _ := st.Exists(ctx, r.desc[k]); ok {
			exists = append(exists, k)
		}
		if b, err := content.FetchAll(ctx, st, r.desc[k]); err == nil && bytes.Equal(b, g.Blobs[k]) {
			fetchok = append(fetchok, k)
		}
		if ok, _ := st.Exists(ctx, g.Descs[k]); ok {
			existsplain = append(existsplain, k)
		}
		if b, err := content.FetchAll(ctx, st, g.Descs[k]); err == nil && bytes.Equal(b, g.Blobs[k]) {
			fetchplain = append(fetchplain, k)
		}
		if kind == "oci" {
			if d, err := st.Resolve(ctx, g.Descs[k].Digest.String()); err == nil && d.Digest == g.Descs[k].Digest && d.Size == g.Descs[k].Size {
				if d.MediaType == g.Descs[k].MediaType {
					byindex = append(byindex, k)
				} else {
					byblob = append(byblob, k)
				}
				// "if the reference is a digest, the returned descriptor will be a plain descriptor (containing only the
				// digest, media type and size)" - in every way a layout can be opened
				if len(d.Annotations) != 0 || len(d.URLs) != 0 || len(d.Data) != 0 || d.Platform != nil || d.ArtifactType != "" {
					notplain = append(notplain, k)
				}
			}
		}
	}
	tags := [][]any{}
	for _, ref := range refs {
		if d, err := st.Resolve(ctx, ref); err == nil {
			tags = append(tags, []any{ref, r.nodeOf(d), annSig(d.Annotations), d.Annotations[ocispec.AnnotationRefName]})
		}
	}
	pred := make([][]int, g.N)
	for k := 1; k <= g.N; k++ {
		ps, _ := st.Predecessors(ctx, g.Descs[k])
		l := []int{}
		for _, p := range ps {
			l = append(l, r.nodeOf(p))
		}
		sort.Ints(l)
		pred[k-1] = l
	}
	taglist := []string{}
	if tl, ok := st.(registry.TagLister); ok {
		if ts, err := registry.Tags(ctx, tl); err == nil {
			taglist = append(taglist, ts...)
		}
	}
	return map[string]any{"exists": vh.Ints(exists), "fetchok": vh.Ints(fetchok), "byindex": vh.Ints(byindex), "byblob": vh.Ints(byblob),
		"tags": tags, "pred": pred, "taglist": taglist, "existsplain": vh.Ints(existsplain), "fetchplain": vh.Ints(fetchplain), "notplain": vh.Ints(notplain)}
}

// disk reads the raw OCI layout directory.
func (r *runner) disk() map[string]any {
	g := r.g
	m := map[string]any{"e": "disk", "saved": true}
	var layout ocispec.ImageLayout
	b, err := os.ReadFile(filepath.Join(r.dir, "oci-layout"))
	m["layoutok"] = err == nil && json.Unmarshal(b, &layout) == nil && layout.Version == ocispec.ImageLayoutVersion
	var index ocispec.Index
	b, err = os.ReadFile(filepath.Join(r.dir, "index.json"))
	m["indexok"] = err == nil && json.Unmarshal(b, &index) == nil && index.SchemaVersion == 2
	blobs, altblobs := []int{}, []int{}
	bad := 0
	filepath.Walk(filepath.Join(r.dir, "blobs"), func(p string, fi os.FileInfo, err error) error {
		if err != nil || fi.IsDir() {
			return nil
		}
		alg := digest.Algorithm(filepath.Base(filepath.Dir(p)))
		data, rerr := os.ReadFile(p)
		if rerr != nil || !alg.Available() || alg.FromBytes(data).Encoded() != fi.Name() {
			bad++
			return nil
		}
		if ns := g.ByDg[digest.NewDigestFromEncoded(alg, fi.Name()).String()]; len(ns) > 0 {
			blobs = append(blobs, ns...)
		} else if ns := g.ByDg[digest.FromBytes(data).String()]; alg != digest.SHA256 && len(ns) > 0 {
			altblobs = append(altblobs, ns...) // a known blob stored under another algorithm's digest (op strayalt)
		} else {
			bad++ // a file this history never produced
		}
		return nil
	})
	sort.Ints(blobs)
	sort.Ints(altblobs)
	m["blobs"], m["badblobs"], m["altblobs"] = blobs, bad, altblobs
	entries := [][]any{}
	dangling := 0
	for _, e := range index.Manifests {
		ref := e.Annotations[ocispec.AnnotationRefName]
		entries = append(entries, []any{ref, r.nodeOf(e)})
		if ref != "" {
			fi, err := os.Stat(filepath.Join(r.dir, "blobs", e.Digest.Algorithm().String(), e.Digest.Encoded()))
			if err != nil || fi.Size() != e.Size {
				dangling++
			}
		}
	}
	m["entries"], m["danglingnamed"] = entries, dangling
	return m
}

// tarDir archives the layout directory. stale, when not nil, is written first as an earlier index.json member: an
// archive that was updated in place (tar -r) holds the old and the new index.json, and the later member is the one
// that counts.
func tarDir(dir, out string, stale []byte) error {
	f, err := os.Create(out)
	if err != nil {
		return err
	}
	defer f.Close()
	tw := tar.NewWriter(f)
	defer tw.Close()
	if stale != nil {
		if err := tw.WriteHeader(&tar.Header{Name: "index.json", Mode: 0o644, Size: int64(len(stale)), Typeflag: tar.TypeReg}); err != nil {
			return err
		}
		if _, err := tw.Write(stale); err != nil {
			return err
		}
	}
	return filepath.Walk(dir, func(p string, fi os.FileInfo, err error) error {
		if err != nil {
			return err
		}
		rel, _ := filepath.Rel(dir, p)
		if rel == "." {
			return nil
		}
		h, err := tar.FileInfoHeader(fi, "")
		if err != nil {
			return err
		}
		h.Name = filepath.ToSlash(rel)
		if fi.IsDir() {
			h.Name += "/"
		}
		if err := tw.WriteHeader(h); err != nil {
			return err
		}
		if fi.Mode().IsRegular() {
			b, err := os.ReadFile(p)
			if err != nil {
				return err
			}
			_, err = tw.Write(b)
			return err
		}
		return nil
	})
}

// reopen opens the directory again in the given mode and records what it shows.
func (r *runner) reopen(ctx context.Context, mode string) {
	var st readStore
	var err error
	switch mode {
	case "rw":
		st, err = oci.New(r.dir)
	case "rwcancel":
		// opened with a context that is already cancelled: either an error, or a store that shows the same state
		cctx, cancel := context.WithCancel(ctx)
		cancel()
		st, err = oci.NewWithContext(cctx, r.dir)
		if err != nil {
			return
		}
		mode = "rw"
	case "fs":
		st, err = oci.NewFromFS(ctx, os.DirFS(r.dir))
	case "fsfault":
		// the file system fails the first attempt to open a blob while the layout is loaded (too many open files):
		// either loading fails, or the store shows the same state - never a store that silently lacks something
		ff := &faultFS{FS: os.DirFS(r.dir), armed: true}
		st, err = oci.NewFromFS(ctx, ff)
		ff.disarm()
		if err != nil {
			return
		}
		mode = "fs"
	case "tar", "tarupdated":
		tp := filepath.Join(filepath.Dir(r.dir), fmt.Sprintf("layout-%d.tar", r.sc.ID))
		var stale []byte
		if mode == "tarupdated" {
			stale = []byte(`{"schemaVersion":2,"manifests":[]}`)
			mode = "tar"
		}
		if err = tarDir(r.dir, tp, stale); err == nil {
			st, err = oci.NewFromTar(ctx, tp)
		}
		defer os.Remove(tp)
	}
	if err != nil {
		r.tr.Emit(map[string]any{"e": "reopenerr", "mode": mode, "msg": err.Error()})
		return
	}
	r.tr.Emit(map[string]any{"e": "obs", "mode": mode, "o": r.observe(ctx, st, "oci")})
}

// faultFS fails the first Open below blobs/ while armed.
type faultFS struct {
	fs.FS
	mu    sync.Mutex
	armed bool
}

func (f *faultFS) disarm() { f.mu.Lock(); f.armed = false; f.mu.Unlock() }

func (f *faultFS) Open(name string) (fs.File, error) {
	f.mu.Lock()
	hit := f.armed && strings.HasPrefix(name, "blobs/")
	if hit {
		f.armed = false
	}
	f.mu.Unlock()
	if hit {
		return nil, &fs.PathError{Op: "open", Path: name, Err: syscall.EMFILE}
	}
	return f.FS.Open(name)
}

// annSig is a canonical string of a descriptor's annotations without the reference name.
func annSig(a map[string]string) string {
	var ks []string
	for k := range a {
		if k != ocispec.AnnotationRefName {
			ks = append(ks, k)
		}
	}
	sort.Strings(ks)
	var sb strings.Builder
	for _, k := range ks {
		sb.WriteString(k + "=" + a[k] + ";")
	}
	return sb.String()
}

var errHang = errors.New("hang")

// guarded runs f with a watchdog.
func guarded(f func() error) error {
	ch := make(chan error, 1)
	go func() { ch <- f() }()
	select {
	case err := <-ch:
		return err
	case <-time.After(10 * time.Second):
		return errHang
	}
}

// orderFS delays the first Open of one path until another path has been opened (plus a moment for its reader to go on).
type orderFS struct {
	fs.FS
	mu     sync.Mutex
	first  string // this path ...
	then   string // ... before this one
	opened bool
}

func (o *orderFS) Open(name string) (fs.File, error) {
	if name == o.then {
		for i := 0; i < 400; i++ { // at most 200 ms
			o.mu.Lock()
			ok := o.opened
			o.mu.Unlock()
			if ok {
				time.Sleep(20 * time.Millisecond)
				break
			}
			time.Sleep(500 * time.Microsecond)
		}
	}
	f, err := o.FS.Open(name)
	if name == o.first {
		o.mu.Lock()
		o.opened = true
		o.mu.Unlock()
	}
	return f, err
}

// runTwin builds the twin layout through the store, collects the garbage (index.json then lists the tagged root only),
// reopens it and records the predecessors of the manifest's config and layer: exactly the manifest, whichever reference
// to its bytes the traversal sees first.
func runTwin(t *testing.T, sc *Scenario, tr *vh.Tracer, base string) {
	ctx := context.Background()
	dir, _ := os.MkdirTemp(base, "tw")
	defer os.RemoveAll(dir)
	st, err := oci.New(dir)
	if err != nil {
		t.Fatal(err)
	}
	type blob struct {
		d ocispec.Descriptor
		b []byte
	}
	mk := func(mt string, b []byte) blob { return blob{content.NewDescriptorFromBytes(mt, b), b} }
	js := func(v any) []byte { b, _ := json.Marshal(v); return b }
	cfg := mk(ocispec.MediaTypeImageConfig, []byte(fmt.Sprintf(`{"architecture":"amd64","os":"linux","twin":%d}`, sc.ID)))
	layer := mk(ocispec.MediaTypeImageLayer, []byte(fmt.Sprint("twin layer ", sc.ID)))
	man := mk(ocispec.MediaTypeImageManifest, js(ocispec.Manifest{Versioned: specs.Versioned{SchemaVersion: 2}, MediaType: ocispec.MediaTypeImageManifest,
		Config: cfg.d, Layers: []ocispec.Descriptor{layer.d}}))
	opaque := ocispec.Descriptor{MediaType: "application/octet-stream", Digest: man.d.Digest, Size: man.d.Size}
	art := mk(ocispec.MediaTypeImageManifest, js(ocispec.Manifest{Versioned: specs.Versioned{SchemaVersion: 2}, MediaType: ocispec.MediaTypeImageManifest,
		ArtifactType: "application/vnd.verif.bundle", Config: ocispec.DescriptorEmptyJSON, Layers: []ocispec.Descriptor{opaque}}))
	empty := blob{ocispec.DescriptorEmptyJSON, ocispec.DescriptorEmptyJSON.Data}
	inner := mk(ocispec.MediaTypeImageIndex, js(ocispec.Index{Versioned: specs.Versioned{SchemaVersion: 2}, MediaType: ocispec.MediaTypeImageIndex,
		Manifests: []ocispec.Descriptor{man.d}}))
	root := mk(ocispec.MediaTypeImageIndex, js(ocispec.Index{Versioned: specs.Versioned{SchemaVersion: 2}, MediaType: ocispec.MediaTypeImageIndex,
		Manifests: []ocispec.Descriptor{art.d, inner.d}}))
	for _, x := range []blob{cfg, layer, empty, man, art, inner, root} {
		if err := st.Push(ctx, x.d, bytes.NewReader(x.b)); err != nil && !errors.Is(err, errdef.ErrAlreadyExists) {
			t.Fatalf("twin: push: %v", err)
		}
	}
	if err := st.Tag(ctx, root.d, "root"); err != nil {
		t.Fatal(err)
	}
	if err := st.GC(ctx); err != nil {
		t.Fatalf("twin: GC: %v", err)
	}
	pathOf := func(d ocispec.Descriptor) string {
		return "blobs/" + d.Digest.Algorithm().String() + "/" + d.Digest.Encoded()
	}
	ofs := &orderFS{FS: os.DirFS(dir), first: pathOf(art.d), then: pathOf(inner.d)}
	if sc.Twin == "manifest" {
		ofs.first, ofs.then = pathOf(inner.d), pathOf(art.d)
	}
	tr.Begin(sc.ID)
	ro, err := oci.NewFromFS(ctx, ofs)
	if err != nil {
		tr.Emit(map[string]any{"e": "twin", "opened": false, "predcfg": []string{}, "predlayer": []string{}, "want": "M", "first": sc.Twin})
		return
	}
	names := map[digest.Digest]string{man.d.Digest: "M", art.d.Digest: "A", inner.d.Digest: "I", root.d.Digest: "R"}
	preds := func(d ocispec.Descriptor) []string {
		out := []string{}
		ps, _ := ro.Predecessors(ctx, d)
		for _, p := range ps {
			out = append(out, names[p.Digest])
		}
		sort.Strings(out)
		return out
	}
	tr.Emit(map[string]any{"e": "twin", "opened": true, "predcfg": preds(cfg.d), "predlayer": preds(layer.d), "want": "M", "first": sc.Twin})
}

// RunOne executes one history; returns false when the store hung.
func RunOne(t *testing.T, sc *Scenario, tr *vh.Tracer, base string) bool {
	if sc.Twin != "" {
		runTwin(t, sc, tr, base)
		return true
	}
	g, err := vh.Build(sc.Nodes, fmt.Sprint("s", sc.ID))
	if err != nil {
		t.Fatal(err)
	}
	ctx := context.Background()
	r := &runner{t: t, sc: sc, g: g, tr: tr}
	r.dir, _ = os.MkdirTemp(base, "st")
	defer os.RemoveAll(r.dir)
	r.desc = make([]ocispec.Descriptor, g.N+1)
	for k := 1; k <= g.N; k++ {
		r.desc[k] = g.Descs[k]
		if sc.Kind == "file" && k < len(sc.Names) && sc.Names[k] != "" {
			r.desc[k].Annotations = map[string]string{ocispec.AnnotationTitle: sc.Names[k]}
		}
	}
	// descriptors used for tagging: annotated ones share one map per node, as a caller's variable would
	tagdesc := make([]ocispec.Descriptor, g.N+1)
	for k := 1; k <= g.N; k++ {
		tagdesc[k] = r.desc[k]
		if sc.Kind == "oci" && k < len(sc.Annot) && sc.Annot[k] {
			tagdesc[k].Annotations = map[string]string{"verif.note": fmt.Sprint("node-", k), "org.example/x": "y"}
		}
	}
	var st interface {
		content.Storage
		content.TagResolver
		content.PredecessorFinder
	}
	var ost *oci.Store
	switch sc.Kind {
	case "memory":
		st = memory.New()
	case "file":
		fs, err := file.New(r.dir)
		if err != nil {
			t.Fatal(err)
		}
		defer fs.Close()
		st = fs
	case "oci":
		ost, err = oci.New(r.dir)
		if err != nil {
			t.Fatal(err)
		}
		ost.AutoGC, ost.AutoSaveIndex = sc.AutoGC, sc.AutoSave
		st = ost
	}
	all := make([][]int, g.N)
	isman := make([]bool, g.N)
	subj := make([]int, g.N)
	names := make([]string, g.N)
	for k := 1; k <= g.N; k++ {
		all[k-1], isman[k-1] = g.SuccAll(k), vh.IsManifestKind(g.Nodes[k].Kind)
		for _, e := range g.Nodes[k].Edges {
			if e.Role == "subject" {
				subj[k-1] = e.To
			}
		}
		if k < len(sc.Names) {
			names[k-1] = sc.Names[k]
		}
	}
	tr.Begin(sc.ID)
	tr.Emit(map[string]any{"e": "init", "kind": sc.Kind, "n": g.N, "all": all, "isman": isman, "subj": subj, "names": names,
		"refs": refs, "autogc": sc.AutoGC, "autosave": sc.AutoSave})
	observeAll := func(last bool, op string) {
		tr.Emit(map[string]any{"e": "obs", "mode": "live", "o": r.observe(ctx, st, sc.Kind)})
		if sc.Kind != "oci" {
			return
		}
		if !sc.AutoSave {
			if err := ost.SaveIndex(); err != nil {
				t.Fatalf("SaveIndex: %v", err)
			}
		}
		tr.Emit(r.disk())
		if sc.Reopen == "all" || last || op == "delete" || op == "gc" {
			for _, m := range []string{"rw", "fs", "tar", "tarupdated", "rwcancel", "fsfault"} {
				r.reopen(ctx, m)
			}
		} else {
			r.reopen(ctx, "rw")
		}
	}
	// direct: run Delete / GC on the calling goroutine (the concurrent tail registers that goroutine with the
	// scheduler; the watchdog goroutine of guarded() would pass the scheduling points unparked)
	direct := false
	run := func(f func() error) error {
		if direct {
			return f()
		}
		return guarded(f)
	}
	doOp := func(op Op) (m map[string]any, mutating bool) {
		m = map[string]any{"e": "op", "op": op.Op, "n": op.N, "ref": op.Ref}
		mutating = true
		var lastErr error
		cls := func(err error) string { lastErr = err; return class(err) }
		switch op.Op {
		case "push":
			if name := r.desc[op.N].Annotations[ocispec.AnnotationTitle]; op.Pre && sc.Kind == "file" && name != "" && !filepath.IsAbs(name) {
				p := filepath.Join(r.dir, name)
				if _, err := os.Lstat(p); err != nil {
					os.MkdirAll(filepath.Dir(p), 0o755)
					os.WriteFile(p, bytes.Repeat([]byte("z"), len(g.Blobs[op.N])+50), 0o644)
				}
			}
			m["res"] = cls(st.Push(ctx, r.desc[op.N], bytes.NewReader(g.Blobs[op.N])))
		case "pushbad":
			// wrong bytes of the right length under the node's descriptor: must be refused and change nothing
			bad := bytes.Repeat([]byte("x"), len(g.Blobs[op.N]))
			if len(bad) == 0 {
				bad = []byte("x")
			}
			err := st.Push(ctx, r.desc[op.N], bytes.NewReader(bad))
			m["res"] = cls(err)
			if err != nil && !errors.Is(err, errdef.ErrAlreadyExists) && !errors.Is(err, file.ErrDuplicateName) {
				m["res"] = "refused"
			}
		case "tag":
			td := tagdesc[op.N]
			if op.Av == 7 {
				// the descriptor a caller got from Resolve on a reopened layout: it names another reference in its
				// reference-name annotation. That annotation is the caller's; it must not come back as a tag.
				td = r.desc[op.N]
				td.Annotations = map[string]string{ocispec.AnnotationRefName: refs[(len(op.Ref)+op.N)%len(refs)]}
				for k, v := range r.desc[op.N].Annotations {
					td.Annotations[k] = v
				}
			} else if op.Av != 0 {
				// the same content described with other annotations: Resolve must answer with the latest descriptor
				td = r.desc[op.N]
				ann := map[string]string{"verif.variant": fmt.Sprint("v", op.Av)}
				for k, v := range td.Annotations {
					ann[k] = v
				}
				td.Annotations = ann
			}
			m["res"] = cls(st.Tag(ctx, td, op.Ref))
			m["ann"], m["rn"] = annSig(td.Annotations), td.Annotations[ocispec.AnnotationRefName]
		case "untag":
			m["res"] = cls(ost.Untag(ctx, op.Ref))
		case "delete":
			err := run(func() error { return ost.Delete(ctx, g.Descs[op.N]) })
			m["res"] = cls(err)
			if err == errHang {
				m["res"] = "hang"
			}
		case "gc":
			err := run(func() error { return ost.GC(ctx) })
			m["res"] = cls(err)
			if err == errHang {
				m["res"] = "hang"
			}
		case "stray":
			d := g.Descs[op.N].Digest
			p := filepath.Join(r.dir, "blobs", d.Algorithm().String(), d.Encoded())
			os.MkdirAll(filepath.Dir(p), 0o755)
			if err := os.WriteFile(p, g.Blobs[op.N], 0o444); err != nil {
				t.Fatal(err)
			}
			m["res"] = "ok"
		case "strayalt":
			// the same bytes as a stray file named by their sha512 digest: an unreachable blob file like any other
			d := digest.SHA512.FromBytes(g.Blobs[op.N])
			p := filepath.Join(r.dir, "blobs", d.Algorithm().String(), d.Encoded())
			os.MkdirAll(filepath.Dir(p), 0o755)
			if err := os.WriteFile(p, g.Blobs[op.N], 0o444); err != nil {
				t.Fatal(err)
			}
			m["res"] = "ok"
		case "fetch":
			mutating = false
			b, err := content.FetchAll(ctx, st, r.desc[op.N])
			m["res"], m["bytesok"] = cls(err), err == nil && bytes.Equal(b, g.Blobs[op.N])
		case "exists":
			mutating = false
			ok, err := st.Exists(ctx, r.desc[op.N])
			m["res"], m["val"] = cls(err), ok
		case "resolve":
			mutating = false
			d, err := st.Resolve(ctx, op.Ref)
			m["res"], m["node"] = cls(err), r.nodeOf(d)
		case "pred":
			mutating = false
			ps, err := st.Predecessors(ctx, g.Descs[op.N])
			l := []int{}
			for _, p := range ps {
				l = append(l, r.nodeOf(p))
			}
			m["res"], m["list"] = cls(err), l
		case "tags":
			mutating = false
			var got []string
			err := ost.Tags(ctx, op.Last, func(ts []string) error { got = append(got, ts...); return nil })
			if got == nil {
				got = []string{}
			}
			m["res"], m["list"], m["last"] = cls(err), got, op.Last
		default:
			t.Fatalf("unknown op %q", op.Op)
		}
		if op.Op == "tags" {
			// the expected listing needs the model's tag map; the monitor computes it, the driver only sorts what
			// it was given so that "sorted" can be judged: want = sorted(list)
			l := append([]string{}, m["list"].([]string)...)
			sort.Strings(l)
			m["sorted"] = l
			gt := []string{}
			for _, r := range refs {
				if r > op.Last {
					gt = append(gt, r)
				}
			}
			m["gt"] = gt
		}
		if lastErr != nil {
			m["msg"] = lastErr.Error()
		}
		return m, mutating
	}
	for i, op := range sc.Ops {
		m, mutating := doOp(op)
		tr.Emit(m)
		if m["res"] == "hang" {
			return false
		}
		if mutating {
			observeAll(i == len(sc.Ops)-1 && len(sc.Par) == 0, op.Op)
		}
	}
	if len(sc.Par) == 0 {
		return true
	}
	// the concurrent tail: the operations of sc.Par run as goroutines, released one scheduling point at a time
	tr.Emit(map[string]any{"e": "par", "ops": sc.Par})
	direct = true
	ps := &vh.PSched{Quiet: time.Duration(vh.EnvInt("VH_QUIETUS", 400)) * time.Microsecond}
	verifhook.Set(ps.Point)
	var emu sync.Mutex
	for k, op := range sc.Par {
		k, op := k, op
		ps.Go(k, func() {
			m, _ := doOp(op)
			m["e"], m["k"] = "pop", k+1
			emu.Lock()
			tr.Emit(m)
			emu.Unlock()
		})
	}
	rng := rand.New(rand.NewSource(sc.Seed))
	heldSeen := false
	hang := ps.Run(func(step int, pend []*vh.POp) int {
		if step < len(sc.Prefix) {
			return sc.Prefix[step]
		}
		if sc.Policy == "holdmap" {
			held := -1
			for i, p := range pend {
				if p.Idx == 0 && p.Name != "resolver.Map" {
					return i // operation 1 goes on until it has its snapshot
				}
				if p.Idx == 0 {
					held, heldSeen = i, true
				}
			}
			if !heldSeen {
				return -1 // operation 1 is still on its way to the snapshot (or blocked): wait for it
			}
			for i, p := range pend {
				if p.Idx != 0 {
					return i // then the others run to their end
				}
			}
			if ps.Running() > 0 {
				return -1 // another operation is still on its way (or blocked on the lock the held one has): wait
			}
			if held >= 0 {
				return held
			}
		}
		return rng.Intn(len(pend))
	})
	verifhook.Set(nil)
	sc.Choices = ps.Choices
	if hang {
		tr.Emit(map[string]any{"e": "parhang"})
		ps.ReleaseAll()
		return false
	}
	tr.Emit(map[string]any{"e": "parend"})
	observeAll(true, "par")
	return true
}

// referrerChain is a crafted universe: an image, a referrer of it, a referrer of that referrer, and one more level.
func referrerChain() []vh.NodeSpec {
	e := func(role string, to int) vh.Edge { return vh.Edge{Role: role, To: to} }
	return []vh.NodeSpec{{}, {Kind: "blob", Edges: []vh.Edge{}},
		{Kind: "manifest", Edges: []vh.Edge{e("config", 1)}},
		{Kind: "manifest", Art: "application/vnd.verif.sig", Edges: []vh.Edge{e("subject", 2), e("config", 1)}},
		{Kind: "manifest", Art: "application/vnd.verif.att", Edges: []vh.Edge{e("subject", 3), e("config", 1)}},
		{Kind: "artifact", Art: "application/vnd.verif.sbom", Edges: []vh.Edge{e("subject", 4), e("blob", 1)}}}
}

// containedReferrer is a crafted universe: an image, a signature referring to it, an index that lists the signature
// (as a signed bundle would), and an attestation referring to the signature.
func containedReferrer() []vh.NodeSpec {
	e := func(role string, to int) vh.Edge { return vh.Edge{Role: role, To: to} }
	return []vh.NodeSpec{{}, {Kind: "blob", Edges: []vh.Edge{}},
		{Kind: "manifest", Edges: []vh.Edge{e("config", 1)}},
		{Kind: "manifest", Art: "application/vnd.verif.sig", Edges: []vh.Edge{e("subject", 2), e("config", 1)}},
		{Kind: "index", Edges: []vh.Edge{e("manifest", 3)}},
		{Kind: "manifest", Art: "application/vnd.verif.att", Edges: []vh.Edge{e("subject", 3), e("config", 1)}}}
}

// foreignLayers is a crafted universe: an image with an ordinary and a non-distributable layer (stored like any blob)
// and a signature referring to it. The non-distributable layer is a node of the graph like the other: GC keeps it while
// the image is reachable, and auto-GC removes it with the image.
func foreignLayers() []vh.NodeSpec {
	e := func(role string, to int) vh.Edge { return vh.Edge{Role: role, To: to} }
	return []vh.NodeSpec{{}, {Kind: "blob", Edges: []vh.Edge{}}, {Kind: "blob", Edges: []vh.Edge{}}, {Kind: "foreign", Edges: []vh.Edge{}},
		{Kind: "manifest", Edges: []vh.Edge{e("config", 1), e("layer", 2), e("layer", 3)}},
		{Kind: "manifest", Art: "application/vnd.verif.sig", Edges: []vh.Edge{e("subject", 4), e("config", 1)}}}
}

// containerWithSubject is a crafted universe: two images X and M, a signature R referring to M, and an index I that is
// attached to X (its subject) and lists R. Deleting M must keep R: a surviving node still contains it, although that
// container has a subject of its own.
func containerWithSubject() []vh.NodeSpec {
	e := func(role string, to int) vh.Edge { return vh.Edge{Role: role, To: to} }
	return []vh.NodeSpec{{}, {Kind: "blob", Edges: []vh.Edge{}},
		{Kind: "manifest", Edges: []vh.Edge{e("config", 1)}},                                                      // 2 X
		{Kind: "manifest", Ann: map[string]string{"which": "m"}, Edges: []vh.Edge{e("config", 1)}},                // 3 M
		{Kind: "manifest", Art: "application/vnd.verif.sig", Edges: []vh.Edge{e("subject", 3), e("config", 1)}},   // 4 R
		{Kind: "index", Art: "application/vnd.verif.bundle", Edges: []vh.Edge{e("subject", 2), e("manifest", 4)}}} // 5 I
}

func genScenario(rng *rand.Rand, kind string) Scenario {
	n := 3 + rng.Intn(3)
	succ := vh.RandomSucc(n, rng, 30+rng.Intn(30))
	nodes := vh.ShapeFromSucc(succ, rng, vh.ShapeOpts{Subjects: true, Artifact: true, Docker: kind != "oci" || rng.Intn(3) == 0, Dup: true,
		Alias: kind == "memory", Foreign: kind == "oci" && rng.Intn(3) == 0}) // (non-distributable layers are stored like any blob)
	chain := kind == "oci" && rng.Intn(3) == 0
	universe := -1
	if chain {
		universe = rng.Intn(4)
		nodes = [][]vh.NodeSpec{referrerChain(), containedReferrer(), foreignLayers(), containerWithSubject()}[universe]
		n = len(nodes) - 1
	}
	sc := Scenario{Kind: kind, Nodes: nodes, AutoGC: rng.Intn(2) == 0, AutoSave: rng.Intn(4) != 0, Reopen: "end"}
	if rng.Intn(5) == 0 {
		sc.Reopen = "all"
	}
	sc.Names = make([]string, n+1)
	var shared []int // two blobs that carry the same name (file store)
	sc.Annot = make([]bool, n+1)
	for k := 1; k <= n; k++ {
		sc.Annot[k] = kind == "oci" && rng.Intn(2) == 0
	}
	if kind == "file" {
		for k := 1; k <= n; k++ {
			if nodes[k].Kind == "blob" && rng.Intn(2) == 0 {
				sc.Names[k] = fmt.Sprintf("file%d.bin", k)
			}
		}
		if rng.Intn(3) == 0 {
			// two different blobs under one name: the name belongs to the first one pushed
			var bl []int
			for k := 1; k <= n; k++ {
				if nodes[k].Kind == "blob" && !nodes[k].Empty {
					bl = append(bl, k)
				}
			}
			if len(bl) >= 2 {
				rng.Shuffle(len(bl), func(i, j int) { bl[i], bl[j] = bl[j], bl[i] })
				sc.Names[bl[0]], sc.Names[bl[1]] = "shared.bin", "shared.bin"
				shared = bl[:2]
			}
		}
	}
	node := func() int { return 1 + rng.Intn(n) }
	ref := func() string { return refs[rng.Intn(len(refs))] }
	steps := 8 + rng.Intn(12)
	// start by pushing most nodes in a random order (children first, parents first, mixed)
	perm := rng.Perm(n)
	for _, p := range perm {
		if rng.Intn(4) == 0 {
			// a refused push of wrong bytes while the node is still absent must leave no trace
			sc.Ops = append(sc.Ops, Op{Op: "pushbad", N: p + 1})
		}
		if rng.Intn(5) != 0 {
			sc.Ops = append(sc.Ops, Op{Op: "push", N: p + 1, Pre: rng.Intn(3) == 0})
		}
	}
	if universe == 3 && rng.Intn(2) == 0 {
		// the situation the universe was made for: everything stored, the container (or nothing) tagged, the signed image
		// deleted with automatic garbage collection - the signature must stay, the container still lists it
		sc.AutoGC = true
		sc.Ops = nil
		for _, p := range perm {
			sc.Ops = append(sc.Ops, Op{Op: "push", N: p + 1})
		}
		if rng.Intn(3) != 0 {
			sc.Ops = append(sc.Ops, Op{Op: "tag", N: 5, Ref: ref()})
		}
		sc.Ops = append(sc.Ops, Op{Op: "delete", N: 3})
	} else if universe == 0 && rng.Intn(2) == 0 {
		// a referrer with two tags, one of which is moved to another manifest; then its subject is deleted with automatic
		// garbage collection: the referrer still carries a tag and stays
		sc.AutoGC = true
		sc.Ops = nil
		for _, p := range perm {
			sc.Ops = append(sc.Ops, Op{Op: "push", N: p + 1})
		}
		sc.Ops = append(sc.Ops, Op{Op: "tag", N: 3, Ref: refs[0]}, Op{Op: "tag", N: 3, Ref: refs[1]}, Op{Op: "tag", N: 4, Ref: refs[0]},
			Op{Op: "delete", N: 2})
	} else if universe == 2 && rng.Intn(2) == 0 {
		// an image with a non-distributable layer: tagged, garbage collected, then deleted with automatic collection
		sc.AutoGC = true
		sc.Ops = nil
		for _, p := range perm {
			sc.Ops = append(sc.Ops, Op{Op: "push", N: p + 1})
		}
		sc.Ops = append(sc.Ops, Op{Op: "tag", N: 4, Ref: ref()}, Op{Op: "gc"}, Op{Op: "delete", N: 4})
	} else if chain {
		// tag referrers in the middle of the chain, sometimes the image as well
		for k := 2; k <= n; k++ {
			if rng.Intn(3) == 0 {
				sc.Ops = append(sc.Ops, Op{Op: "tag", N: k, Ref: ref()})
			}
		}
	}
	for len(sc.Ops) < steps+n {
		x := rng.Intn(100)
		if chain && x < 58 && rng.Intn(2) == 0 {
			x = 68 + rng.Intn(26) // more deletes and GCs on the chain
		}
		switch {
		case x < 4:
			sc.Ops = append(sc.Ops, Op{Op: "pushbad", N: node()})
		case x < 14:
			sc.Ops = append(sc.Ops, Op{Op: "push", N: node(), Pre: rng.Intn(3) == 0})
		case x < 34:
			sc.Ops = append(sc.Ops, Op{Op: "tag", N: node(), Ref: ref(), Av: []int{0, 0, 1, 2, 7}[rng.Intn(5)]})
		case x < 42:
			sc.Ops = append(sc.Ops, Op{Op: "resolve", Ref: append(refs, "", "missing")[rng.Intn(len(refs)+2)]})
		case x < 48:
			sc.Ops = append(sc.Ops, Op{Op: "fetch", N: node()})
		case x < 52:
			sc.Ops = append(sc.Ops, Op{Op: "exists", N: node()})
		case x < 58:
			sc.Ops = append(sc.Ops, Op{Op: "pred", N: node()})
		case kind != "oci":
			sc.Ops = append(sc.Ops, Op{Op: "tag", N: node(), Ref: ref()})
		case x < 68:
			sc.Ops = append(sc.Ops, Op{Op: "untag", Ref: ref()})
		case x < 86:
			sc.Ops = append(sc.Ops, Op{Op: "delete", N: node()})
		case x < 94:
			// optionally drop a stray leaf blob first
			k := node()
			if nodes[k].Kind == "blob" && rng.Intn(3) == 0 {
				sc.Ops = append(sc.Ops, Op{Op: "stray", N: k})
			}
			if rng.Intn(4) == 0 {
				sc.Ops = append(sc.Ops, Op{Op: "strayalt", N: node()})
			}
			sc.Ops = append(sc.Ops, Op{Op: "gc"})
		default:
			sc.Ops = append(sc.Ops, Op{Op: "tags", Last: []string{"", "t1", "t2", "a", "z"}[rng.Intn(5)]})
		}
	}
	if rng.Intn(100) < vh.EnvInt("VH_PARPCT", 50) {
		// a concurrent tail of 2-3 operations, biased towards the same node / the same reference
		sc.Seed = rng.Int63()
		hot, hotref := node(), ref()
		pn := func() int {
			if rng.Intn(3) != 0 {
				return hot
			}
			return node()
		}
		pr := func() string {
			if rng.Intn(3) != 0 {
				return hotref
			}
			return ref()
		}
		if rng.Intn(3) == 0 {
			// racing pushes of one node that is still absent (and a tag of it): at most one push may be told "ok"
			absent := 0
			for _, k := range rng.Perm(n) {
				pushed := false
				for _, o := range sc.Ops {
					pushed = pushed || (o.Op == "push" && o.N == k+1)
				}
				if !pushed {
					absent = k + 1
					break
				}
			}
			if absent == 0 {
				absent = 1 + rng.Intn(n)
				var ops []Op
				for _, o := range sc.Ops {
					if !(o.Op == "push" && o.N == absent) {
						ops = append(ops, o)
					}
				}
				sc.Ops = ops
			}
			sc.Par = []Op{{Op: "push", N: absent}, {Op: "push", N: absent}}
			if rng.Intn(2) == 0 {
				sc.Par = append(sc.Par, Op{Op: "tag", N: absent, Ref: hotref})
			}
			return sc
		}
		if len(shared) == 2 {
			// two different blobs pushed under one name at once: exactly one of them gets the name
			var ops []Op
			for _, o := range sc.Ops {
				if !(o.Op == "push" && (o.N == shared[0] || o.N == shared[1])) {
					ops = append(ops, o)
				}
			}
			sc.Ops = ops
			sc.Par = []Op{{Op: "push", N: shared[0]}, {Op: "push", N: shared[1]}}
			return sc
		}
		if kind == "oci" && rng.Intn(5) == 0 {
			// two manifests pushed at once: each push saves index.json (AutoSaveIndex); the later save must not be
			// overwritten by an earlier snapshot
			var mans []int
			for k := 1; k <= n; k++ {
				if vh.IsManifestKind(nodes[k].Kind) {
					mans = append(mans, k)
				}
			}
			if len(mans) >= 2 {
				rng.Shuffle(len(mans), func(i, j int) { mans[i], mans[j] = mans[j], mans[i] })
				var ops []Op
				for _, o := range sc.Ops {
					if !(o.N == mans[0] || o.N == mans[1]) || o.Op == "fetch" || o.Op == "exists" || o.Op == "pred" {
						ops = append(ops, o)
					}
				}
				sc.Ops = ops
				sc.Par = []Op{{Op: "push", N: mans[0]}, {Op: "push", N: mans[1]}}
				if rng.Intn(3) != 0 {
					sc.Policy, sc.AutoSave = "holdmap", true
				}
				return sc
			}
		}
		if kind == "oci" && rng.Intn(4) == 0 {
			// a GC racing with a Tag (and a Push) of content it may be about to sweep
			var pushed []int
			for _, o := range sc.Ops {
				if o.Op == "push" && vh.IsManifestKind(nodes[o.N].Kind) {
					pushed = append(pushed, o.N)
				}
			}
			if len(pushed) > 0 {
				m := pushed[rng.Intn(len(pushed))]
				sc.Par = []Op{{Op: "gc"}, {Op: "tag", N: m, Ref: hotref}}
				if rng.Intn(2) == 0 {
					sc.Par = append(sc.Par, Op{Op: "push", N: node()})
				}
				return sc
			}
		}
		for k := 2 + rng.Intn(2); k > 0; k-- {
			x := rng.Intn(100)
			switch {
			case x < 25:
				sc.Par = append(sc.Par, Op{Op: "push", N: pn()})
			case x < 55:
				sc.Par = append(sc.Par, Op{Op: "tag", N: pn(), Ref: pr(), Av: []int{0, 1, 2}[rng.Intn(3)]})
			case x < 62:
				sc.Par = append(sc.Par, Op{Op: "fetch", N: pn()})
			case x < 66:
				sc.Par = append(sc.Par, Op{Op: "pred", N: pn()})
			case kind != "oci":
				sc.Par = append(sc.Par, Op{Op: "tag", N: pn(), Ref: pr()})
			case x < 74:
				sc.Par = append(sc.Par, Op{Op: "untag", Ref: pr()})
			case x < 94:
				sc.Par = append(sc.Par, Op{Op: "delete", N: pn()})
			default:
				sc.Par = append(sc.Par, Op{Op: "gc"})
			}
		}
	}
	return sc
}

func TestDrive(t *testing.T) {
	out := os.Getenv("VH_OUT")
	if out == "" {
		t.Skip("VH_OUT not set")
	}
	seed := int64(vh.EnvInt("VH_SEED", 1))
	count := vh.EnvInt("VH_COUNT", 300)
	kinds := strings.Split(vh.EnvStr("VH_KINDS", "memory,oci,file,oci,oci"), ",")
	rng := rand.New(rand.NewSource(seed))
	rot := &vh.Rot{Dir: out, Max: vh.EnvInt("VH_ROT", 60000)}
	sf, _ := os.Create(out + "/scenarios.ndjson")
	defer sf.Close()
	enc := json.NewEncoder(sf)
	base := t.TempDir()
	hangs, n := 0, 0
	perKind := map[string]int{}
	run := func(sc Scenario) {
		n++
		sc.ID = n
		perKind[sc.Kind]++
		if !RunOne(t, &sc, rot.Next(), base) {
			hangs++
		}
		enc.Encode(sc)
	}
	if rp := os.Getenv("VH_REPLAY"); rp != "" {
		b, err := os.ReadFile(rp)
		if err != nil {
			t.Fatal(err)
		}
		for _, line := range strings.Split(strings.TrimSpace(string(b)), "\n") {
			var sc Scenario
			if err := json.Unmarshal([]byte(line), &sc); err != nil {
				t.Fatal(err)
			}
			run(sc)
		}
	} else {
		if strings.Contains(","+strings.Join(kinds, ",")+",", ",oci,") {
			for _, first := range []string{"opaque", "manifest", "opaque", "manifest"} {
				run(Scenario{Kind: "oci", Ops: []Op{}, Twin: first})
			}
		}
		for i := 0; i < count && hangs < 3; i++ {
			run(genScenario(rng, kinds[i%len(kinds)]))
		}
	}
	rot.Close()
	sum, _ := json.Marshal(map[string]any{"histories": n, "events": rot.Total, "hangs": hangs, "per_kind": perKind, "files": rot.Files})
	os.WriteFile(out+"/summary.json", sum, 0o644)
}

var _ = io.EOF
var _ fs.FS
