package credfam

import (
	"context"
	"encoding/json"
	"math/rand"
	"os"
	"path/filepath"
	"strings"
	"sync"
	"testing"

	"oras.land/oras-go/v2/registry/remote/auth"
	"oras.land/oras-go/v2/registry/remote/credentials"
	"verif/harness/vh"
)

var addrs = []string{"a.io", "b.io:5000", "https://a.io/", "http://c.io/v1/", "c.io", "https://b.io:5000/v1/", "b.io"}

var creds = []auth.Credential{
	{Username: "alice", Password: "secret"},
	{Username: "bob", Password: "p:a:s:s"},
	{Username: "", Password: "only-password"},
	{Username: "ünï", Password: "pä55wörd→"},
	// bytes whose base64 text uses the two symbols in which the standard and the URL alphabet differ ("+" and "/")
	{Username: "admin", Password: "Wh?not~>"},
	{Username: "пользователь", Password: "пароль"},
	{Username: "jürgen", Password: "geheim-ÿß"},
	{Username: "a", Password: "???>>>~~~"},
	{RefreshToken: "refresh-1"},
	{AccessToken: "access-1"},
	{Username: "carol", Password: "pw", RefreshToken: "r2", AccessToken: "a2"},
	{Username: "dave", Password: "ends with space "},
	{Username: " leading", Password: "\ttab and newline\n"},
	{Username: "erin", Password: "   "},
	{Username: "bad:user", Password: "x"}, // must be refused
	{},
}

var initialDocs = []string{
	"", // no file
	`{}`,
	`{"auths":{}}`,
	`{"credsStore":"desktop","experimental":"enabled","auths":{"https://a.io/":{"auth":"bGVnYWN5OnB3","email":"l@a.io"},"b.io:5000":{"username":"olduser","password":"oldpass","identitytoken":"idt"}}}`,
	`{"auths":{"c.io":{"auth":"dTpw","registrytoken":"rt","unknown":{"k":[1,2]}},"http://c.io/v1/":{"auth":"djE6cHc="}},"HttpHeaders":{"User-Agent":"x"},"psFormat":"table"}`,
	// a legacy URL key that carries a port: it stands for the registry b.io:5000, not for b.io
	`{"auths":{"https://b.io:5000/v1/":{"auth":"cG9ydGVkOnB3"},"a.io":{"auth":"dTpw"}}}`,
}

type credJSON struct {
	User    string `json:"user"`
	Pass    string `json:"pass"`
	Refresh string `json:"refresh"`
	Access  string `json:"access"`
}

func cj(c auth.Credential) credJSON {
	return credJSON{c.Username, c.Password, c.RefreshToken, c.AccessToken}
}

func class(err error) string {
	if err == nil {
		return "ok"
	}
	return "err"
}

func hosts() [][]string {
	out := [][]string{}
	for _, a := range append(append([]string{}, addrs...), "z.io") {
		out = append(out, []string{a, HostOf(a)})
	}
	return out
}

func fileRec(path string, written bool) map[string]any {
	doc, exists, parses, mode := ReadDoc(path)
	return map[string]any{"e": "file", "doc": doc, "exists": exists, "parses": parses, "mode": mode, "written": written}
}

func TestDrive(t *testing.T) {
	out := os.Getenv("VH_OUT")
	if out == "" {
		t.Skip("VH_OUT not set")
	}
	seed := int64(vh.EnvInt("VH_SEED", 1))
	count := vh.EnvInt("VH_COUNT", 200)
	conc := vh.EnvInt("VH_CONC", 100)
	rng := rand.New(rand.NewSource(seed))
	rot := &vh.Rot{Dir: out, Max: vh.EnvInt("VH_ROT", 40000)}
	base := t.TempDir()
	ctx := context.Background()
	nops := 0
	for h := 1; h <= count+conc; h++ {
		tr := rot.Next()
		tr.Begin(h)
		dir, _ := os.MkdirTemp(base, "c")
		path := filepath.Join(dir, "sub", "config.json")
		init := initialDocs[rng.Intn(len(initialDocs))]
		if h > count && rng.Intn(2) == 0 {
			// a large document makes every save slow, so that concurrent saves overlap
			init = `{"auths":{"a.io":{"auth":"dTpw","blob":"` + strings.Repeat("x", 1<<20) + `"},"b.io:5000":{"auth":"dTpw"}}}`
		}
		if init != "" {
			os.MkdirAll(filepath.Dir(path), 0o755)
			os.WriteFile(path, []byte(init), 0o644)
		}
		doc0, exists, _, _ := ReadDoc(path)
		tr.Emit(map[string]any{"e": "init", "doc": doc0, "exists": exists, "hosts": hosts(), "raw": init})
		st, err := credentials.NewFileStore(path)
		if err != nil {
			t.Fatal(err)
		}
		written := false
		if h <= count {
			for i, n := 0, 3+rng.Intn(8); i < n; i++ {
				a := addrs[rng.Intn(len(addrs))]
				nops++
				switch x := rng.Intn(11); x {
				case 10:
					// the save is made to fail (the configuration directory is, for a moment, a regular file), then the
					// same Put is issued again through the same store: it must be written this time
					c := creds[rng.Intn(len(creds)-2)] // (valid user names only)
					sub := filepath.Dir(path)
					moved := false
					if _, serr := os.Stat(sub); serr == nil {
						os.Rename(sub, sub+".away")
						moved = true
					}
					os.WriteFile(sub, []byte("not a directory"), 0o644)
					first := st.Put(ctx, a, c)
					os.Remove(sub)
					if moved {
						os.Rename(sub+".away", sub)
					}
					err := st.Put(ctx, a, c)
					tr.Emit(map[string]any{"e": "op", "op": "putretry", "addr": a, "cred": cj(c), "userchars": vh.Chars(c.Username), "first": class(first), "res": class(err)})
					written = written || err == nil
				case 0, 1, 2, 3:
					c := creds[rng.Intn(len(creds))]
					err := st.Put(ctx, a, c)
					tr.Emit(map[string]any{"e": "op", "op": "put", "addr": a, "cred": cj(c), "userchars": vh.Chars(c.Username), "res": class(err)})
					written = written || err == nil
				case 4, 5:
					before, _, _, _ := ReadDoc(path)
					err := st.Delete(ctx, a)
					tr.Emit(map[string]any{"e": "op", "op": "delete", "addr": a, "res": class(err)})
					for _, e := range before.Auths {
						if e.Addr == a && err == nil {
							written = true
						}
					}
				default:
					q := a
					if rng.Intn(3) == 0 {
						q = HostOf(a)
					}
					c, err := st.Get(ctx, q)
					tr.Emit(map[string]any{"e": "op", "op": "get", "addr": q, "got": cj(c), "res": class(err)})
					continue
				}
				tr.Emit(fileRec(path, written))
				if rng.Intn(4) == 0 {
					// a second store opened on the same file sees the same document
					st, err = credentials.NewFileStore(path)
					if err != nil {
						t.Fatalf("reopen: %v", err)
					}
				}
			}
		} else {
			// concurrent round: up to 5 operations at once through one store
			n := 3 + rng.Intn(3)
			ops := make([]map[string]any, n)
			var wg sync.WaitGroup
			start := make(chan struct{})
			for i := 0; i < n; i++ {
				a := addrs[rng.Intn(3)]
				kind := rng.Intn(5)
				c := creds[rng.Intn(len(creds)-2)]
				wg.Add(1)
				go func(i int) {
					defer wg.Done()
					<-start
					switch {
					case kind < 2:
						err := st.Put(ctx, a, c)
						ops[i] = map[string]any{"op": "put", "addr": a, "cred": cj(c), "userchars": vh.Chars(c.Username), "res": class(err), "got": cj(auth.Credential{})}
					case kind < 3:
						err := st.Delete(ctx, a)
						ops[i] = map[string]any{"op": "delete", "addr": a, "cred": cj(auth.Credential{}), "userchars": []string{}, "res": class(err), "got": cj(auth.Credential{})}
					default:
						g, err := st.Get(ctx, a)
						ops[i] = map[string]any{"op": "get", "addr": a, "cred": cj(auth.Credential{}), "userchars": []string{}, "res": class(err), "got": cj(g)}
					}
				}(i)
			}
			close(start)
			wg.Wait()
			nops += n
			wrote := false
			for _, o := range ops {
				if o["op"] == "put" && o["res"] == "ok" {
					wrote = true
				}
			}
			doc, _, parses, mode := ReadDoc(path)
			tr.Emit(map[string]any{"e": "conc", "ops": ops, "doc": doc, "parses": parses, "mode": mode, "written": wrote})
		}
		os.RemoveAll(dir)
	}
	rot.Close()
	sum, _ := json.Marshal(map[string]any{"histories": count, "concurrent": conc, "ops": nops, "files": rot.Files})
	os.WriteFile(out+"/summary.json", sum, 0o644)
}
