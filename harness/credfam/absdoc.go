// Package credfam drives the credentials file store (C18) and abstracts the
// docker config file into the document of spec/CredModel.tla.
package credfam

import (
	"bytes"
	"crypto/sha256"
	"encoding/base64"
	"encoding/json"
	"fmt"
	"os"
	"sort"
	"strings"
)

// Entry is one element of doc.auths in CredModel.tla.
type Entry struct {
	Addr    string `json:"addr"`
	HasAuth bool   `json:"hasauth"`
	User    string `json:"user"`
	Pass    string `json:"pass"`
	Refresh string `json:"refresh"`
	Access  string `json:"access"`
	LUser   string `json:"luser"`
	LPass   string `json:"lpass"`
	Extra   string `json:"extra"`
}

type KV struct {
	K string `json:"k"`
	V string `json:"v"`
}

type Doc struct {
	Top   []KV    `json:"top"`
	Auths []Entry `json:"auths"`
}

func compact(raw json.RawMessage) string {
	var v any
	if err := json.Unmarshal(raw, &v); err != nil {
		return "<unparsable>" + string(raw)
	}
	b, _ := json.Marshal(v) // maps are marshalled with sorted keys
	if len(b) > 256 {
		// a long value is represented by its digest
		return fmt.Sprintf("sha256:%x/%d", sha256.Sum256(b), len(b))
	}
	return string(b)
}

// ReadDoc parses the config file. exists=false when there is no file.
func ReadDoc(path string) (doc Doc, exists, parses bool, mode string) {
	doc = Doc{Top: []KV{}, Auths: []Entry{}}
	fi, err := os.Lstat(path)
	if err != nil {
		return doc, false, false, ""
	}
	mode = fmt.Sprintf("%o", fi.Mode().Perm())
	b, err := os.ReadFile(path)
	if err != nil {
		return doc, true, false, mode
	}
	var top map[string]json.RawMessage
	dec := json.NewDecoder(bytes.NewReader(b))
	if err := dec.Decode(&top); err != nil {
		return doc, true, false, mode
	}
	if dec.More() {
		return doc, true, false, mode
	}
	for k, v := range top {
		if k != "auths" {
			doc.Top = append(doc.Top, KV{k, compact(v)})
		}
	}
	sort.Slice(doc.Top, func(i, j int) bool { return doc.Top[i].K < doc.Top[j].K })
	if raw, ok := top["auths"]; ok {
		var auths map[string]map[string]json.RawMessage
		if err := json.Unmarshal(raw, &auths); err != nil {
			return doc, true, false, mode
		}
		for addr, fields := range auths {
			e := Entry{Addr: addr}
			str := func(k string) string {
				var s string
				if raw, ok := fields[k]; ok {
					if json.Unmarshal(raw, &s) != nil {
						s = "<notstring>"
					}
					delete(fields, k)
				}
				return s
			}
			auth := str("auth")
			if auth != "" {
				e.HasAuth = true
				if dec, err := base64.StdEncoding.DecodeString(auth); err == nil {
					u, p, ok := strings.Cut(string(dec), ":")
					if ok {
						e.User, e.Pass = u, p
					} else {
						e.User = "<nocolon>"
					}
				} else {
					e.User = "<notbase64>"
				}
			}
			e.Refresh, e.Access, e.LUser, e.LPass = str("identitytoken"), str("registrytoken"), str("username"), str("password")
			if len(fields) > 0 {
				rest, _ := json.Marshal(fields)
				e.Extra = compact(rest)
			}
			doc.Auths = append(doc.Auths, e)
		}
		sort.Slice(doc.Auths, func(i, j int) bool { return doc.Auths[i].Addr < doc.Auths[j].Addr })
	}
	return doc, true, true, mode
}

// HostOf is the documented rule for legacy keys: strip the scheme and the path.
func HostOf(addr string) string {
	addr = strings.TrimPrefix(addr, "http://")
	addr = strings.TrimPrefix(addr, "https://")
	addr, _, _ = strings.Cut(addr, "/")
	return addr
}
