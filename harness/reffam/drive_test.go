// Package reffam records what registry.ParseReference, Reference.String,
// remote.Repository.ParseReference and the request URLs of a Repository do for
// enumerated and generated strings (C20). spec/RefJudge.tla judges the records.
package reffam

import (
	"bytes"
	"context"
	"encoding/json"
	"fmt"
	"io"
	"math/rand"
	"net/http"
	"os"
	"strings"
	"sync"
	"testing"

	"github.com/opencontainers/go-digest"
	ocispec "github.com/opencontainers/image-spec/specs-go/v1"
	"oras.land/oras-go/v2/registry"
	"oras.land/oras-go/v2/registry/remote"
	"verif/harness/vh"
)

type rt struct {
	mu   sync.Mutex
	reqs []*http.Request
	// stream: a manifest GET is answered with a body of unannounced length (chunked), which makes FetchReference ask
	// again (HEAD) for the descriptor
	stream bool
}

func (r *rt) RoundTrip(req *http.Request) (*http.Response, error) {
	r.mu.Lock()
	r.reqs = append(r.reqs, req)
	stream := r.stream
	r.mu.Unlock()
	if stream && req.Method == http.MethodGet && strings.Contains(req.URL.Path, "/manifests/") {
		h := http.Header{}
		h.Set("Content-Type", ocispec.MediaTypeImageManifest)
		return &http.Response{StatusCode: 200, Status: "200 OK", Header: h, ContentLength: -1,
			Body: io.NopCloser(strings.NewReader(`{"schemaVersion":2}`)), Request: req}, nil
	}
	return &http.Response{StatusCode: 404, Status: "404 Not Found", Header: http.Header{}, Body: io.NopCloser(strings.NewReader("")), Request: req}, nil
}

type drv struct {
	rot      *vh.Rot
	tr       *vh.Tracer
	n        int
	urls     int
	ucap     int
	accepted int
}

func (d *drv) emit(m map[string]any) {
	d.tr = d.rot.Next()
	d.n++
	m["t"] = 0
	d.tr.Emit(m)
}

// parse records ParseReference(s), String() and the re-parse.
func (d *drv) parse(s string) {
	ref, err := registry.ParseReference(s)
	m := map[string]any{"e": "parse", "s": vh.Chars(s), "ok": err == nil,
		"reg": vh.Chars(ref.Registry), "repo": vh.Chars(ref.Repository), "ref": vh.Chars(ref.Reference)}
	str := ""
	var ref2 registry.Reference
	var err2 error = fmt.Errorf("n/a")
	if err == nil {
		d.accepted++
		str = ref.String()
		ref2, err2 = registry.ParseReference(str)
	}
	m["str"] = vh.Chars(str)
	m["ok2"] = err2 == nil
	m["reg2"], m["repo2"], m["ref2"] = vh.Chars(ref2.Registry), vh.Chars(ref2.Repository), vh.Chars(ref2.Reference)
	d.emit(m)
	if err == nil && ref.Reference != "" && d.urls < d.ucap {
		d.url(ref)
	}
}

// url issues requests through a real Repository and records where they went.
func (d *drv) url(ref registry.Reference) {
	d.urls++
	rec := &rt{}
	repo, err := remote.NewRepository(ref.Registry + "/" + ref.Repository)
	if err != nil {
		return
	}
	repo.Client = &http.Client{Transport: rec}
	repo.PlainHTTP = true
	ctx := context.Background()
	type call struct {
		kind string
		f    func()
	}
	// every spelling of the same reference that a Repository accepts
	spell := []string{ref.Reference, ref.String()}
	if _, err := ref.Digest(); err == nil {
		spell = append(spell, "sometag@"+ref.Reference, ref.Registry+"/"+ref.Repository+":sometag@"+ref.Reference)
	}
	body := []byte(`{"schemaVersion":2}`)
	desc := ocispec.Descriptor{MediaType: ocispec.MediaTypeImageManifest, Digest: digest.FromBytes(body), Size: int64(len(body))}
	var calls []call
	for _, sp := range spell {
		sp := sp
		calls = append(calls,
			call{"manifests", func() { repo.Manifests().Resolve(ctx, sp) }},
			call{"manifests", func() {
				_, rc, err := repo.FetchReference(ctx, sp)
				if err == nil {
					rc.Close()
				}
			}},
			call{"manifests", func() {
				rec.mu.Lock()
				rec.stream = true
				rec.mu.Unlock()
				_, rc, err := repo.FetchReference(ctx, sp)
				if err == nil {
					rc.Close()
				}
				rec.mu.Lock()
				rec.stream = false
				rec.mu.Unlock()
			}},
			call{"manifests", func() { repo.Resolve(ctx, sp) }},
			call{"manifests", func() { repo.PushReference(ctx, desc, bytes.NewReader(body), sp) }},
		)
	}
	for _, c := range calls {
		rec.reqs = nil
		c.f()
		for _, q := range rec.reqs {
			d.emit(map[string]any{"e": "url", "kind": c.kind, "path": q.URL.EscapedPath(), "query": q.URL.RawQuery,
				"host": q.URL.Host, "reg": vh.Chars(ref.Registry), "repo": vh.Chars(ref.Repository), "ref": vh.Chars(ref.Reference)})
		}
	}
}

func (d *drv) repoParse(base registry.Reference, s string) {
	repo := &remote.Repository{Reference: base}
	ref, err := repo.ParseReference(s)
	d.emit(map[string]any{"e": "repoparse", "breg": vh.Chars(base.Registry), "brepo": vh.Chars(base.Repository),
		"s": vh.Chars(s), "ok": err == nil, "reg": vh.Chars(ref.Registry), "repo": vh.Chars(ref.Repository), "ref": vh.Chars(ref.Reference)})
}

const alpha = "aA0._-/:@"

func enumerate(maxLen int, f func(string)) {
	var rec func(prefix []byte)
	rec = func(prefix []byte) {
		if len(prefix) > 0 {
			f(string(prefix))
		}
		if len(prefix) == maxLen {
			return
		}
		for i := 0; i < len(alpha); i++ {
			rec(append(prefix, alpha[i]))
		}
	}
	rec(nil)
}

func hexOf(rng *rand.Rand, n int) string {
	const h = "0123456789abcdef"
	b := make([]byte, n)
	for i := range b {
		b[i] = h[rng.Intn(16)]
	}
	return string(b)
}

func TestDrive(t *testing.T) {
	out := os.Getenv("VH_OUT")
	if out == "" {
		t.Skip("VH_OUT not set")
	}
	seed := int64(vh.EnvInt("VH_SEED", 1))
	L := vh.EnvInt("VH_LEN", 5)
	nGen := vh.EnvInt("VH_GEN", 20000)
	rng := rand.New(rand.NewSource(seed))
	d := &drv{rot: &vh.Rot{Dir: out, Max: vh.EnvInt("VH_ROT", 40000)}, ucap: vh.EnvInt("VH_URLS", 4000)}

	if only := os.Getenv("VH_ONLY"); only != "" {
		// replay of one recorded input
		var rec struct{ E, S, Breg, Brepo, Reg, Repo, Ref string }
		if err := json.Unmarshal([]byte(only), &rec); err != nil {
			t.Fatal(err)
		}
		switch rec.E {
		case "repoparse":
			d.repoParse(registry.Reference{Registry: rec.Breg, Repository: rec.Brepo}, rec.S)
		case "url":
			d.ucap = 1
			d.url(registry.Reference{Registry: rec.Reg, Repository: rec.Repo, Reference: rec.Ref})
		default:
			d.ucap = 1
			d.parse(rec.S)
		}
		d.rot.Close()
		os.WriteFile(out+"/summary.json", []byte(fmt.Sprintf(`{"records":%d,"exhaustive_records":0,"accepted":%d,"url_refs":%d,"len":0,"files":[%s]}`,
			d.n, d.accepted, d.urls, quoteAll(d.rot.Files))), 0o644)
		return
	}

	// 1. exhaustive: whole strings, and paths behind a fixed valid registry
	enumerate(L, func(s string) { d.parse(s) })
	enumerate(L, func(s string) { d.parse("r/" + s) })
	exh := d.n

	// 2. generated: long digests and tags, registry forms, mutations
	algs := []struct {
		name string
		n    int
	}{{"sha256", 64}, {"sha384", 96}, {"sha512", 128}, {"sha1", 40}, {"md5", 32}, {"sha256", 63}, {"sha256", 65}, {"sha512", 64}, {"SHA256", 64}}
	regs := []string{"localhost", "localhost:5000", "registry.example.com", "reg.io:443", "10.0.0.1:5000", "[::1]:5000", "[::1]", "[2001:db8::1]", "[fe80::1]:443",
		"user@host", "user:pw@host:80", "host:port", "host:80:90", "Reg-1.Example.COM", "a..b", "-x-", "h#f", "h?q", "h h", ""}
	repos := []string{"a", "hello-world", "a/b/c", "a__b", "a___b", "a.b_c-d", "a--b", "a._b", "A", "a/", "/a", "a//b", "a/B", "0", "a-", "-a", "a_", "library/ubuntu"}
	mkdigest := func() string {
		a := algs[rng.Intn(len(algs))]
		h := hexOf(rng, a.n)
		if rng.Intn(8) == 0 { // upper-case one hex character
			i := rng.Intn(len(h))
			h = h[:i] + strings.ToUpper(h[i:i+1]) + h[i+1:]
		}
		return a.name + ":" + h
	}
	mktag := func() string {
		const w = "abcXYZ019_"
		const r = "abcXYZ019_.-"
		n := []int{1, 2, 7, 127, 128, 129, 130}[rng.Intn(7)]
		b := make([]byte, n)
		b[0] = w[rng.Intn(len(w))]
		if rng.Intn(10) == 0 {
			b[0] = ".-"[rng.Intn(2)]
		}
		for i := 1; i < n; i++ {
			b[i] = r[rng.Intn(len(r))]
		}
		if rng.Intn(12) == 0 && n > 2 {
			b[1+rng.Intn(n-1)] = "!/ +"[rng.Intn(4)]
		}
		return string(b)
	}
	mkref := func() string {
		reg := regs[rng.Intn(len(regs))]
		repo := repos[rng.Intn(len(repos))]
		switch rng.Intn(6) {
		case 0:
			return reg + "/" + repo
		case 1:
			return reg + "/" + repo + ":" + mktag()
		case 2:
			return reg + "/" + repo + "@" + mkdigest()
		case 3:
			return reg + "/" + repo + ":" + mktag() + "@" + mkdigest()
		case 4:
			return repo + ":" + mktag() // no registry
		default:
			return reg + "/" + repo + ":" + mktag() + ":" + mktag()
		}
	}
	mutate := func(s string) string {
		if len(s) == 0 {
			return s
		}
		i := rng.Intn(len(s))
		const pool = "aZ0._-/:@ %#?[]"
		switch rng.Intn(3) {
		case 0:
			return s[:i] + s[i+1:]
		case 1:
			return s[:i] + string(pool[rng.Intn(len(pool))]) + s[i:]
		default:
			return s[:i] + string(pool[rng.Intn(len(pool))]) + s[i+1:]
		}
	}
	for i := 0; i < nGen; i++ {
		s := mkref()
		if rng.Intn(3) == 0 {
			s = mutate(s)
		}
		d.parse(s)
	}
	for i := 0; i < nGen/4; i++ { // random strings over a wider alphabet
		const wide = "abzAZ09._-/:@ %#?[]!+=~"
		n := 1 + rng.Intn(24)
		b := make([]byte, n)
		for j := range b {
			b[j] = wide[rng.Intn(len(wide))]
		}
		d.parse(string(b))
	}

	// 3. Repository.ParseReference: short strings exhaustively, then generated forms
	base := registry.Reference{Registry: "r", Repository: "a"}
	enumerate(min(L, 4), func(s string) { d.repoParse(base, s) })
	base2 := registry.Reference{Registry: "localhost:5000", Repository: "a/b"}
	for i := 0; i < nGen; i++ {
		var s string
		switch rng.Intn(8) {
		case 0:
			s = mktag()
		case 1:
			s = mkdigest()
		case 2:
			s = mktag() + "@" + mkdigest()
		case 3:
			s = "localhost:5000/a/b:" + mktag()
		case 4:
			s = "localhost:5000/a/b@" + mkdigest()
		case 5:
			s = "localhost:5000/a/b:" + mktag() + "@" + mkdigest()
		case 6:
			s = mkref()
		default:
			s = "localhost:5000/a/b"
		}
		if rng.Intn(4) == 0 {
			s = mutate(s)
		}
		d.repoParse(base2, s)
	}
	// 3b. registries that are names of one service (Reference.Host maps docker.io to registry-1.docker.io): a Repository
	// still is the registry it was made for - the other name is another registry
	names := []string{"docker.io", "registry-1.docker.io", "index.docker.io", "DOCKER.IO", "docker.io:443", "localhost:5000", "localhost"}
	for _, bn := range names {
		for _, on := range names {
			b := registry.Reference{Registry: bn, Repository: "library/x"}
			for _, tail := range []string{"", ":" + mktag(), "@" + mkdigest(), ":" + mktag() + "@" + mkdigest()} {
				d.repoParse(b, on+"/library/x"+tail)
			}
		}
	}
	d.rot.Close()
	sum := fmt.Sprintf(`{"records":%d,"exhaustive_records":%d,"accepted":%d,"url_refs":%d,"len":%d,"files":[%s]}`,
		d.n, exh, d.accepted, d.urls, L, quoteAll(d.rot.Files))
	os.WriteFile(out+"/summary.json", []byte(sum), 0o644)
}

func quoteAll(s []string) string {
	q := make([]string, len(s))
	for i, x := range s {
		q[i] = fmt.Sprintf("%q", x)
	}
	return strings.Join(q, ",")
}
