// Package regfake is an in-process OCI distribution registry: an
// http.RoundTripper (no sockets) with a capability profile, a single-field
// response corrupter and an exchange logger. Its behaviour is itself checked
// against spec/Registry.tla: every exchange is logged with the registry state
// after it, and TLC replays the exchanges on the model.
package regfake

import (
	"bytes"
	"encoding/json"
	"fmt"
	"io"
	"net/http"
	"net/url"
	"sort"
	"strconv"
	"strings"
	"sync"

	"github.com/opencontainers/go-digest"
	ocispec "github.com/opencontainers/image-spec/specs-go/v1"
)

// Profile is what the registry can do.
type Profile struct {
	RefPageLimit   int  `json:"refpagelimit"`   // Referrers API: at most this many descriptors per response, continued through a Link (0: one page)
	NoServerFilter bool `json:"noserverfilter"` // Referrers API: the artifactType parameter is ignored (the client has to filter)
	StrictAccept   bool `json:"strictaccept"`   // manifests are served only under a media type the request's Accept header lists
	NoLenGet       bool `json:"nolenget"`       // blob GET bodies are streamed without a Content-Length (HEAD still tells the length)
	Referrers      bool `json:"referrers"`      // Referrers API (and the OCI-Subject header on manifest PUT)
	DigestHdr      bool `json:"digesthdr"`      // Docker-Content-Digest on blob / manifest responses
	Range          bool `json:"range"`          // Accept-Ranges: bytes and Range requests on blobs
	Mount          bool `json:"mount"`          // cross-repository blob mount
	PageLimit      int  `json:"pagelimit"`      // server-imposed page size for tag listing (0: none)
}

type manifest struct {
	MediaType string
	Body      []byte
	Subject   string // digest of the subject, "" if none
	ArtType   string
	Ann       map[string]string
}

type repo struct {
	blobs     map[string][]byte
	manifests map[string]*manifest
	tags      map[string]string
}

// Exchange is the abstract record of one request / response pair.
type Exchange struct {
	Method  string            `json:"method"`
	Path    string            `json:"path"`
	Repo    string            `json:"repo"`
	Route   string            `json:"route"` // base blob manifest uploadstart uploadput tags referrers other
	Ref     string            `json:"ref"`   // digest or tag in the path
	Query   map[string]string `json:"query"`
	ReqCT   string            `json:"reqct"`
	AcceptL []string          `json:"acceptl"` // media types of the Accept header
	Accept  bool              `json:"accept"`
	Range   string            `json:"range"`
	BodyDg  string            `json:"bodydg"`
	BodyLen int               `json:"bodylen"`
	Status  int               `json:"status"`
	RespDg  string            `json:"respdg"` // Docker-Content-Digest sent
	RespLen int64             `json:"resplen"`
	RespCT  string            `json:"respct"`
	Corrupt string            `json:"corrupt"` // which field of this response was corrupted ("" none)
	Subject bool              `json:"ocisubject"`
	Loc     string            `json:"loc"`
	UpID    string            `json:"upid"`            // upload session id issued by this response
	Actor   string            `json:"actor,omitempty"` // ActorKey value of the request's context (which call issued it)
}

// ActorKey is the context key under which a driver names the call that issues a request.
type ActorKey struct{}

// Corruption asks for one response to be damaged: the Nth response (1-based,
// counted from when it was armed) to a request matching Method and Route.
type Corruption struct {
	Method string
	Route  string
	Field  string // digest length ctype body
	Nth    int
}

type Registry struct {
	Host    string
	Profile Profile
	mu      sync.Mutex
	repos   map[string]*repo
	uploads map[string]string // upload id -> repo
	nextUp  int
	Log     func(Exchange)
	corrupt *Corruption
	seen    int
	// Gate, when set, is called before a request is served (scheduling hook).
	Gate func(method, route, ref string)
	// Fail, when set, may turn a request into an injected server error.
	Fail func(method, route, ref string) bool
}

func New(host string, p Profile) *Registry {
	return &Registry{Host: host, Profile: p, repos: map[string]*repo{}, uploads: map[string]string{}}
}

// SetReferrers switches the Referrers API (and the OCI-Subject header) on or off.
func (r *Registry) SetReferrers(on bool) { r.mu.Lock(); r.Profile.Referrers = on; r.mu.Unlock() }

func (r *Registry) Arm(c *Corruption) { r.mu.Lock(); r.corrupt, r.seen = c, 0; r.mu.Unlock() }

func (r *Registry) repo(name string) *repo {
	rp := r.repos[name]
	if rp == nil {
		rp = &repo{blobs: map[string][]byte{}, manifests: map[string]*manifest{}, tags: map[string]string{}}
		r.repos[name] = rp
	}
	return rp
}

// State is the registry's content: sorted lists for the trace.
type State struct {
	Blobs     [][]string `json:"blobs"`     // [repo, digest]
	Manifests [][]string `json:"manifests"` // [repo, digest]
	Tags      [][]string `json:"tags"`      // [repo, tag, digest]
}

func (r *Registry) Snapshot() State {
	r.mu.Lock()
	defer r.mu.Unlock()
	return r.snapshot()
}

// SnapshotLocked is Snapshot for callers that run inside the registry's lock (the Log hook).
func (r *Registry) SnapshotLocked() State { return r.snapshot() }

func (r *Registry) snapshot() State {
	s := State{Blobs: [][]string{}, Manifests: [][]string{}, Tags: [][]string{}}
	for name, rp := range r.repos {
		for d := range rp.blobs {
			s.Blobs = append(s.Blobs, []string{name, d})
		}
		for d := range rp.manifests {
			s.Manifests = append(s.Manifests, []string{name, d})
		}
		for t, d := range rp.tags {
			s.Tags = append(s.Tags, []string{name, t, d})
		}
	}
	less := func(a [][]string) func(i, j int) bool {
		return func(i, j int) bool { return strings.Join(a[i], "|") < strings.Join(a[j], "|") }
	}
	sort.Slice(s.Blobs, less(s.Blobs))
	sort.Slice(s.Manifests, less(s.Manifests))
	sort.Slice(s.Tags, less(s.Tags))
	return s
}

// Seed stores content directly (test setup).
func (r *Registry) SeedBlob(repoName string, b []byte) {
	r.mu.Lock()
	defer r.mu.Unlock()
	r.repo(repoName).blobs[digest.FromBytes(b).String()] = b
}

func (r *Registry) SeedManifest(repoName, mediaType string, b []byte, tag string) {
	r.mu.Lock()
	defer r.mu.Unlock()
	r.putManifest(r.repo(repoName), mediaType, b, tag)
}

// ReplaceTagged stores a manifest under tag and removes the manifest the tag pointed to before (test setup).
func (r *Registry) ReplaceTagged(repoName, mediaType string, b []byte, tag string) {
	r.mu.Lock()
	defer r.mu.Unlock()
	rp := r.repo(repoName)
	if old, ok := rp.tags[tag]; ok {
		delete(rp.manifests, old)
	}
	r.putManifest(rp, mediaType, b, tag)
}

func (r *Registry) putManifest(rp *repo, mediaType string, b []byte, tag string) string {
	d := digest.FromBytes(b).String()
	var m struct {
		Subject      *ocispec.Descriptor `json:"subject"`
		ArtifactType string              `json:"artifactType"`
		Config       *ocispec.Descriptor `json:"config"`
		Annotations  map[string]string   `json:"annotations"`
	}
	json.Unmarshal(b, &m)
	man := &manifest{MediaType: mediaType, Body: b, ArtType: m.ArtifactType, Ann: m.Annotations}
	if m.Subject != nil {
		man.Subject = m.Subject.Digest.String()
	}
	if man.ArtType == "" && m.Config != nil {
		man.ArtType = m.Config.MediaType
	}
	rp.manifests[d] = man
	if tag != "" {
		rp.tags[tag] = d
	}
	return d
}

// acceptList splits an Accept header into media types (parameters dropped).
func acceptList(h string) []string {
	out := []string{}
	for _, p := range strings.Split(h, ",") {
		p = strings.TrimSpace(strings.SplitN(p, ";", 2)[0])
		if p != "" {
			out = append(out, p)
		}
	}
	return out
}

func accepts(l []string, mt string) bool {
	for _, a := range l {
		if a == mt || a == "*/*" {
			return true
		}
	}
	return false
}

func isDigest(s string) bool { _, err := digest.Parse(s); return err == nil }

func (r *Registry) RoundTrip(req *http.Request) (*http.Response, error) {
	var body []byte
	if req.Body != nil {
		body, _ = io.ReadAll(req.Body)
		req.Body.Close()
	}
	ex := Exchange{Method: req.Method, Path: req.URL.EscapedPath(), Query: map[string]string{}, ReqCT: req.Header.Get("Content-Type"),
		Accept: req.Header.Get("Accept") != "", AcceptL: acceptList(req.Header.Get("Accept")), Range: req.Header.Get("Range"), BodyLen: len(body)}
	for k, v := range req.URL.Query() {
		ex.Query[k] = strings.Join(v, ",")
	}
	if len(body) > 0 {
		ex.BodyDg = digest.FromBytes(body).String()
	}
	// route
	p := req.URL.Path
	route, repoName, ref := "other", "", ""
	switch {
	case p == "/v2/" || p == "/v2":
		route = "base"
	case strings.HasPrefix(p, "/v2/"):
		rest := strings.TrimPrefix(p, "/v2/")
		if i := strings.LastIndex(rest, "/blobs/uploads/"); i >= 0 {
			repoName, ref = rest[:i], rest[i+len("/blobs/uploads/"):]
			route = "uploadstart"
			if ref != "" {
				route = "uploadput"
			}
		} else if i := strings.LastIndex(rest, "/blobs/"); i >= 0 {
			route, repoName, ref = "blob", rest[:i], rest[i+len("/blobs/"):]
		} else if i := strings.LastIndex(rest, "/manifests/"); i >= 0 {
			route, repoName, ref = "manifest", rest[:i], rest[i+len("/manifests/"):]
		} else if strings.HasSuffix(rest, "/tags/list") {
			route, repoName = "tags", strings.TrimSuffix(rest, "/tags/list")
		} else if i := strings.LastIndex(rest, "/referrers/"); i >= 0 {
			route, repoName, ref = "referrers", rest[:i], rest[i+len("/referrers/"):]
		}
	}
	ex.Route, ex.Repo, ex.Ref = route, repoName, ref
	if a, ok := req.Context().Value(ActorKey{}).(string); ok {
		ex.Actor = a
	}
	if r.Gate != nil {
		r.Gate(req.Method, route, ref)
	}
	r.mu.Lock()
	defer r.mu.Unlock()
	h := http.Header{}
	status := 404
	var out []byte
	length := int64(-2) // -2: from body
	fail := r.Fail != nil && r.Fail(req.Method, route, ref)
	rp := r.repo(repoName)
	switch {
	case fail:
		status = 500
	case route == "base":
		status = 200
	case route == "blob":
		b, ok := rp.blobs[ref]
		switch req.Method {
		case http.MethodGet, http.MethodHead:
			if ok {
				status = 200
				h.Set("Content-Type", "application/octet-stream")
				if r.Profile.DigestHdr {
					h.Set("Docker-Content-Digest", ref)
				}
				if r.Profile.Range {
					h.Set("Accept-Ranges", "bytes")
				}
				out = b
				if rg := req.Header.Get("Range"); rg != "" && r.Profile.Range && req.Method == http.MethodGet {
					var from, to int
					to = len(b) - 1
					spec := strings.TrimPrefix(rg, "bytes=")
					parts := strings.SplitN(spec, "-", 2)
					from, _ = strconv.Atoi(parts[0])
					if len(parts) > 1 && parts[1] != "" {
						to, _ = strconv.Atoi(parts[1])
					}
					if from > len(b) {
						from = len(b)
					}
					if to >= len(b) {
						to = len(b) - 1
					}
					status = 206
					h.Set("Content-Range", fmt.Sprintf("bytes %d-%d/%d", from, to, len(b)))
					out = b[from : to+1]
				}
				if req.Method == http.MethodHead {
					length = int64(len(out))
					out = nil
				} else if r.Profile.NoLenGet {
					length = -1
				}
			}
		case http.MethodDelete:
			if ok {
				delete(rp.blobs, ref)
				status = 202
			}
		default:
			status = 405
		}
	case route == "uploadstart" && req.Method == http.MethodPost:
		mount, from := req.URL.Query().Get("mount"), req.URL.Query().Get("from")
		if mount != "" && from != "" && r.Profile.Mount {
			if b, ok := r.repo(from).blobs[mount]; ok {
				rp.blobs[mount] = b
				status = 201
				h.Set("Location", "/v2/"+repoName+"/blobs/"+mount)
				break
			}
		}
		r.nextUp++
		id := fmt.Sprintf("up%d", r.nextUp)
		r.uploads[id] = repoName
		ex.UpID = id
		status = 202
		h.Set("Location", "/v2/"+repoName+"/blobs/uploads/"+id+"?state=s"+id)
	case route == "uploadput" && req.Method == http.MethodPut:
		if r.uploads[ref] == repoName {
			want := req.URL.Query().Get("digest")
			if want == digest.FromBytes(body).String() {
				rp.blobs[want] = body
				delete(r.uploads, ref)
				status = 201
				h.Set("Location", "/v2/"+repoName+"/blobs/"+want)
				if r.Profile.DigestHdr {
					h.Set("Docker-Content-Digest", want)
				}
			} else {
				status = 400
			}
		}
	case route == "manifest":
		d := ref
		if !isDigest(ref) {
			d = rp.tags[ref]
		}
		m, ok := rp.manifests[d]
		switch req.Method {
		case http.MethodGet, http.MethodHead:
			if ok && r.Profile.StrictAccept && len(ex.AcceptL) > 0 && !accepts(ex.AcceptL, m.MediaType) {
				ok = false // content negotiation: the manifest is not available under an acceptable media type
			}
			if ok {
				status = 200
				h.Set("Content-Type", m.MediaType)
				if r.Profile.DigestHdr {
					h.Set("Docker-Content-Digest", d)
				}
				out = m.Body
				if req.Method == http.MethodHead {
					length = int64(len(out))
					out = nil
				}
			}
		case http.MethodPut:
			got := digest.FromBytes(body).String()
			if isDigest(ref) && ref != got {
				status = 400
				break
			}
			tag := ""
			if !isDigest(ref) {
				tag = ref
			}
			r.putManifest(rp, req.Header.Get("Content-Type"), body, tag)
			status = 201
			h.Set("Location", "/v2/"+repoName+"/manifests/"+got)
			if r.Profile.DigestHdr {
				h.Set("Docker-Content-Digest", got)
			}
			if r.Profile.Referrers && rp.manifests[got].Subject != "" {
				h.Set("OCI-Subject", rp.manifests[got].Subject)
				ex.Subject = true
			}
		case http.MethodDelete:
			if ok && isDigest(ref) {
				delete(rp.manifests, d)
				for t, td := range rp.tags {
					if td == d {
						delete(rp.tags, t)
					}
				}
				status = 202
			}
		default:
			status = 405
		}
	case route == "tags" && req.Method == http.MethodGet:
		var tags []string
		for t := range rp.tags {
			tags = append(tags, t)
		}
		sort.Strings(tags)
		q := req.URL.Query()
		last := q.Get("last")
		n, _ := strconv.Atoi(q.Get("n"))
		var rest []string
		for _, t := range tags {
			if t > last {
				rest = append(rest, t)
			}
		}
		k := n
		if r.Profile.PageLimit > 0 && (k == 0 || r.Profile.PageLimit < k) {
			k = r.Profile.PageLimit
		}
		page := rest
		if k > 0 && len(rest) > k {
			page = rest[:k]
			nq := url.Values{}
			nq.Set("last", page[len(page)-1])
			if n > 0 {
				nq.Set("n", strconv.Itoa(n))
			}
			h.Set("Link", "</v2/"+repoName+"/tags/list?"+nq.Encode()+`>; rel="next"`)
		}
		if page == nil {
			page = []string{}
		}
		out, _ = json.Marshal(map[string]any{"name": repoName, "tags": page})
		h.Set("Content-Type", "application/json")
		status = 200
	case route == "referrers" && req.Method == http.MethodGet:
		if r.Profile.Referrers {
			var ms []ocispec.Descriptor
			var ds []string
			for d := range rp.manifests {
				ds = append(ds, d)
			}
			sort.Strings(ds)
			at := req.URL.Query().Get("artifactType")
			for _, d := range ds {
				m := rp.manifests[d]
				if m.Subject == ref && (at == "" || r.Profile.NoServerFilter || m.ArtType == at) {
					ms = append(ms, ocispec.Descriptor{MediaType: m.MediaType, Digest: digest.Digest(d), Size: int64(len(m.Body)), ArtifactType: m.ArtType, Annotations: m.Ann})
				}
			}
			// pagination is the server's choice: a continuation parameter of its own in the Link it hands out
			if after := req.URL.Query().Get("verifafter"); after != "" {
				k := 0
				for k < len(ms) && ms[k].Digest.String() <= after {
					k++
				}
				ms = ms[k:]
			}
			if lim := r.Profile.RefPageLimit; lim > 0 && len(ms) > lim {
				ms = ms[:lim]
				nq := url.Values{}
				nq.Set("verifafter", ms[len(ms)-1].Digest.String())
				if at != "" {
					nq.Set("artifactType", at)
				}
				h.Set("Link", "</v2/"+repoName+"/referrers/"+ref+"?"+nq.Encode()+`>; rel="next"`)
			}
			if ms == nil {
				ms = []ocispec.Descriptor{}
			}
			out, _ = json.Marshal(ocispec.Index{MediaType: ocispec.MediaTypeImageIndex, Manifests: ms})
			h.Set("Content-Type", ocispec.MediaTypeImageIndex)
			if at != "" && !r.Profile.NoServerFilter {
				h.Set("OCI-Filters-Applied", "artifactType")
			}
			status = 200
		}
	}
	if status >= 400 && out == nil {
		code := "UNKNOWN"
		switch {
		case status == 404 && route == "blob":
			code = "BLOB_UNKNOWN"
		case status == 404 && route == "manifest":
			code = "MANIFEST_UNKNOWN"
		case status == 404:
			code = "NOT_FOUND"
		case status == 400:
			code = "DIGEST_INVALID"
		}
		if req.Method != http.MethodHead {
			out = []byte(fmt.Sprintf(`{"errors":[{"code":%q,"message":"verif registry"}]}`, code))
			h.Set("Content-Type", "application/json")
		}
	}
	if length == -2 {
		length = int64(len(out))
	}
	// single-field corruption of an otherwise valid response
	if c := r.corrupt; c != nil && status < 300 && c.Method == req.Method && c.Route == route {
		r.seen++
		if r.seen == c.Nth {
			ex.Corrupt = c.Field
			switch c.Field {
			case "digest":
				h.Set("Docker-Content-Digest", digest.FromString("something else").String())
			case "length":
				length++
			case "ctype":
				h.Set("Content-Type", "application/vnd.verif.wrong+json")
			case "body":
				if len(out) > 0 {
					out = append([]byte(nil), out...)
					out[len(out)/2] ^= 0x20
				}
			}
			r.corrupt = nil
		}
	}
	ex.Status, ex.RespDg, ex.RespLen, ex.RespCT, ex.Loc = status, h.Get("Docker-Content-Digest"), length, h.Get("Content-Type"), h.Get("Location")
	if r.Log != nil {
		r.Log(ex)
	}
	return &http.Response{StatusCode: status, Status: fmt.Sprintf("%d %s", status, http.StatusText(status)), Header: h,
		Body: io.NopCloser(&eofReader{r: bytes.NewReader(out)}), ContentLength: length, Request: req, Proto: "HTTP/1.1", ProtoMajor: 1, ProtoMinor: 1}, nil
}

// eofReader hands out io.EOF together with the last bytes, as net/http does for a body of known length.
type eofReader struct{ r *bytes.Reader }

func (e *eofReader) Read(p []byte) (int, error) {
	n, err := e.r.Read(p)
	if err == nil && e.r.Len() == 0 && n > 0 {
		err = io.EOF
	}
	return n, err
}
