// Package remotefam drives a real remote.Repository through API histories
// against the in-process registry (regfake) and records both the API calls and
// every HTTP exchange with the registry state after it (C13).
// spec/RegistryMon.tla replays the exchanges on the registry model (validating
// the fake), judges every request against the allowed request forms, and
// judges every API result against the model state.
package remotefam

import (
	"bytes"
	"context"
	"encoding/json"
	"errors"
	"fmt"
	"io"
	"math/rand"
	"net/http"
	"os"
	"strings"
	"testing"

	ocispec "github.com/opencontainers/image-spec/specs-go/v1"
	"oras.land/oras-go/v2/content"
	"oras.land/oras-go/v2/errdef"
	"oras.land/oras-go/v2/registry/remote"
	"verif/harness/regfake"
	"verif/harness/vh"
)

const (
	host    = "reg.example"
	repoApp = "team/app"
	repoLib = "lib"
)

type Op struct {
	Op      string `json:"op"` // push fetch exists resolve tag pushref fetchref delete mount pred tags seek
	N       int    `json:"n,omitempty"`
	Ref     string `json:"ref,omitempty"`
	Corrupt string `json:"corrupt,omitempty"` // field to corrupt in the primary response of this call
	Seeks   []int  `json:"seeks,omitempty"`   // seek op: pairs (kind, arg): 0 read k, 1 seek start, 2 seek current, 3 seek end
}

type Scenario struct {
	ID      int             `json:"id"`
	Nodes   []vh.NodeSpec   `json:"nodes"`
	Profile regfake.Profile `json:"profile"`
	LibHas  []int           `json:"libhas"` // blobs present in the other repository (mount sources)
	Ops     []Op            `json:"ops"`
	MMT     []string        `json:"mmt,omitempty"` // Repository.ManifestMediaTypes (nil: the default list)
}

func class(err error) string {
	switch {
	case err == nil:
		return "ok"
	case errors.Is(err, errdef.ErrNotFound):
		return "notfound"
	case errors.Is(err, errdef.ErrAlreadyExists):
		return "exists"
	}
	return "err"
}

func runScenario(t *testing.T, sc *Scenario, tr *vh.Tracer) {
	g, err := vh.Build(sc.Nodes, fmt.Sprint("r", sc.ID))
	if err != nil {
		t.Fatal(err)
	}
	// blobs are position-coded and long enough for seek tests
	for k := 1; k <= g.N; k++ {
		if !vh.IsManifestKind(g.Nodes[k].Kind) && !g.Nodes[k].Empty {
			b := make([]byte, 300+k)
			for i := range b {
				b[i] = byte((i + k) % 251)
			}
			g.Blobs[k] = b
		}
	}
	g, err = rebuild(g, sc)
	if err != nil {
		t.Fatal(err)
	}
	ctx := context.Background()
	reg := regfake.New(host, sc.Profile)
	tr.Begin(sc.ID)
	reg.Log = func(ex regfake.Exchange) {
		m := map[string]any{"e": "xchg", "x": ex, "state": reg.SnapshotLocked()}
		tr.Emit(m)
	}
	for _, k := range sc.LibHas {
		reg.SeedBlob(repoLib, g.Blobs[k])
	}
	repo, err := remote.NewRepository(host + "/" + repoApp)
	if err != nil {
		t.Fatal(err)
	}
	repo.PlainHTTP = true
	repo.Client = &http.Client{Transport: reg}
	repo.ManifestMediaTypes = sc.MMT
	// the init record: the universe with digests, media types and sizes
	dgs, mts, sizes := make([]string, g.N), make([]string, g.N), make([]int64, g.N)
	all, isman, subj := make([][]int, g.N), make([]bool, g.N), make([]int, g.N)
	for k := 1; k <= g.N; k++ {
		dgs[k-1], mts[k-1], sizes[k-1] = g.Descs[k].Digest.String(), g.Descs[k].MediaType, g.Descs[k].Size
		all[k-1], isman[k-1] = g.SuccAll(k), vh.IsManifestKind(g.Nodes[k].Kind)
		for _, e := range g.Nodes[k].Edges {
			if e.Role == "subject" {
				subj[k-1] = e.To
			}
		}
	}
	art := make([]string, g.N) // artifact type of every manifest: artifactType, else the config media type
	for k := 1; k <= g.N; k++ {
		art[k-1] = g.Nodes[k].Art
		if kd := g.Nodes[k].Kind; kd == "dmanifest" || kd == "dlist" || kd == "cmanifest" {
			art[k-1] = "" // these carry no artifactType field
		}
		if kd := g.Nodes[k].Kind; art[k-1] == "" && (kd == "manifest" || kd == "dmanifest" || kd == "cmanifest") {
			for _, e := range g.Nodes[k].Edges {
				if e.Role == "config" {
					art[k-1] = g.Descs[e.To].MediaType
				}
			}
		}
	}
	rtags := make([]string, g.N) // the referrers tag of every node (tag schema)
	for k := 1; k <= g.N; k++ {
		rtags[k-1] = strings.Replace(g.Descs[k].Digest.String(), ":", "-", 1)
	}
	tr.Emit(map[string]any{"e": "init", "n": g.N, "dg": dgs, "mt": mts, "size": sizes, "all": all, "isman": isman, "subj": subj,
		"profile": sc.Profile, "repo": repoApp, "lib": repoLib, "libhas": vh.Ints(sc.LibHas), "tags": []string{"t1", "t2"}, "rtags": rtags, "art": art})
	nodeOf := func(d ocispec.Descriptor) int { return g.NodeOf(d) }
	for _, op := range sc.Ops {
		n := op.N
		call := map[string]any{"e": "call", "op": op.Op, "n": n, "ref": op.Ref, "corrupt": op.Corrupt}
		isMan := n > 0 && vh.IsManifestKind(g.Nodes[n].Kind)
		route := "blob"
		if isMan {
			route = "manifest"
		}
		if op.Corrupt != "" {
			method := http.MethodGet
			if op.Op == "exists" || op.Op == "resolve" {
				method = http.MethodHead
			}
			if op.Op == "fetchref" || op.Op == "resolve" || op.Op == "pred" || op.Op == "referrers" {
				route = "manifest" // (pred / referrers without the Referrers API: the GET of the referrers-tag index)
			}
			reg.Arm(&regfake.Corruption{Method: method, Route: route, Field: op.Corrupt, Nth: 1})
		}
		tr.Emit(call)
		ret := map[string]any{"e": "ret", "op": op.Op, "n": n, "ref": op.Ref}
		switch op.Op {
		case "push":
			ret["res"] = class(repo.Push(ctx, g.Descs[n], bytes.NewReader(g.Blobs[n])))
		case "fetch":
			b, err := content.FetchAll(ctx, repo, g.Descs[n])
			ret["res"], ret["bytesok"] = class(err), err == nil && bytes.Equal(b, g.Blobs[n])
		case "exists":
			ok, err := repo.Exists(ctx, g.Descs[n])
			ret["res"], ret["val"] = class(err), ok
		case "resolve":
			ref := op.Ref
			if ref == "" {
				ref = g.Descs[n].Digest.String()
			}
			var d ocispec.Descriptor
			var err error
			if n > 0 && !isMan {
				d, err = repo.Blobs().Resolve(ctx, ref)
			} else {
				d, err = repo.Resolve(ctx, ref)
			}
			ret["res"], ret["node"], ret["mt"], ret["size"] = class(err), nodeOf(d), d.MediaType, d.Size
		case "tag":
			ret["res"] = class(repo.Tag(ctx, g.Descs[n], op.Ref))
		case "pushref":
			ret["res"] = class(repo.PushReference(ctx, g.Descs[n], bytes.NewReader(g.Blobs[n]), op.Ref))
		case "fetchref":
			ref := op.Ref
			if ref == "" {
				ref = g.Descs[n].Digest.String()
			}
			d, rc, err := repo.FetchReference(ctx, ref)
			bytesok := false
			if err == nil {
				var b []byte
				b, err = content.ReadAll(rc, d)
				rc.Close()
				bytesok = err == nil && nodeOf(d) > 0 && bytes.Equal(b, g.Blobs[nodeOf(d)])
			}
			ret["res"], ret["node"], ret["mt"], ret["size"], ret["bytesok"] = class(err), nodeOf(d), d.MediaType, d.Size, bytesok
		case "delete":
			ret["res"] = class(repo.Delete(ctx, g.Descs[n]))
		case "mount":
			fetched := false
			err := repo.Mount(ctx, g.Descs[n], repoLib, func() (io.ReadCloser, error) {
				fetched = true
				return io.NopCloser(bytes.NewReader(g.Blobs[n])), nil
			})
			ret["res"], ret["fetched"] = class(err), fetched
		case "pred":
			ps, err := repo.Predecessors(ctx, g.Descs[n])
			l := []int{}
			for _, p := range ps {
				l = append(l, nodeOf(p))
			}
			ret["res"], ret["list"] = class(err), l
		case "referrers":
			l := []int{}
			err := repo.Referrers(ctx, g.Descs[n], op.Ref, func(ds []ocispec.Descriptor) error {
				for _, p := range ds {
					l = append(l, nodeOf(p))
				}
				return nil
			})
			ret["res"], ret["list"] = class(err), l
		case "tags":
			var got []string
			err := repo.Tags(ctx, "", func(ts []string) error { got = append(got, ts...); return nil })
			if got == nil {
				got = []string{}
			}
			ret["res"], ret["list"] = class(err), got
		case "seek", "seekref":
			var rc io.ReadCloser
			var err error
			if op.Op == "seekref" {
				_, rc, err = repo.Blobs().FetchReference(ctx, g.Descs[n].Digest.String())
			} else {
				rc, err = repo.Fetch(ctx, g.Descs[n])
			}
			steps := [][]int64{}
			seekable := false
			if err == nil {
				rs, ok := rc.(io.ReadSeeker)
				seekable = ok
				if ok {
					for i := 0; i+1 < len(op.Seeks); i += 2 {
						kind, arg := op.Seeks[i], int64(op.Seeks[i+1])
						if kind == 0 {
							buf := make([]byte, arg)
							k, rerr := io.ReadFull(rs, buf)
							start, contig := int64(-1), int64(1)
							if k > 0 {
								start = (int64(buf[0]) - int64(n) + 251*4) % 251
								for j := 1; j < k; j++ {
									if buf[j] != byte((int(buf[0])+j)%251) {
										contig = 0
									}
								}
							}
							e := int64(0)
							if rerr != nil && rerr != io.EOF && rerr != io.ErrUnexpectedEOF {
								e = 1
							}
							steps = append(steps, []int64{0, arg, int64(k), start, contig, e})
						} else {
							pos, serr := rs.Seek(arg, kind-1)
							e := int64(0)
							if serr != nil {
								e = 1
							}
							steps = append(steps, []int64{int64(kind), arg, pos, 0, 0, e})
						}
					}
				}
				rc.Close()
			}
			ret["res"], ret["seekable"], ret["steps"], ret["size"] = class(err), seekable, steps, g.Descs[n].Size
		}
		reg.Arm(nil)
		tr.Emit(ret)
	}
}

// rebuild recomputes manifests after blob contents changed (descriptors of the blobs changed).
func rebuild(g *vh.Graph, sc *Scenario) (*vh.Graph, error) {
	return vh.BuildWith(sc.Nodes, fmt.Sprint("r", sc.ID), g.Blobs)
}

// manyReferrers is a crafted universe: one image with four referrers of two artifact types (so that a paginated,
// client-filtered referrers listing has pages without a match between pages with one).
func manyReferrers() []vh.NodeSpec {
	e := func(role string, to int) vh.Edge { return vh.Edge{Role: role, To: to} }
	return []vh.NodeSpec{{}, {Kind: "blob", Edges: []vh.Edge{}},
		{Kind: "manifest", Edges: []vh.Edge{e("config", 1)}},
		{Kind: "manifest", Art: "application/vnd.verif.sig", Edges: []vh.Edge{e("subject", 2), e("config", 1)}},
		{Kind: "artifact", Art: "application/vnd.verif.sbom+json", Edges: []vh.Edge{e("subject", 2), e("blob", 1)}},
		{Kind: "manifest", Art: "application/vnd.verif.sig", Ann: map[string]string{"k": "2"}, Edges: []vh.Edge{e("subject", 2), e("config", 1)}},
		{Kind: "artifact", Art: "application/vnd.verif.sbom+json", Ann: map[string]string{"k": "2"}, Edges: []vh.Edge{e("subject", 2), e("blob", 1)}}}
}

func genScenario(rng *rand.Rand, id int) Scenario {
	n := 3 + rng.Intn(3)
	succ := vh.RandomSucc(n, rng, 30+rng.Intn(30))
	nodes := vh.ShapeFromSucc(succ, rng, vh.ShapeOpts{Subjects: true, Artifact: true, Docker: true})
	crafted := rng.Intn(6) == 0
	if crafted {
		nodes = manyReferrers()
		n = len(nodes) - 1
	}
	sc := Scenario{ID: id, Nodes: nodes, Profile: regfake.Profile{Referrers: rng.Intn(3) != 0, DigestHdr: rng.Intn(4) != 0, Range: rng.Intn(2) == 0,
		Mount: rng.Intn(2) == 0, PageLimit: rng.Intn(3), RefPageLimit: rng.Intn(3), NoServerFilter: rng.Intn(2) == 0, NoLenGet: rng.Intn(3) == 0}}
	if rng.Intn(3) == 0 {
		// a manifest under a media type of the user's own, listed in Repository.ManifestMediaTypes; the registry may insist on
		// the Accept header
		for k := n; k >= 1; k-- {
			hasSubject := false
			for _, e := range nodes[k].Edges {
				hasSubject = hasSubject || e.Role == "subject"
			}
			if nodes[k].Kind == "manifest" && !hasSubject {
				nodes[k].Kind, nodes[k].Art = "cmanifest", ""
				break
			}
		}
		sc.MMT = []string{ocispec.MediaTypeImageManifest, vh.MTCustom, ocispec.MediaTypeImageIndex, vh.MTDManifest, vh.MTDList, vh.MTArtifact}
		rng.Shuffle(len(sc.MMT), func(i, j int) { sc.MMT[i], sc.MMT[j] = sc.MMT[j], sc.MMT[i] })
		sc.Profile.StrictAccept = rng.Intn(2) == 0
	}
	var blobs, mans []int
	for k := 1; k <= n; k++ {
		if vh.IsManifestKind(nodes[k].Kind) {
			mans = append(mans, k)
		} else {
			blobs = append(blobs, k)
			if rng.Intn(2) == 0 {
				sc.LibHas = append(sc.LibHas, k)
			}
		}
	}
	node := func() int { return 1 + rng.Intn(n) }
	man := func() int { return mans[rng.Intn(len(mans))] }
	tags := []string{"t1", "t2"}
	for _, p := range rng.Perm(n) {
		if rng.Intn(5) != 0 {
			sc.Ops = append(sc.Ops, Op{Op: "push", N: p + 1})
		}
	}
	for i, steps := 0, 8+rng.Intn(10); i < steps; i++ {
		x := rng.Intn(100)
		if crafted && rng.Intn(2) == 0 {
			o := Op{Op: "referrers", N: 2, Ref: []string{"", "application/vnd.verif.sig", "application/vnd.verif.sbom+json"}[rng.Intn(3)]}
			if !sc.Profile.Referrers && sc.Profile.DigestHdr && rng.Intn(3) == 0 {
				o.Corrupt = []string{"digest", "body"}[rng.Intn(2)]
			}
			sc.Ops = append(sc.Ops, o)
			continue
		}
		switch {
		case x < 10:
			sc.Ops = append(sc.Ops, Op{Op: "push", N: node()})
		case x < 25:
			o := Op{Op: "fetch", N: node()}
			if rng.Intn(3) == 0 {
				fields := []string{"digest", "length", "body"}
				if vh.IsManifestKind(nodes[o.N].Kind) {
					fields = append(fields, "ctype")
				}
				o.Corrupt = fields[rng.Intn(len(fields))]
			}
			sc.Ops = append(sc.Ops, o)
		case x < 32:
			o := Op{Op: "exists", N: node()}
			if rng.Intn(4) == 0 {
				o.Corrupt = "digest"
			}
			sc.Ops = append(sc.Ops, o)
		case x < 44:
			o := Op{Op: "resolve", N: node()}
			if rng.Intn(2) == 0 {
				o = Op{Op: "resolve", Ref: tags[rng.Intn(2)]}
			} else if rng.Intn(4) == 0 {
				o.Corrupt = "digest"
			}
			sc.Ops = append(sc.Ops, o)
		case x < 54:
			sc.Ops = append(sc.Ops, Op{Op: "tag", N: man(), Ref: tags[rng.Intn(2)]})
		case x < 60:
			sc.Ops = append(sc.Ops, Op{Op: "pushref", N: man(), Ref: tags[rng.Intn(2)]})
		case x < 70:
			o := Op{Op: "fetchref", N: man()}
			if rng.Intn(2) == 0 {
				o = Op{Op: "fetchref", Ref: tags[rng.Intn(2)]}
			}
			// flipped body bytes contradict something only when a digest is known: from the reference or from the header
			if rng.Intn(4) == 0 && (o.Ref == "" || sc.Profile.DigestHdr) {
				o.Corrupt = "body"
			}
			sc.Ops = append(sc.Ops, o)
		case x < 78:
			sc.Ops = append(sc.Ops, Op{Op: "delete", N: node()})
		case x < 84 && len(blobs) > 0:
			sc.Ops = append(sc.Ops, Op{Op: "mount", N: blobs[rng.Intn(len(blobs))]})
		case x < 87:
			o := Op{Op: "pred", N: node()}
			// the referrers-tag index comes back with a digest header that contradicts it, or with flipped bytes
			if !sc.Profile.Referrers && sc.Profile.DigestHdr && rng.Intn(3) == 0 {
				o.Corrupt = []string{"digest", "body"}[rng.Intn(2)]
			}
			sc.Ops = append(sc.Ops, o)
		case x < 90:
			o := Op{Op: "referrers", N: node(), Ref: []string{"", "application/vnd.verif.sig", "application/vnd.verif.sbom+json",
				"application/vnd.verif.art", vh.MTLayer}[rng.Intn(5)]}
			if !sc.Profile.Referrers && sc.Profile.DigestHdr && rng.Intn(3) == 0 {
				o.Corrupt = []string{"digest", "body"}[rng.Intn(2)]
			}
			sc.Ops = append(sc.Ops, o)
		case x < 94:
			sc.Ops = append(sc.Ops, Op{Op: "tags"})
		case len(blobs) > 0:
			o := Op{Op: []string{"seek", "seek", "seekref"}[rng.Intn(3)], N: blobs[rng.Intn(len(blobs))]}
			for k := 2 + rng.Intn(5); k > 0; k-- {
				kind := rng.Intn(4)
				arg := rng.Intn(400)
				if kind >= 2 {
					arg = rng.Intn(500) - 350
				}
				o.Seeks = append(o.Seeks, kind, arg)
			}
			sc.Ops = append(sc.Ops, o)
		}
	}
	return sc
}

func TestDrive(t *testing.T) {
	out := os.Getenv("VH_OUT")
	if out == "" {
		t.Skip("VH_OUT not set")
	}
	seed := int64(vh.EnvInt("VH_SEED", 1))
	count := vh.EnvInt("VH_COUNT", 200)
	rng := rand.New(rand.NewSource(seed))
	rot := &vh.Rot{Dir: out, Max: vh.EnvInt("VH_ROT", 40000)}
	sf, _ := os.Create(out + "/scenarios.ndjson")
	defer sf.Close()
	enc := json.NewEncoder(sf)
	n := 0
	run := func(sc Scenario) {
		n++
		sc.ID = n
		runScenario(t, &sc, rot.Next())
		enc.Encode(sc)
	}
	if rp := os.Getenv("VH_REPLAY"); rp != "" {
		b, _ := os.ReadFile(rp)
		for _, line := range strings.Split(strings.TrimSpace(string(b)), "\n") {
			var sc Scenario
			if err := json.Unmarshal([]byte(line), &sc); err != nil {
				t.Fatal(err)
			}
			run(sc)
		}
	} else {
		for i := 0; i < count; i++ {
			run(genScenario(rng, i+1))
		}
	}
	rot.Close()
	sum, _ := json.Marshal(map[string]any{"scenarios": n, "events": rot.Total, "files": rot.Files})
	os.WriteFile(out+"/summary.json", sum, 0o644)
}
