// Package contentopsfam replays the case space emitted by spec/ContentOpsCases.tla
// into the helper API of content.go (oras.Resolve / Fetch / FetchBytes / Tag /
// TagN / PushBytes / TagBytesN) on freshly built targets - memory store, OCI
// layout, remote repository over the in-process registry - and records the
// outcome for spec/ContentOpsJudge.tla.
package contentopsfam

import (
	"bytes"
	"context"
	"encoding/json"
	"errors"
	"io"
	"net/http"
	"os"
	"strings"
	"testing"

	"github.com/opencontainers/go-digest"
	"github.com/opencontainers/image-spec/specs-go"
	ocispec "github.com/opencontainers/image-spec/specs-go/v1"
	oras "oras.land/oras-go/v2"
	"oras.land/oras-go/v2/content"
	"oras.land/oras-go/v2/content/memory"
	"oras.land/oras-go/v2/content/oci"
	"oras.land/oras-go/v2/errdef"
	"oras.land/oras-go/v2/registry/remote"
	"verif/harness/regfake"
	"verif/harness/vh"
)

type Plat struct {
	Arch    string `json:"arch"`
	Os      string `json:"os"`
	Variant string `json:"variant"`
}

type Case struct {
	Op       string `json:"op"`
	Ref      string `json:"ref"`
	Plat     Plat   `json:"plat"`
	MaxMeta  int    `json:"maxmeta"`
	MaxBytes int    `json:"maxbytes"`
	RefFetch bool   `json:"reffetch"`
	NDst     int    `json:"ndst"`
	Conc     int    `json:"conc"`
	Fresh    bool   `json:"fresh"`
	Meta     bool   `json:"meta"`
	Mt       string `json:"mt"`
}

const (
	smallLimit = 1000
	givenBlob  = "application/vnd.verif.blob"
	host       = "reg.example"
	repoName   = "team/app"
)

// universe: the nine nodes of ContentOps.tla (index 0 unused).
type universe struct {
	descs [10]ocispec.Descriptor
	body  [10][]byte
}

func mustJSON(v any) []byte { b, _ := json.Marshal(v); return b }

func build() *universe {
	u := &universe{}
	set := func(n int, mt string, b []byte) {
		u.body[n] = b
		u.descs[n] = content.NewDescriptorFromBytes(mt, b)
	}
	set(1, ocispec.MediaTypeImageConfig, []byte(`{"architecture":"amd64","os":"linux"}`))
	set(2, ocispec.MediaTypeImageConfig, []byte(`{"architecture":"arm64","os":"linux","variant":"v8"}`))
	set(3, "application/octet-stream", []byte("an opaque layer of the helper universe"))
	man := func(cfg ocispec.Descriptor, ann map[string]string) []byte {
		return mustJSON(ocispec.Manifest{Versioned: specs.Versioned{SchemaVersion: 2}, MediaType: ocispec.MediaTypeImageManifest, Config: cfg,
			Layers: []ocispec.Descriptor{u.descs[3]}, Annotations: ann})
	}
	withVersion := func(b []byte) []byte { return b }
	set(4, ocispec.MediaTypeImageManifest, withVersion(man(u.descs[1], nil)))
	set(5, ocispec.MediaTypeImageManifest, withVersion(man(u.descs[2], nil)))
	e4, e5 := u.descs[4], u.descs[5]
	e4.Platform = &ocispec.Platform{Architecture: "amd64", OS: "linux"}
	e5.Platform = &ocispec.Platform{Architecture: "arm64", OS: "linux", Variant: "v8"}
	set(6, ocispec.MediaTypeImageIndex, withVersion(mustJSON(ocispec.Index{Versioned: specs.Versioned{SchemaVersion: 2}, MediaType: ocispec.MediaTypeImageIndex, Manifests: []ocispec.Descriptor{e4, e5}})))
	odd := u.descs[1]
	odd.MediaType = "application/vnd.verif.cfg" // the same bytes called something a platform cannot be read from
	set(7, ocispec.MediaTypeImageManifest, withVersion(man(odd, map[string]string{"kind": "artifact"})))
	set(8, ocispec.MediaTypeImageManifest, withVersion(man(u.descs[1], map[string]string{"padding": strings.Repeat("x", 3000)})))
	return u
}

func (u *universe) nodeOf(d ocispec.Descriptor) int {
	for n := 1; n <= 9; n++ {
		if u.descs[n].Digest == d.Digest && d.Digest != "" {
			return n
		}
	}
	return 0
}

var refs0 = map[string]int{"idx": 6, "a": 4, "b": 5, "art": 7, "big": 8}

func class(err error) string {
	switch {
	case err == nil:
		return "ok"
	case errors.Is(err, errdef.ErrMissingReference):
		return "missingref"
	case errors.Is(err, errdef.ErrSizeExceedsLimit):
		return "toolarge"
	case errors.Is(err, errdef.ErrNotFound):
		return "notfound"
	case errors.Is(err, errdef.ErrUnsupported):
		return "unsupported"
	case errors.Is(err, errdef.ErrAlreadyExists):
		return "exists"
	}
	return "err:" + err.Error()
}

func limit(l int) int64 {
	if l == 0 {
		return 0
	}
	return smallLimit
}

func runCase(t *testing.T, ctx context.Context, u *universe, c Case, kind string) map[string]any {
	var target oras.Target
	switch kind {
	case "memory":
		target = memory.New()
	case "oci":
		s, err := oci.New(t.TempDir())
		if err != nil {
			t.Fatal(err)
		}
		target = s
	case "remote":
		reg := regfake.New(host, regfake.Profile{Referrers: true, DigestHdr: true})
		r, err := remote.NewRepository(host + "/" + repoName)
		if err != nil {
			t.Fatal(err)
		}
		r.PlainHTTP, r.Client = true, &http.Client{Transport: reg}
		target = r
	}
	for n := 1; n <= 8; n++ {
		if err := target.Push(ctx, u.descs[n], bytes.NewReader(u.body[n])); err != nil {
			t.Fatalf("%s: seed %d: %v", kind, n, err)
		}
	}
	for name, n := range refs0 {
		if err := target.Tag(ctx, u.descs[n], name); err != nil {
			t.Fatalf("%s: seed tag %s: %v", kind, name, err)
		}
	}
	var plat *ocispec.Platform
	if c.Plat.Arch != "" {
		plat = &ocispec.Platform{Architecture: c.Plat.Arch, OS: c.Plat.Os, Variant: c.Plat.Variant}
	}
	ro := oras.ResolveOptions{TargetPlatform: plat, MaxMetadataBytes: limit(c.MaxMeta)}
	dsts := []string{"d1", "d2", "d3"}[:c.NDst]
	// the content of a push case
	u.descs[9], u.body[9] = ocispec.Descriptor{}, nil
	var body []byte
	mt := c.Mt
	if c.Op == "pushbytes" || c.Op == "tagbytesn" {
		switch {
		case c.Fresh && c.Meta:
			body = bytes.Replace(u.body[4], []byte(`"layers"`), []byte(`"annotations":{"fresh":"yes"},"layers"`), 1)
		case c.Fresh:
			body = []byte("content nobody has pushed before")
		case c.Meta:
			body = u.body[4]
		default:
			body = u.body[3]
		}
		if mt == "given" {
			mt = givenBlob
			if c.Meta {
				mt = ocispec.MediaTypeImageManifest
			}
		}
		if c.Fresh {
			u.body[9] = body
			u.descs[9] = ocispec.Descriptor{Digest: digest.FromBytes(body)}
		}
	}

	var desc ocispec.Descriptor
	var err error
	bytesok, mtc := false, "other"
	switch c.Op {
	case "resolve":
		desc, err = oras.Resolve(ctx, target, c.Ref, ro)
	case "fetch":
		var rc io.ReadCloser
		desc, rc, err = oras.Fetch(ctx, target, c.Ref, oras.FetchOptions{ResolveOptions: ro})
		if err == nil {
			b, rerr := io.ReadAll(rc)
			rc.Close()
			bytesok = rerr == nil && bytes.Equal(b, u.body[u.nodeOf(desc)])
		}
	case "fetchbytes":
		var b []byte
		desc, b, err = oras.FetchBytes(ctx, target, c.Ref, oras.FetchBytesOptions{FetchOptions: oras.FetchOptions{ResolveOptions: ro}, MaxBytes: limit(c.MaxBytes)})
		bytesok = err == nil && bytes.Equal(b, u.body[u.nodeOf(desc)])
	case "tag":
		desc, err = oras.Tag(ctx, target, c.Ref, "d1")
	case "tagn":
		desc, err = oras.TagN(ctx, target, c.Ref, dsts, oras.TagNOptions{Concurrency: c.Conc, MaxMetadataBytes: limit(c.MaxMeta)})
	case "pushbytes":
		desc, err = oras.PushBytes(ctx, target, mt, body)
	case "tagbytesn":
		desc, err = oras.TagBytesN(ctx, target, mt, body, dsts, oras.TagBytesNOptions{Concurrency: c.Conc})
	}
	if err == nil {
		switch desc.MediaType {
		case "application/octet-stream":
			mtc = "default"
		case givenBlob, ocispec.MediaTypeImageManifest:
			mtc = "given"
		}
		if c.Op == "pushbytes" || c.Op == "tagbytesn" {
			// the content must be there now, under the returned descriptor
			if b, ferr := content.FetchAll(ctx, target, desc); ferr != nil || !bytes.Equal(b, body) {
				mtc = "notstored"
			}
		}
	}
	refs := map[string]int{}
	for _, name := range []string{"idx", "a", "b", "art", "big", "d1", "d2", "d3"} {
		refs[name] = 0
		if d, rerr := target.Resolve(ctx, name); rerr == nil {
			refs[name] = u.nodeOf(d)
			if refs[name] == 0 {
				refs[name] = -1
			}
		}
	}
	return map[string]any{"e": "helper", "target": kind, "res": class(err), "n": u.nodeOf(desc), "bytesok": bytesok, "mt": mtc, "refs": refs}
}

func TestDrive(t *testing.T) {
	out := os.Getenv("VH_OUT")
	if out == "" {
		t.Skip("VH_OUT not set")
	}
	raw, err := os.ReadFile(os.Getenv("VH_CASES"))
	if err != nil {
		t.Fatal(err)
	}
	var rawCases []json.RawMessage
	if err := json.Unmarshal(raw, &rawCases); err != nil {
		t.Fatal(err)
	}
	rot := &vh.Rot{Dir: out, Max: vh.EnvInt("VH_ROT", 20000)}
	ctx := context.Background()
	u := build()
	n := 0
	per := map[string]int{}
	for ci, rc := range rawCases {
		var c Case
		if err := json.Unmarshal(rc, &c); err != nil {
			t.Fatal(err)
		}
		kinds := []string{"memory", "oci"}
		if c.RefFetch {
			kinds = []string{"remote"}
		}
		for _, k := range kinds {
			m := runCase(t, ctx, u, c, k)
			m["c"], m["case"] = rc, ci
			n++
			per[k]++
			tr := rot.Next()
			tr.Begin(n)
			tr.Emit(m)
		}
	}
	rot.Close()
	sum, _ := json.Marshal(map[string]any{"cases": len(rawCases), "records": n, "per_target": per, "files": rot.Files})
	os.WriteFile(out+"/summary.json", sum, 0o644)
}
