// Package tarfam replays the archives and named-blob pushes that TLC enumerated
// from spec/TarExtract.tla into a real file store inside a sandbox directory
// and records what happened to every file-system object, inside and outside
// of the store's working directory (C11).
package tarfam

import (
	"archive/tar"
	"bytes"
	"compress/gzip"
	"context"
	"encoding/json"
	"fmt"
	"io/fs"
	"os"
	"path/filepath"
	"sort"
	"strings"
	"testing"

	"github.com/opencontainers/go-digest"
	ocispec "github.com/opencontainers/image-spec/specs-go/v1"
	"oras.land/oras-go/v2/content/file"
	"verif/harness/vh"
)

type Entry struct {
	K    string   `json:"k"` // reg dir sym hard named
	Name []string `json:"name"`
	NAbs bool     `json:"nabs"`
	Tg   []string `json:"tg"`
	TAbs bool     `json:"tabs"`
}

type Case struct {
	ID      int     `json:"id"`
	Hist    []Entry `json:"hist"`
	Failed  bool    `json:"failed"`
	Tree    []Obj   `json:"tree"`
	NoModel bool    `json:"nomodel"`
	Split   bool    `json:"split"` // one archive per tar entry instead of one archive per run of entries
}

// Obj is one file-system object relative to the sandbox root.
type Obj struct {
	P    []string `json:"p"`
	T    string   `json:"t"` // dir file sym
	Tgt  []string `json:"tgt"`
	TAbs bool     `json:"tabs"`
	New  bool     `json:"new"`  // file content is what an entry wrote (not the original content)
	Mode string   `json:"mode"` // permission bits (real side only)
}

func pathOf(root string, segs []string, abs bool) string {
	p := strings.Join(segs, "/")
	if abs {
		return root + "/" + p
	}
	if p == "" {
		return "."
	}
	return p
}

func snapshot(root string) []Obj {
	var out []Obj
	filepath.WalkDir(root, func(p string, d fs.DirEntry, err error) error {
		if err != nil {
			return nil
		}
		rel, _ := filepath.Rel(root, p)
		if rel == "." {
			return nil
		}
		segs := strings.Split(rel, "/")
		if segs[0] == "tmp" {
			if d.IsDir() {
				return filepath.SkipDir
			}
			return nil
		}
		fi, err := os.Lstat(p)
		if err != nil {
			return nil
		}
		o := Obj{P: segs, Tgt: []string{}, Mode: fmt.Sprintf("%o", fi.Mode().Perm())}
		switch {
		case fi.Mode()&os.ModeSymlink != 0:
			o.T = "sym"
			tg, _ := os.Readlink(p)
			if strings.HasPrefix(tg, root+"/") || tg == root {
				o.TAbs = true
				tg = strings.TrimPrefix(strings.TrimPrefix(tg, root), "/")
			} else if strings.HasPrefix(tg, "/") {
				o.TAbs = true
				tg = "//" + tg
			}
			if tg != "" {
				o.Tgt = strings.Split(tg, "/")
			}
		case fi.IsDir():
			o.T = "dir"
		default:
			o.T = "file"
			b, _ := os.ReadFile(p)
			o.New = !strings.HasPrefix(string(b), "orig")
		}
		out = append(out, o)
		return nil
	})
	sort.Slice(out, func(i, j int) bool { return strings.Join(out[i].P, "/") < strings.Join(out[j].P, "/") })
	return out
}

func reset(root string) {
	os.RemoveAll(root + "/w")
	os.RemoveAll(root + "/x")
	os.MkdirAll(root+"/w/d", 0o755)
	os.MkdirAll(root+"/c", 0o755)
	os.MkdirAll(root+"/tmp", 0o755)
	os.Remove(root + "/c/x")
	os.WriteFile(root+"/v", []byte("orig-v"), 0o644)
	os.Chmod(root+"/v", 0o644)
	os.WriteFile(root+"/c/v", []byte("orig-cv"), 0o644)
	os.Chmod(root+"/c/v", 0o644)
}

func tarOf(root string, es []Entry) []byte {
	var buf bytes.Buffer
	gz := gzip.NewWriter(&buf)
	tw := tar.NewWriter(gz)
	for _, e := range es {
		h := &tar.Header{Name: pathOf(root, e.Name, e.NAbs), Mode: 0o644}
		switch e.K {
		case "reg":
			h.Typeflag, h.Size = tar.TypeReg, 3
		case "dir":
			h.Typeflag, h.Mode = tar.TypeDir, 0o755
			h.Name += "/"
		case "sym":
			h.Typeflag, h.Linkname = tar.TypeSymlink, pathOf(root, e.Tg, e.TAbs)
		case "hard":
			h.Typeflag, h.Linkname = tar.TypeLink, pathOf(root, e.Tg, e.TAbs)
		}
		tw.WriteHeader(h)
		if e.K == "reg" {
			tw.Write([]byte("new"))
		}
	}
	tw.Close()
	gz.Close()
	return buf.Bytes()
}

func diffOutside(before, after []Obj) []string {
	key := func(o Obj) string {
		return fmt.Sprintf("%s|%s|%s|%v|%v|%s", strings.Join(o.P, "/"), o.T, strings.Join(o.Tgt, "/"), o.TAbs, o.New, o.Mode)
	}
	b := map[string]string{}
	for _, o := range before {
		if o.P[0] != "w" {
			b[strings.Join(o.P, "/")] = key(o)
		}
	}
	out := []string{}
	seen := map[string]bool{}
	for _, o := range after {
		if o.P[0] == "w" {
			continue
		}
		p := strings.Join(o.P, "/")
		seen[p] = true
		if b[p] == "" {
			out = append(out, "created "+p)
		} else if b[p] != key(o) {
			out = append(out, "changed "+p)
		}
	}
	for p := range b {
		if !seen[p] {
			out = append(out, "deleted "+p)
		}
	}
	sort.Strings(out)
	return out
}

func TestDrive(t *testing.T) {
	out := os.Getenv("VH_OUT")
	if out == "" {
		t.Skip("VH_OUT not set")
	}
	raw, err := os.ReadFile(os.Getenv("VH_CASES"))
	if err != nil {
		t.Fatal(err)
	}
	var cases []Case
	if err := json.Unmarshal(raw, &cases); err != nil {
		t.Fatal(err)
	}
	root, err := filepath.EvalSymlinks(t.TempDir())
	if err != nil {
		t.Fatal(err)
	}
	reset(root)
	os.Setenv("TMPDIR", root+"/tmp")
	if err := os.Chdir(root + "/c"); err != nil {
		t.Fatal(err)
	}
	rot := &vh.Rot{Dir: out, Max: vh.EnvInt("VH_ROT", 20000)}
	ctx := context.Background()
	n, escapes := 0, 0
	for _, c := range cases {
		reset(root)
		before := snapshot(root)
		// split the history into pushes: maximal runs of tar entries, and named blobs
		var errs []bool
		push := func(desc ocispec.Descriptor, b []byte) {
			st, err := file.New(root + "/w")
			if err != nil {
				t.Fatal(err)
			}
			desc.Digest, desc.Size = digest.FromBytes(b), int64(len(b))
			perr := st.Push(ctx, desc, bytes.NewReader(b))
			st.Close()
			errs = append(errs, perr != nil)
		}
		var run []Entry
		flush := func() {
			if len(run) == 0 {
				return
			}
			push(ocispec.Descriptor{MediaType: "application/vnd.verif.dir+gzip", Annotations: map[string]string{
				ocispec.AnnotationTitle: "d", file.AnnotationUnpack: "true"}}, tarOf(root, run))
			run = nil
		}
		for _, e := range c.Hist {
			if e.K == "presym" {
				// the working directory already holds this link before anything is pushed
				p := root + "/w/" + strings.Join(e.Name, "/")
				os.MkdirAll(filepath.Dir(p), 0o755)
				if err := os.Symlink(pathOf(root, e.Tg, e.TAbs), p); err != nil {
					t.Fatal(err)
				}
				before = snapshot(root)
				continue
			}
			if e.K == "restore" {
				// a manifest whose layer has the digest of the already stored blob "x" and another title
				flush()
				layer := ocispec.Descriptor{MediaType: "application/vnd.verif.blob", Digest: digest.FromBytes([]byte("new")), Size: 3,
					Annotations: map[string]string{ocispec.AnnotationTitle: pathOf(root, e.Name, e.NAbs)}}
				cfgb := []byte("{}")
				m := ocispec.Manifest{MediaType: ocispec.MediaTypeImageManifest,
					Config: ocispec.Descriptor{MediaType: "application/vnd.verif.cfg", Digest: digest.FromBytes(cfgb), Size: 2},
					Layers: []ocispec.Descriptor{layer}}
				m.SchemaVersion = 2
				mb, _ := json.Marshal(m)
				st, err := file.New(root + "/w")
				if err != nil {
					t.Fatal(err)
				}
				// the store must know the blob: push it (again) under its harmless title in this store instance
				st.Push(ctx, ocispec.Descriptor{MediaType: "application/vnd.verif.blob", Digest: digest.FromBytes([]byte("new")), Size: 3,
					Annotations: map[string]string{ocispec.AnnotationTitle: "x"}}, bytes.NewReader([]byte("new")))
				perr := st.Push(ctx, ocispec.Descriptor{MediaType: ocispec.MediaTypeImageManifest, Digest: digest.FromBytes(mb), Size: int64(len(mb))}, bytes.NewReader(mb))
				st.Close()
				errs = append(errs, perr != nil)
				continue
			}
			if e.K == "named" {
				flush()
				push(ocispec.Descriptor{MediaType: "application/vnd.verif.blob", Annotations: map[string]string{
					ocispec.AnnotationTitle: pathOf(root, e.Name, e.NAbs)}}, []byte("new"))
			} else {
				run = append(run, e)
				if c.Split {
					flush()
				}
			}
		}
		flush()
		after := snapshot(root)
		outside := diffOutside(before, after)
		if len(outside) > 0 {
			escapes++
		}
		anyErr := false
		for _, e := range errs {
			anyErr = anyErr || e
		}
		lastErr := len(errs) > 0 && errs[len(errs)-1]
		var inside []Obj
		for _, o := range after {
			o.Mode = ""
			inside = append(inside, o)
		}
		n++
		tr := rot.Next()
		tr.Begin(c.ID)
		tr.Emit(map[string]any{"e": "tar", "case": c.ID, "hist": c.Hist, "failed": c.Failed, "exp": c.Tree, "got": inside,
			"err": anyErr, "lasterr": lastErr, "outside": outside, "npush": len(errs), "nomodel": c.NoModel})
	}
	rot.Close()
	sum, _ := json.Marshal(map[string]any{"cases": n, "escapes": escapes, "files": rot.Files})
	os.WriteFile(out+"/summary.json", sum, 0o644)
}
