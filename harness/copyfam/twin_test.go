package copyfam

// Twin copies (C01, C02): two oras.Copy calls of one root from one source into ONE destination under two
// references, concurrently, their storage operations released one at a time by the gate scheduler. Each call has its
// own wrappers (and so its own in-flight accounting); the destination underneath is shared. spec/TwinMon.tla judges
// every call that reports success: the whole graph is there, byte-identical, and its own reference resolves to the
// root - also when the other call won the race for a node.

import (
	"bufio"
	"bytes"
	"context"
	"encoding/json"
	"errors"
	"math/rand"
	"os"
	"runtime"
	"testing"
	"testing/synctest"

	ocispec "github.com/opencontainers/image-spec/specs-go/v1"
	"oras.land/oras-go/v2"
	"oras.land/oras-go/v2/content"
	"oras.land/oras-go/v2/errdef"
	"verif/harness/vh"
)

func runTwin(t *testing.T, sc *Scenario, tr *vh.Tracer) (hang bool) {
	g, err := vh.Build(sc.Nodes, sc.Salt)
	if err != nil {
		t.Fatal(err)
	}
	tr.Begin(sc.ID)
	synctest.Test(t, func(t *testing.T) {
		bg := context.Background()
		src, err := newSrc(t, sc.SrcKind, nil)
		if err != nil {
			t.Fatal(err)
		}
		for k := 1; k <= g.N; k++ {
			if err := src.Push(bg, g.Descs[k], bytes.NewReader(g.Blobs[k])); err != nil && !errors.Is(err, errdef.ErrAlreadyExists) {
				t.Fatal(err)
			}
		}
		if err := src.Tag(bg, g.Descs[sc.Root], srcRef); err != nil {
			t.Fatal(err)
		}
		dstm, err := newDst(t, sc.DstKind, nil, g, false)
		if err != nil {
			t.Fatal(err)
		}
		for _, k := range sc.Dst0 {
			if err := dstm.Push(bg, g.Descs[k], bytes.NewReader(g.Blobs[k])); err != nil && !errors.Is(err, errdef.ErrAlreadyExists) {
				t.Fatal(err)
			}
		}
		s := &vh.Sched{}
		succ := make([][]int, g.N)
		same := make([][]int, g.N)
		kinds := make([]string, g.N)
		for k := 1; k <= g.N; k++ {
			succ[k-1], kinds[k-1] = g.SuccNF(k), g.Nodes[k].Kind
			same[k-1] = vh.Ints(append([]int(nil), g.ByDg[g.Descs[k].Digest.String()]...))
		}
		probe := &dstW{e: &env{g: g, s: s, tr: tr}, und: dstm}
		refs := []string{"refA", "refB"}
		tr.Emit(map[string]any{"e": "init", "n": g.N, "succ": succ, "same": same, "kinds": kinds, "root": sc.Root, "dst0": probe.has(), "c": sc.C,
			"refs": refs, "dstkind": kindOr(sc.DstKind), "refdst": sc.RefDst})
		done := make(chan struct{})
		finished := make(chan int, 2)
		for call := 1; call <= 2; call++ {
			call := call
			ctr := tr.With("call", call)
			e := &env{g: g, s: s, tr: ctr}
			sw := &srcW{e: e, und: src}
			dw := &dstW{e: e, und: dstm}
			go func() {
				var dst oras.Target = dw
				if sc.RefDst {
					dst = &dstRefW{dw}
				}
				cb := func(kind string) func(context.Context, ocispec.Descriptor) error {
					return func(_ context.Context, d ocispec.Descriptor) error {
						ctr.Emit(map[string]any{"e": "cb", "k": kind, "n": g.NodeOf(d)})
						return nil
					}
				}
				o := oras.CopyOptions{CopyGraphOptions: oras.CopyGraphOptions{Concurrency: sc.C, PreCopy: cb("pre"), PostCopy: cb("post"),
					OnCopySkipped: cb("skipped")}}
				d, err := oras.Copy(bg, sw, srcRef, dst, refs[call-1], o)
				ctr.Emit(map[string]any{"e": "ret", "err": err != nil, "root": g.NodeOf(d), "msg": errMsg(err)})
				finished <- call
			}()
		}
		go func() { <-finished; <-finished; close(done) }()
		rng := rand.New(rand.NewSource(sc.Seed))
		hang = s.Run(done, func(step int, pend []*vh.Op) int {
			if i := len(s.Choices); i < len(sc.Prefix) {
				return sc.Prefix[i]
			}
			return rng.Intn(len(pend))
		}, nil)
		sc.Choices = s.Choices
		if hang {
			tr.Emit(map[string]any{"e": "hang"})
			s.ReleaseAll()
			synctest.Wait()
			return
		}
		var bytesok []int
		for k := 1; k <= g.N; k++ {
			if b, err := content.FetchAll(bg, dstm, g.Descs[k]); err == nil && bytes.Equal(b, g.Blobs[k]) {
				bytesok = append(bytesok, k)
			}
		}
		tags := [][]any{}
		for _, r := range refs {
			if d, err := dstm.Resolve(bg, r); err == nil {
				tags = append(tags, []any{r, g.NodeOf(d)})
			}
		}
		tr.Emit(map[string]any{"e": "final", "has": probe.has(), "bytesok": vh.Ints(bytesok), "tags": tags, "dangling": probe.dangling()})
	})
	return hang
}

// TestTwin: VH_OUT, VH_TWIN (count), VH_SEED, VH_REPLAY.
func TestTwin(t *testing.T) {
	out := os.Getenv("VH_OUT")
	if out == "" {
		t.Skip("VH_OUT not set")
	}
	runtime.GOMAXPROCS(1)
	rng := rand.New(rand.NewSource(int64(vh.EnvInt("VH_SEED", 1))))
	rot := &vh.Rot{Dir: out, Max: vh.EnvInt("VH_ROT", 120000)}
	sf, _ := os.Create(out + "/scenarios.ndjson")
	defer sf.Close()
	enc := json.NewEncoder(sf)
	n, hangs := 0, 0
	run := func(sc Scenario) {
		n++
		sc.ID = n
		if runTwin(t, &sc, rot.Next()) {
			hangs++
		}
		enc.Encode(sc)
	}
	if rp := os.Getenv("VH_REPLAY"); rp != "" {
		f, err := os.Open(rp)
		if err != nil {
			t.Fatal(err)
		}
		scn := bufio.NewScanner(f)
		scn.Buffer(make([]byte, 1<<20), 1<<26)
		for scn.Scan() {
			var sc Scenario
			if err := json.Unmarshal(scn.Bytes(), &sc); err != nil {
				t.Fatal(err)
			}
			if len(sc.Choices) > 0 {
				sc.Prefix = sc.Choices
			}
			run(sc)
		}
		f.Close()
	} else {
		for i := 0; i < vh.EnvInt("VH_TWIN", 300); i++ {
			sz := 2 + rng.Intn(4)
			succ := vh.RandomSucc(sz, rng, 30+rng.Intn(30))
			nodes := vh.ShapeFromSucc(succ, rng, vh.ShapeOpts{Subjects: true, Docker: true, Artifact: true, Dup: true})
			if !vh.IsManifestKind(nodes[sz].Kind) {
				continue
			}
			g, err := vh.Build(nodes, "x")
			if err != nil {
				t.Fatal(err)
			}
			subsets := g.ClosedSubsets()
			sc := Scenario{Nodes: nodes, Salt: "x", API: "twincopy", Root: sz, C: 1 + rng.Intn(3), Seed: rng.Int63(),
				Dst0: subsets[rng.Intn(len(subsets))], DstKind: []string{"memory", "oci"}[rng.Intn(2)], RefDst: rng.Intn(3) == 0}
			if rng.Intn(2) == 0 {
				sc.Dst0 = []int{}
			}
			run(sc)
		}
	}
	rot.Close()
	sum, _ := json.Marshal(map[string]any{"executions": n, "events": rot.Total, "files": rot.Files, "hangs": hangs})
	os.WriteFile(out+"/summary.json", sum, 0o644)
}
