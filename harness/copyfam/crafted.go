package copyfam

import "verif/harness/vh"

func e(role string, to int) vh.Edge            { return vh.Edge{Role: role, To: to} }
func et(role string, to int, t string) vh.Edge { return vh.Edge{Role: role, To: to, Title: t} }

// Crafted shapes: small graphs with the sharing patterns that matter to the
// tracker / limiter / errgroup protocol. Index 0 of each node list is unused.
type crafted struct {
	Name  string
	Nodes []vh.NodeSpec
	Ext   []int // start nodes worth trying with ExtendedCopyGraph
}

func craftedShapes() []crafted {
	blob := vh.NodeSpec{Kind: "blob", Edges: []vh.Edge{}}
	return []crafted{
		{ // R -> A, B; A -> S, T; B -> S : a node shared by two branches, one branch has more work
			Name: "diamond",
			Nodes: []vh.NodeSpec{{}, blob, blob, // 1 S, 2 T
				{Kind: "index", Edges: []vh.Edge{e("manifest", 1), e("manifest", 2)}}, // 3 A
				{Kind: "index", Edges: []vh.Edge{e("manifest", 1)}},                   // 4 B
				{Kind: "index", Edges: []vh.Edge{e("manifest", 3), e("manifest", 4)}}},
			Ext: []int{1, 2},
		},
		{ // the same blob under two file names in two manifests below one index
			Name: "twonames",
			Nodes: []vh.NodeSpec{{}, blob, blob, blob,
				{Kind: "manifest", Edges: []vh.Edge{e("config", 2), et("layer", 1, "a.txt")}},
				{Kind: "manifest", Edges: []vh.Edge{e("config", 3), et("layer", 1, "b.txt")}},
				{Kind: "index", Edges: []vh.Edge{e("manifest", 4), e("manifest", 5)}}},
			Ext: []int{1},
		},
		{ // two different blobs under one file name in two manifests below one index: a file store may refuse the graph,
			// it must not report success with one of the blobs missing
			Name: "samename",
			Nodes: []vh.NodeSpec{{}, blob, blob, blob,
				{Kind: "manifest", Edges: []vh.Edge{e("config", 3), et("layer", 1, "app.bin")}},
				{Kind: "manifest", Edges: []vh.Edge{e("config", 3), et("layer", 2, "app.bin")}},
				{Kind: "index", Edges: []vh.Edge{e("manifest", 4), e("manifest", 5)}}},
		},
		{ // two roots (no common ancestor) sharing a layer: R1 -> C1, L; R2 -> C2, L
			Name: "tworoots",
			Nodes: []vh.NodeSpec{{}, blob, blob, blob,
				{Kind: "manifest", Edges: []vh.Edge{e("config", 2), e("layer", 1)}},
				{Kind: "manifest", Edges: []vh.Edge{e("config", 3), e("layer", 1)}},
				{Kind: "index", Edges: []vh.Edge{e("manifest", 4), e("manifest", 5)}}},
			Ext: []int{1},
		},
		{ // image with two referrers, one of which has its own referrer (subject chain)
			Name: "referrers",
			Nodes: []vh.NodeSpec{{}, blob, blob,
				{Kind: "manifest", Edges: []vh.Edge{e("config", 1), e("layer", 2)}},
				{Kind: "manifest", Art: "application/vnd.verif.sig", Edges: []vh.Edge{e("subject", 3), e("config", 1)}},
				{Kind: "artifact", Art: "application/vnd.verif.sbom", Edges: []vh.Edge{e("subject", 3), e("blob", 2)}},
				{Kind: "manifest", Art: "application/vnd.verif.sig", Edges: []vh.Edge{e("subject", 4), e("config", 1)}},
				{Kind: "index", Edges: []vh.Edge{e("manifest", 3), e("manifest", 6)}}},
			Ext: []int{3, 1, 4},
		},
		{ // an index that lists an image and the image's referrer, which has a referrer of its own: while the ancestors
			// of the image are searched, the referrer is reached with one of its predecessors (the index) already visited
			Name: "refindex",
			Nodes: []vh.NodeSpec{{}, blob, blob,
				{Kind: "manifest", Edges: []vh.Edge{e("config", 1), e("layer", 2)}},
				{Kind: "manifest", Art: "application/vnd.verif.sbom", Edges: []vh.Edge{e("subject", 3), e("config", 1)}},
				{Kind: "manifest", Art: "application/vnd.verif.sig", Edges: []vh.Edge{e("subject", 4), e("config", 1)}},
				{Kind: "index", Edges: []vh.Edge{e("manifest", 3), e("manifest", 4)}}},
			Ext: []int{3, 1, 2},
		},
		{ // a manifest whose layer list is [foreign, ordinary, foreign]: the foreign layers (not in the source) are skipped,
			// the ordinary one between them is not
			Name: "foreignmix",
			Nodes: []vh.NodeSpec{{}, blob, blob,
				{Kind: "foreign", Edges: []vh.Edge{}}, {Kind: "foreign", Edges: []vh.Edge{}},
				{Kind: "manifest", Edges: []vh.Edge{e("config", 1), e("layer", 3), e("layer", 2), e("layer", 4)}},
				{Kind: "index", Edges: []vh.Edge{e("manifest", 5)}}},
			Ext: []int{2},
		},
		{ // ... [foreign, ordinary, foreign, ordinary] and [foreign, foreign, ordinary, ordinary] (as base images of
			// another operating system have it): ordinary layers behind the second foreign one
			Name: "foreignmix2",
			Nodes: []vh.NodeSpec{{}, blob, blob, blob,
				{Kind: "foreign", Edges: []vh.Edge{}}, {Kind: "foreign", Edges: []vh.Edge{}},
				{Kind: "manifest", Edges: []vh.Edge{e("config", 1), e("layer", 4), e("layer", 2), e("layer", 5), e("layer", 3)}},
				{Kind: "manifest", Edges: []vh.Edge{e("config", 1), e("layer", 4), e("layer", 5), e("layer", 2), e("layer", 3)}},
				{Kind: "index", Edges: []vh.Edge{e("manifest", 6), e("manifest", 7)}}},
			Ext: []int{3},
		},
		{ // nested indexes with a blob listed twice and a shared config
			Name: "nested",
			Nodes: []vh.NodeSpec{{}, blob, blob,
				{Kind: "manifest", Edges: []vh.Edge{e("config", 1), e("layer", 2), e("layer", 2)}},
				{Kind: "dmanifest", Edges: []vh.Edge{e("config", 1)}},
				{Kind: "index", Edges: []vh.Edge{e("manifest", 3), e("manifest", 4)}},
				{Kind: "index", Edges: []vh.Edge{e("manifest", 5), e("manifest", 3)}}},
			Ext: []int{2},
		},
	}
}
