package copyfam

import (
	"bufio"
	"encoding/json"
	"fmt"
	"math/rand"
	"os"
	"runtime"
	"strings"
	"testing"

	"verif/harness/vh"
)

// TestDrive is the entry point used by /verif/check. Environment:
//
//	VH_OUT     directory for trace-NNN.ndjson files and scenarios.ndjson
//	VH_PLANS   comma separated plans: exh:<N>:<cap> faults:<N>:<k> cancel:<N>:<k> random:<count> ext:<count>
//	VH_SEED    seed of every random choice
//	VH_REPLAY  file with scenarios (one JSON per line) to run instead of plans
func TestDrive(t *testing.T) {
	out := os.Getenv("VH_OUT")
	if out == "" {
		t.Skip("VH_OUT not set")
	}
	seed := int64(vh.EnvInt("VH_SEED", 1))
	// one P: what happens between two gates is then scheduled the same way on
	// every run, so that a recorded schedule replays exactly
	runtime.GOMAXPROCS(vh.EnvInt("VH_PROCS", 1))
	// VH_SYNC: every event is flushed at once (replay of a scenario in which the library made the process panic)
	rot := &vh.Rot{Dir: out, Max: vh.EnvInt("VH_ROT", 120000), Sync: os.Getenv("VH_SYNC") != ""}
	sf, err := os.Create(out + "/scenarios.ndjson")
	if err != nil {
		t.Fatal(err)
	}
	defer sf.Close()
	sw := bufio.NewWriter(sf)
	defer sw.Flush()
	enc := json.NewEncoder(sw)
	d := &driver{t: t, rot: rot, enc: enc, rng: rand.New(rand.NewSource(seed)), seed: seed, out: out}

	if rp := os.Getenv("VH_REPLAY"); rp != "" {
		f, err := os.Open(rp)
		if err != nil {
			t.Fatal(err)
		}
		sc := bufio.NewScanner(f)
		sc.Buffer(make([]byte, 1<<20), 1<<26)
		for sc.Scan() {
			var s Scenario
			if err := json.Unmarshal(sc.Bytes(), &s); err != nil {
				t.Fatal(err)
			}
			if len(s.Choices) > 0 {
				s.Prefix = s.Choices
			}
			d.run(&s)
		}
		f.Close()
	} else {
		for _, p := range strings.Split(vh.EnvStr("VH_PLANS", "exh:3:200"), ",") {
			var a, b int
			parts := strings.Split(p, ":")
			if len(parts) > 1 {
				fmt.Sscan(parts[1], &a)
			}
			if len(parts) > 2 {
				fmt.Sscan(parts[2], &b)
			}
			switch parts[0] {
			case "exh":
				d.planExh(a, b)
			case "faults":
				d.planFaults(a, b)
			case "cancel":
				d.planCancel(a, b)
			case "crafted":
				d.planCrafted(a, b)
			case "faultsR":
				d.planFaultsR(a, b)
			case "random":
				d.planRandom(a, false)
			case "ext":
				d.planRandom(a, true)
			case "extf":
				d.planExtF(a)
			case "remote":
				d.planRemote(a)
			default:
				t.Fatalf("unknown plan %q", p)
			}
		}
	}
	rot.Close()
	sum, _ := json.Marshal(map[string]any{"executions": d.execs, "events": rot.Total, "files": rot.Files,
		"hangs": d.hangs, "errors": d.errs, "plans": d.perPlan})
	if err := os.WriteFile(out+"/summary.json", sum, 0o644); err != nil {
		t.Fatal(err)
	}
}

type driver struct {
	t       *testing.T
	rot     *vh.Rot
	enc     *json.Encoder
	rng     *rand.Rand
	seed    int64
	next    int
	execs   int
	hangs   int
	errs    int
	perPlan map[string]int
	plan    string
	out     string
}

func (d *driver) run(sc *Scenario) Result {
	d.next++
	sc.ID = d.next
	if sc.Salt == "" {
		sc.Salt = fmt.Sprint(sc.ID)
	}
	// the scenario about to run: if a goroutine of the library panics, the process dies and this is what is left
	if b, err := json.Marshal(sc); err == nil {
		os.WriteFile(d.out+"/current.json", b, 0o644)
	}
	r := RunOne(d.t, sc, d.rot.Next())
	d.execs++
	if d.perPlan == nil {
		d.perPlan = map[string]int{}
	}
	d.perPlan[d.plan]++
	if r.Hang {
		d.hangs++
	}
	if r.Err != nil {
		d.errs++
	}
	if err := d.enc.Encode(sc); err != nil {
		d.t.Fatal(err)
	}
	return r
}

// dfs runs every gate-level schedule of the scenario, up to cap executions.
func (d *driver) dfs(base Scenario, cap int) int {
	prefix := []int{}
	n := 0
	for prefix != nil && n < cap {
		sc := base
		sc.Prefix, sc.Seed = prefix, 0
		r := d.run(&sc)
		n++
		prefix = vh.NextPrefix(r.Choices, r.Alts)
	}
	return n
}

func (d *driver) shapeOpts() vh.ShapeOpts {
	return vh.ShapeOpts{Foreign: true, Dup: true, Subjects: true, Docker: true, Artifact: true, Empty: true,
		Alias: d.rng.Intn(2) == 0, Titles: d.rng.Intn(2) == 0, URLs: d.rng.Intn(3) == 0}
}

// planExh: every successor relation on <= n nodes, every link-closed initial
// destination, Concurrency 1..3, every gate-level schedule (capped).
func (d *driver) planExh(n, cap int) {
	d.plan = "exh"
	for size := 1; size <= n; size++ {
		for _, succ := range vh.AllSucc(size) {
			nodes := vh.ShapeFromSucc(succ, d.rng, vh.ShapeOpts{Subjects: true, Docker: true, Artifact: true})
			g, err := vh.Build(nodes, "x")
			if err != nil {
				d.t.Fatal(err)
			}
			for _, dst0 := range g.ClosedSubsets() {
				for c := 1; c <= 3; c++ {
					d.dfs(Scenario{Nodes: nodes, API: "copygraph", Root: size, Dst0: dst0, C: c}, cap)
				}
			}
		}
	}
}

var faultOps = []Fault{{"exists", 0, "before"}, {"exists", 0, "race"}, {"fetch", 0, "before"}, {"fetch", 0, "mid"}, {"fetch", 0, "long"}, {"push", 0, "before"}, {"push", 0, "after"}}
var cbOps = []string{"pre", "post", "skipped"}

// planFaults: every single fault (operation, node, phase) and every single
// callback error on every shape with <= n nodes, k seeded schedules each.
func (d *driver) planFaults(n, k int) {
	d.plan = "faults"
	for size := 1; size <= n; size++ {
		for _, succ := range vh.AllSucc(size) {
			nodes := vh.ShapeFromSucc(succ, d.rng, vh.ShapeOpts{Subjects: true})
			g, _ := vh.Build(nodes, "x")
			subsets := g.ClosedSubsets()
			for node := 1; node <= size; node++ {
				for _, f := range faultOps {
					f.Node = node
					for i := 0; i < k; i++ {
						sc := Scenario{Nodes: nodes, API: "copygraph", Root: size, C: 1 + d.rng.Intn(3),
							Dst0: subsets[d.rng.Intn(len(subsets))], Faults: []Fault{f}, Seed: d.rng.Int63()}
						d.run(&sc)
					}
				}
				for _, op := range cbOps {
					for i := 0; i < k; i++ {
						sc := Scenario{Nodes: nodes, API: "copygraph", Root: size, C: 1 + d.rng.Intn(3),
							Dst0: subsets[d.rng.Intn(len(subsets))], CbErr: []Fault{{op, node, "cb"}}, Seed: d.rng.Int63()}
						d.run(&sc)
					}
				}
			}
		}
	}
}

// planCancel: a context cancellation at every gate step of k seeded schedules
// of every shape with <= n nodes.
func (d *driver) planCancel(n, k int) {
	d.plan = "cancel"
	for size := 1; size <= n; size++ {
		for _, succ := range vh.AllSucc(size) {
			nodes := vh.ShapeFromSucc(succ, d.rng, vh.ShapeOpts{Subjects: true})
			for i := 0; i < k; i++ {
				seed := d.rng.Int63()
				c := 1 + d.rng.Intn(3)
				for _, mode := range []string{"before", "after"} {
					for step := 1; ; step++ {
						sc := Scenario{Nodes: nodes, API: "copygraph", Root: size, C: c, Cancel: step, CMode: mode, Seed: seed}
						r := d.run(&sc)
						if len(r.Choices) < step {
							break // the call finished before this step existed
						}
					}
				}
				pre := Scenario{Nodes: nodes, API: "copygraph", Root: size, C: c, Cancel: -1, Seed: seed}
				d.run(&pre)
			}
		}
	}
}

// planFaultsR: random shapes with 4-6 nodes; every single fault (operation,
// node, phase), k seeded schedules each; copygraph and extcopygraph.
func (d *driver) planFaultsR(count, k int) {
	d.plan = "faultsR"
	for i := 0; i < count; i++ {
		n := 4 + d.rng.Intn(3)
		succ := vh.RandomSucc(n, d.rng, 35+d.rng.Intn(30))
		nodes := vh.ShapeFromSucc(succ, d.rng, vh.ShapeOpts{Subjects: true, Dup: true})
		g, _ := vh.Build(nodes, "x")
		subsets := g.ClosedSubsets()
		for node := 1; node <= n; node++ {
			for _, f := range faultOps {
				f.Node = node
				for j := 0; j < k; j++ {
					sc := Scenario{Nodes: nodes, API: "copygraph", Root: n, C: 1 + d.rng.Intn(3),
						Dst0: subsets[d.rng.Intn(len(subsets))], Faults: []Fault{f}, Seed: d.rng.Int63()}
					if d.rng.Intn(3) == 0 {
						sc.API = "extcopygraph"
						sc.Root = 1 + d.rng.Intn(n)
					}
					d.run(&sc)
				}
			}
		}
	}
}

// planCrafted: the crafted shapes. Fault-free: DFS over schedules (capped);
// every single fault and callback error: k seeded schedules; every
// destination kind; extended copy from the listed start nodes.
func (d *driver) planCrafted(cap, k int) {
	d.plan = "crafted"
	for _, cs := range craftedShapes() {
		n := len(cs.Nodes) - 1
		for _, dk := range []string{"memory", "file", "oci"} {
			for c := 1; c <= 3; c++ {
				if c == 1 && dk != "file" {
					continue
				}
				d.dfs(Scenario{Nodes: cs.Nodes, API: "copygraph", Root: n, Dst0: []int{}, C: c, DstKind: dk, PreFiles: dk == "file" && c == 3}, cap)
			}
		}
		for node := 1; node <= n; node++ {
			for _, f := range faultOps {
				f.Node = node
				for j := 0; j < k; j++ {
					sc := Scenario{Nodes: cs.Nodes, API: "copygraph", Root: n, Dst0: []int{}, C: 2 + d.rng.Intn(2),
						Faults: []Fault{f}, Seed: d.rng.Int63()}
					if j%2 == 1 && len(cs.Ext) > 0 {
						sc.API = "extcopygraph"
						sc.Root = cs.Ext[d.rng.Intn(len(cs.Ext))]
					}
					d.run(&sc)
				}
			}
		}
		for _, start := range cs.Ext {
			for c := 1; c <= 3; c++ {
				d.dfs(Scenario{Nodes: cs.Nodes, API: "extcopygraph", Root: start, Dst0: []int{}, C: c}, cap/2+1)
			}
			for po := 1; po <= 12; po++ {
				sc := Scenario{Nodes: cs.Nodes, API: "extcopygraph", Root: start, Dst0: []int{}, C: 1 + po%3, PredOrder: po, Seed: d.rng.Int63()}
				d.run(&sc)
			}
		}
	}
}

// planExtF: extended copy with artifact-type / annotation filters and depth limits from memory, OCI-layout and remote
// sources (Referrers API with a page limit, referrers tag schema).
func (d *driver) planExtF(count int) {
	d.plan = "extf"
	filters := []string{"", `at:^application/vnd\.verif\.sig$`, `at:verif\.(sig|sbom)`, `at:^application/vnd\.oci\.image\.layer`,
		`at:^$`, `at:idx`, "ann:verif.tier=^gold$", "ann:verif.tier=o", "annkey:verif.tier"}
	for i := 0; i < count; i++ {
		n := 4 + d.rng.Intn(5)
		succ := vh.RandomSucc(n, d.rng, 25+d.rng.Intn(30))
		nodes := vh.ShapeFromSucc(succ, d.rng, vh.ShapeOpts{Subjects: true, Artifact: true, Dup: d.rng.Intn(3) == 0})
		for k := 1; k <= n; k++ {
			if !vh.IsManifestKind(nodes[k].Kind) {
				continue
			}
			switch nodes[k].Kind {
			case "manifest":
				if d.rng.Intn(3) == 0 {
					nodes[k].Art = "" // the artifact type is then the config media type
				} else if nodes[k].Art == "" && d.rng.Intn(2) == 0 {
					nodes[k].Art = "application/vnd.verif.sig"
				}
			case "index":
				if d.rng.Intn(2) == 0 {
					nodes[k].Art = "application/vnd.verif.idx"
				}
			}
			if x := d.rng.Intn(3); x < 2 {
				nodes[k].Ann = map[string]string{"verif.tier": []string{"gold", "silver"}[x]}
			}
		}
		crafted := d.rng.Intn(4) == 0
		if crafted {
			// one image with four referrers of two artifact types and two tiers: a paginated listing of its referrers has
			// pages without a match between pages with one
			e := func(role string, to int) vh.Edge { return vh.Edge{Role: role, To: to} }
			tier := func() map[string]string {
				return map[string]string{"verif.tier": []string{"gold", "silver"}[d.rng.Intn(2)]}
			}
			nodes = []vh.NodeSpec{{}, {Kind: "blob", Edges: []vh.Edge{}},
				{Kind: "manifest", Edges: []vh.Edge{e("config", 1)}},
				{Kind: "manifest", Art: "application/vnd.verif.sig", Ann: tier(), Edges: []vh.Edge{e("subject", 2), e("config", 1)}},
				{Kind: "artifact", Art: "application/vnd.verif.sbom", Ann: tier(), Edges: []vh.Edge{e("subject", 2), e("blob", 1)}},
				{Kind: "manifest", Art: "application/vnd.verif.sig", Ann: tier(), Edges: []vh.Edge{e("subject", 2), e("config", 1)}},
				{Kind: "artifact", Art: "application/vnd.verif.sbom", Ann: tier(), Edges: []vh.Edge{e("subject", 2), e("blob", 1)}},
				{Kind: "manifest", Art: "application/vnd.verif.sig", Ann: tier(), Edges: []vh.Edge{e("subject", 3), e("config", 1)}}}
			n = len(nodes) - 1
		}
		sc := Scenario{Nodes: nodes, C: 1 + d.rng.Intn(3), Dst0: []int{}, Seed: d.rng.Int63(), API: "extcopygraph"}
		sc.Root = 1 + d.rng.Intn(n)
		if crafted {
			sc.Root = 2
			sc.Salt = fmt.Sprint("x", i) // other digests, hence another page order, every time
		}
		sc.SrcKind = []string{"memory", "oci", "remote", "remote", "remotetag", "file", "filecas"}[d.rng.Intn(7)]
		sc.DstKind = []string{"memory", "oci"}[d.rng.Intn(2)]
		if sc.SrcKind == "remote" {
			sc.RefPage = d.rng.Intn(3)
			// the client's own page size: the registry is free to answer with shorter pages
			sc.RefN = []int{0, 0, 1, 3, 4}[d.rng.Intn(5)]
			if crafted {
				sc.RefPage, sc.RefN = 1+d.rng.Intn(2), []int{0, 3, 4}[d.rng.Intn(3)]
			}
		}
		sc.PredOrder = d.rng.Intn(16)
		sc.Filter = filters[d.rng.Intn(len(filters))]
		sc.Depth = []int{0, 0, 1, 2}[d.rng.Intn(4)]
		if vh.IsManifestKind(nodes[sc.Root].Kind) && d.rng.Intn(2) == 0 {
			sc.API = "extcopy"
			if d.rng.Intn(2) == 0 {
				sc.DstRef = "dstref"
			}
		}
		if d.rng.Intn(6) == 0 {
			sc.Faults = []Fault{{"pred", 1 + d.rng.Intn(n), "before"}}
		}
		d.run(&sc)
	}
}

// planRemote: a real remote.Repository (over the in-process registry) as source and / or destination of Copy and
// CopyGraph, with blob mounting from the source repository (MountFrom / OnMounted), faults, callbacks and cancellation.
func (d *driver) planRemote(count int) {
	d.plan = "remote"
	for i := 0; i < count; i++ {
		n := 3 + d.rng.Intn(5)
		succ := vh.RandomSucc(n, d.rng, 25+d.rng.Intn(30))
		nodes := vh.ShapeFromSucc(succ, d.rng, vh.ShapeOpts{Subjects: true, Docker: true, Artifact: true, Dup: true})
		g, err := vh.Build(nodes, "x")
		if err != nil {
			d.t.Fatal(err)
		}
		subsets := g.ClosedSubsets()
		sc := Scenario{Nodes: nodes, Root: n, C: 1 + d.rng.Intn(4), Dst0: subsets[d.rng.Intn(len(subsets))], Seed: d.rng.Int63(), API: "copygraph"}
		sc.SrcKind = []string{"remote", "remote", "remotetag", "memory", "oci"}[d.rng.Intn(5)]
		sc.DstKind = []string{"remote", "remote", "remote", "memory"}[d.rng.Intn(4)]
		if !strings.HasPrefix(sc.SrcKind, "remote") {
			sc.DstKind = "remote"
		}
		if vh.IsManifestKind(nodes[n].Kind) && d.rng.Intn(2) == 0 {
			sc.API = "copy"
			if d.rng.Intn(2) == 0 {
				sc.DstRef = "dstref"
			}
		}
		if sc.DstKind == "remote" {
			sc.Mount = d.rng.Intn(6)
		}
		switch d.rng.Intn(5) {
		case 0:
			ops := append([]Fault{{"mount", 0, "before"}}, faultOps...)
			f := ops[d.rng.Intn(len(ops))]
			f.Node = 1 + d.rng.Intn(n)
			sc.Faults = []Fault{f}
		case 1:
			sc.CbErr = []Fault{{append([]string{"mounted"}, cbOps...)[d.rng.Intn(4)], 1 + d.rng.Intn(n), "cb"}}
		case 2:
			sc.Cancel = 1 + d.rng.Intn(3*n)
			sc.CMode = []string{"before", "after"}[d.rng.Intn(2)]
		}
		d.run(&sc)
	}
}

// planRandom: larger random graphs, every API, options, 0-2 faults.
func (d *driver) planRandom(count int, ext bool) {
	d.plan = "random"
	if ext {
		d.plan = "ext"
	}
	if ext {
		// the caller's context is cancelled right after each of the first storage operations of an extended copy of the
		// crafted shapes (stores that do not look at the context): the search for ancestors goes on, the copy of the
		// roots must not be skipped silently - either an error, or everything is there
		for _, cs := range craftedShapes() {
			for _, start := range cs.Ext {
				for step := 1; step <= 12; step++ {
					sc := Scenario{Nodes: cs.Nodes, API: "extcopygraph", Root: start, Dst0: []int{}, C: 1 + step%3, Cancel: step, CMode: "after", Seed: d.rng.Int63()}
					if r := d.run(&sc); len(r.Choices) < step {
						break
					}
				}
			}
		}
	}
	for i := 0; i < count; i++ {
		n := 3 + d.rng.Intn(5)
		succ := vh.RandomSucc(n, d.rng, 25+d.rng.Intn(30))
		nodes := vh.ShapeFromSucc(succ, d.rng, d.shapeOpts())
		g, err := vh.Build(nodes, "x")
		if err != nil {
			d.t.Fatal(err)
		}
		subsets := g.ClosedSubsets()
		sc := Scenario{Nodes: nodes, Root: n, C: 1 + d.rng.Intn(4), Dst0: subsets[d.rng.Intn(len(subsets))], Seed: d.rng.Int63()}
		switch {
		case ext:
			sc.API = []string{"extcopygraph", "extcopy"}[d.rng.Intn(2)]
			// start anywhere that exists in the source
			for {
				sc.Root = 1 + d.rng.Intn(n)
				if nodes[sc.Root].Kind != "foreign" {
					break
				}
			}
			sc.Depth = d.rng.Intn(4)
			sc.PredOrder = d.rng.Intn(16)
			if d.rng.Intn(8) == 0 {
				// a crafted sharing pattern, from one of its interesting start nodes
				var cands []crafted
				for _, cs := range craftedShapes() {
					if len(cs.Ext) > 0 {
						cands = append(cands, cs)
					}
				}
				cs := cands[d.rng.Intn(len(cands))]
				nodes, n = cs.Nodes, len(cs.Nodes)-1
				g, _ = vh.Build(nodes, "x")
				subsets = g.ClosedSubsets()
				sc.Nodes, sc.Root, sc.Dst0 = nodes, cs.Ext[d.rng.Intn(len(cs.Ext))], subsets[d.rng.Intn(len(subsets))]
				if d.rng.Intn(2) == 0 {
					sc.Depth = 0
				}
			}
		default:
			sc.API = []string{"copygraph", "copy", "copy"}[d.rng.Intn(3)]
		}
		if sc.API == "copy" || sc.API == "extcopy" {
			if d.rng.Intn(2) == 0 {
				sc.DstRef = "dstref"
			}
			if sc.API == "copy" {
				sc.RefDst = d.rng.Intn(2) == 0
				if kids := g.SuccNF(n); d.rng.Intn(4) == 0 && len(kids) > 0 {
					sc.MapRoot = kids[d.rng.Intn(len(kids))]
				}
			}
		}
		sc.SrcKind = []string{"memory", "memory", "oci"}[d.rng.Intn(3)]
		sc.DstKind = []string{"memory", "memory", "oci", "file"}[d.rng.Intn(4)]
		switch d.rng.Intn(5) {
		case 0:
			f := faultOps[d.rng.Intn(len(faultOps))]
			f.Node = 1 + d.rng.Intn(n)
			sc.Faults = []Fault{f}
			if d.rng.Intn(4) == 0 {
				f2 := faultOps[d.rng.Intn(len(faultOps))]
				f2.Node = 1 + d.rng.Intn(n)
				sc.Faults = append(sc.Faults, f2)
			}
			if ext && d.rng.Intn(3) == 0 {
				sc.Faults = []Fault{{"pred", 1 + d.rng.Intn(n), "before"}}
			}
		case 1:
			sc.CbErr = []Fault{{cbOps[d.rng.Intn(len(cbOps))], 1 + d.rng.Intn(n), "cb"}}
		case 2:
			sc.Cancel = 1 + d.rng.Intn(3*n)
			sc.CMode = []string{"before", "after"}[d.rng.Intn(2)]
			if d.rng.Intn(10) == 0 {
				sc.Cancel = -1
			}
		}
		sc.PreFiles = sc.DstKind == "file" && d.rng.Intn(2) == 0
		if sc.DstKind == "file" && len(sc.Faults) == 0 && len(sc.CbErr) == 0 && sc.Cancel == 0 && d.rng.Intn(2) == 0 {
			// a blob's stream breaks half-way while the file store is writing it; the retry must then complete.
			// Preferably a blob the manifests name (title annotation): the file store writes those under their names.
			victim := 1 + d.rng.Intn(n)
			for _, k := range d.rng.Perm(n) {
				for i := range nodes[k+1].Edges {
					e := &nodes[k+1].Edges[i]
					if (e.Role == "layer" || e.Role == "blob") && nodes[e.To].Kind == "blob" && !nodes[e.To].Empty {
						if e.Title == "" {
							e.Title = fmt.Sprintf("f%d-in-%d.txt", e.To, k+1)
						}
						victim = e.To
					}
				}
			}
			sc.Nodes = nodes
			sc.Dst0 = []int{}
			sc.Faults = []Fault{{"fetch", victim, "mid"}}
		}
		d.run(&sc)
	}
}
