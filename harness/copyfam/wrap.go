// Package copyfam drives oras.Copy / CopyGraph / ExtendedCopy / ExtendedCopyGraph
// of the real library through gate-level schedules, fault plans and
// cancellations, and records what the library did as an ndjson trace that the
// TLA+ monitors (spec/CopyMon.tla, spec/CopyGraphTrace.tla) judge.
package copyfam

import (
	"bytes"
	"context"
	"errors"
	"io"
	"math/rand"
	"sort"
	"sync"

	ocispec "github.com/opencontainers/image-spec/specs-go/v1"
	"oras.land/oras-go/v2/content"
	"oras.land/oras-go/v2/errdef"
	"oras.land/oras-go/v2/registry"
	"verif/harness/vh"
)

// ErrInjected is what an armed fault returns.
var ErrInjected = errors.New("verif: injected fault")

type Fault struct {
	Op    string `json:"op"`    // exists fetch push pred tag resolve pre post skipped mounted
	Node  int    `json:"node"`  // node number
	Phase string `json:"phase"` // before | after
}

// env is what the wrappers of one execution share.
type env struct {
	g      *vh.Graph
	s      *vh.Sched
	tr     *vh.Tracer
	mu     sync.Mutex
	faults []Fault
	fired  int
	// soft counts armed faults that need not make the call fail: a source stream that carries bytes beyond the described
	// size is an error only to a destination that reads that far (a size-limited store takes the first Size bytes)
	soft int
	// cancelAfter, when set, is called by the next wrapped operation after it
	// performed its effect successfully (cancellation "during" an operation
	// that does not consult the context).
	cancelAfter func()
}

// ctxFail records that a gated operation returned the context's error.
func (e *env) ctxFail() {
	e.mu.Lock()
	e.fired++
	e.mu.Unlock()
}

// after runs the armed cancel-after hook, once.
func (e *env) after() {
	e.mu.Lock()
	f := e.cancelAfter
	e.cancelAfter = nil
	e.mu.Unlock()
	if f != nil {
		f()
	}
}

// cls classifies the result of a destination write.
func cls(err error) string {
	switch {
	case err == nil:
		return "ok"
	case errors.Is(err, errdef.ErrAlreadyExists):
		return "exists"
	default:
		return "err"
	}
}

// take removes and returns the armed fault for (op,node), if any.
func (e *env) take(op string, node int) (Fault, bool) {
	e.mu.Lock()
	defer e.mu.Unlock()
	for i, f := range e.faults {
		if f.Op == op && f.Node == node {
			e.faults = append(e.faults[:i], e.faults[i+1:]...)
			switch f.Phase {
			case "long":
				e.soft++
			case "race":
				// another writer, not a failure: the call has to succeed all the same
			case "mid":
				// counts when (and if) the stream is read up to the point where it breaks: a destination that
				// answers "already exists" without reading it never meets the failure
			default:
				e.fired++
			}
			return f, true
		}
	}
	return Fault{}, false
}

// breaking is a fetched stream that fails after `left` bytes.
type breaking struct {
	rc    io.ReadCloser
	left  int64
	e     *env
	broke bool
}

func (b *breaking) Read(p []byte) (int, error) {
	if b.left <= 0 {
		if !b.broke {
			b.broke = true
			b.e.mu.Lock()
			b.e.fired++
			b.e.mu.Unlock()
		}
		return 0, ErrInjected
	}
	if int64(len(p)) > b.left {
		p = p[:b.left]
	}
	n, err := b.rc.Read(p)
	b.left -= int64(n)
	return n, err
}
func (b *breaking) Close() error { return b.rc.Close() }

// tracked is a fetched stream whose Close is recorded: a source read is in flight from the Fetch call until its stream
// is closed.
type tracked struct {
	io.ReadCloser
	w    *srcW
	n    int
	once sync.Once
}

func (t *tracked) Close() error {
	err := t.ReadCloser.Close()
	t.once.Do(func() { t.w.e.tr.Emit(map[string]any{"e": "fetchC", "n": t.n}) })
	return err
}

func (w *srcW) track(n int, rc io.ReadCloser) io.ReadCloser {
	return &tracked{ReadCloser: rc, w: w, n: n}
}

// srcW wraps the source. It is a ReadOnlyGraphTarget.
type srcW struct {
	e   *env
	und interface {
		content.ReadOnlyStorage
		content.PredecessorFinder
		content.Resolver
	}
	order int // Scenario.PredOrder
}

func (w *srcW) Fetch(ctx context.Context, d ocispec.Descriptor) (io.ReadCloser, error) {
	n := w.e.g.NodeOf(d)
	man := vh.IsManifestKind(w.e.g.Nodes[n].Kind)
	w.e.tr.Emit(map[string]any{"e": "fetchB", "n": n, "man": man})
	w.e.s.Gate("fetch", n)
	if err := ctx.Err(); err != nil {
		w.e.ctxFail()
		w.e.tr.Emit(map[string]any{"e": "fetchE", "n": n, "man": man, "err": true, "why": "ctx"})
		return nil, err
	}
	if f, ok := w.e.take("fetch", n); ok {
		if f.Phase == "long" {
			// the fetch succeeds, the stream carries bytes beyond the described size
			rc, err := w.und.Fetch(ctx, d)
			if err == nil {
				w.e.tr.Emit(map[string]any{"e": "fetchE", "n": n, "man": man, "err": false, "why": "longfault"})
				return w.track(n, struct {
					io.Reader
					io.Closer
				}{io.MultiReader(rc, bytes.NewReader(bytes.Repeat([]byte("Z"), 70000))), rc}), nil
			}
		}
		if f.Phase == "mid" {
			// the fetch succeeds, the stream breaks after half of the bytes
			rc, err := w.und.Fetch(ctx, d)
			if err == nil {
				w.e.tr.Emit(map[string]any{"e": "fetchE", "n": n, "man": man, "err": false, "why": "midfault"})
				return w.track(n, &breaking{rc: rc, left: d.Size / 2, e: w.e}), nil
			}
		}
		if f.Phase == "mid" {
			// the stream could not even be opened: an outright failure of the read
			w.e.mu.Lock()
			w.e.fired++
			w.e.mu.Unlock()
		}
		w.e.tr.Emit(map[string]any{"e": "fetchE", "n": n, "man": man, "err": true, "why": "fault"})
		return nil, ErrInjected
	}
	rc, err := w.und.Fetch(ctx, d)
	w.e.tr.Emit(map[string]any{"e": "fetchE", "n": n, "man": man, "err": err != nil, "why": ""})
	w.e.after()
	if err == nil {
		rc = w.track(n, rc)
	}
	return rc, err
}

func (w *srcW) Exists(ctx context.Context, d ocispec.Descriptor) (bool, error) {
	return w.und.Exists(ctx, d)
}

func (w *srcW) Resolve(ctx context.Context, ref string) (ocispec.Descriptor, error) {
	w.e.tr.Emit(map[string]any{"e": "sresolveB", "ref": ref})
	w.e.s.Gate("sresolve", 0)
	if err := ctx.Err(); err != nil {
		w.e.ctxFail()
		w.e.tr.Emit(map[string]any{"e": "sresolveE", "ref": ref, "n": 0, "err": true})
		return ocispec.Descriptor{}, err
	}
	if _, ok := w.e.take("sresolve", 0); ok {
		w.e.tr.Emit(map[string]any{"e": "sresolveE", "ref": ref, "n": 0, "err": true})
		return ocispec.Descriptor{}, ErrInjected
	}
	d, err := w.und.Resolve(ctx, ref)
	w.e.tr.Emit(map[string]any{"e": "sresolveE", "ref": ref, "n": w.e.g.NodeOf(d), "err": err != nil})
	return d, err
}

func (w *srcW) Predecessors(ctx context.Context, d ocispec.Descriptor) ([]ocispec.Descriptor, error) {
	n := w.e.g.NodeOf(d)
	w.e.tr.Emit(map[string]any{"e": "predB", "n": n})
	w.e.s.Gate("pred", n)
	if err := ctx.Err(); err != nil {
		w.e.ctxFail()
		w.e.tr.Emit(map[string]any{"e": "predE", "n": n, "err": true, "res": []int{}})
		return nil, err
	}
	if _, ok := w.e.take("pred", n); ok {
		w.e.tr.Emit(map[string]any{"e": "predE", "n": n, "err": true, "res": []int{}})
		return nil, ErrInjected
	}
	ps, err := w.und.Predecessors(ctx, d)
	if w.order != 0 && len(ps) > 1 {
		// a fixed listing order for this node: by node number, then permuted
		sort.SliceStable(ps, func(i, j int) bool { return w.e.g.NodeOf(ps[i]) < w.e.g.NodeOf(ps[j]) })
		perm := rand.New(rand.NewSource(int64(w.order)*1000003 + int64(n))).Perm(len(ps))
		out := make([]ocispec.Descriptor, len(ps))
		for i, j := range perm {
			out[i] = ps[j]
		}
		ps = out
	}
	var res []int
	for _, p := range ps {
		res = append(res, w.e.g.NodeOf(p))
	}
	w.e.tr.Emit(map[string]any{"e": "predE", "n": n, "err": err != nil, "res": vh.Ints(res)})
	w.e.after()
	return ps, err
}

// srcRefW is the source wrapper for a source that lists referrers itself (registry.ReferrerLister): the filters of
// ExtendedCopy then take their fast path through Referrers.
type srcRefW struct {
	*srcW
	rl registry.ReferrerLister
}

func (w *srcRefW) Referrers(ctx context.Context, d ocispec.Descriptor, artifactType string, fn func([]ocispec.Descriptor) error) error {
	n := w.e.g.NodeOf(d)
	w.e.tr.Emit(map[string]any{"e": "predB", "n": n})
	w.e.s.Gate("pred", n)
	if err := ctx.Err(); err != nil {
		w.e.ctxFail()
		w.e.tr.Emit(map[string]any{"e": "predE", "n": n, "err": true, "res": []int{}})
		return err
	}
	if _, ok := w.e.take("pred", n); ok {
		w.e.tr.Emit(map[string]any{"e": "predE", "n": n, "err": true, "res": []int{}})
		return ErrInjected
	}
	var res []int
	err := w.rl.Referrers(ctx, d, artifactType, func(ds []ocispec.Descriptor) error {
		for _, p := range ds {
			res = append(res, w.e.g.NodeOf(p))
		}
		return fn(ds)
	})
	w.e.tr.Emit(map[string]any{"e": "predE", "n": n, "err": err != nil, "res": vh.Ints(res)})
	w.e.after()
	return err
}

type failing struct{ err error }

func (f *failing) Read([]byte) (int, error) { return 0, f.err }

// dstW wraps the destination. It is a Target.
type dstW struct {
	e   *env
	und interface {
		content.Storage
		content.TagResolver
	}
}

// has reads the underlying destination directly: the nodes present.
func (w *dstW) has() []int {
	var out []int
	for k := 1; k <= w.e.g.N; k++ {
		if ok, _ := w.und.Exists(context.Background(), w.e.g.Descs[k]); ok {
			out = append(out, k)
		}
	}
	return vh.Ints(out)
}

// dangling lists [parent, child] pairs: the parent is present but the child's
// descriptor, exactly as the parent lists it, does not exist in the destination.
func (w *dstW) dangling() [][]int {
	out := [][]int{}
	bg := context.Background()
	for k := 1; k <= w.e.g.N; k++ {
		if ok, _ := w.und.Exists(bg, w.e.g.Descs[k]); !ok {
			continue
		}
		for i, d := range w.e.g.EdgeDescs(k) {
			to := w.e.g.Nodes[k].Edges[i].To
			if w.e.g.Nodes[to].Kind == "foreign" {
				continue
			}
			if ok, _ := w.und.Exists(bg, d); !ok {
				out = append(out, []int{k, to})
			}
		}
	}
	return out
}

func (w *dstW) Fetch(ctx context.Context, d ocispec.Descriptor) (io.ReadCloser, error) {
	return w.und.Fetch(ctx, d)
}

func (w *dstW) Exists(ctx context.Context, d ocispec.Descriptor) (bool, error) {
	n := w.e.g.NodeOf(d)
	w.e.tr.Emit(map[string]any{"e": "existsB", "n": n})
	w.e.s.Gate("exists", n)
	if err := ctx.Err(); err != nil {
		w.e.ctxFail()
		w.e.tr.Emit(map[string]any{"e": "existsE", "n": n, "r": false, "err": true, "why": "ctx"})
		return false, err
	}
	if f, ok := w.e.take("exists", n); ok {
		if f.Phase != "race" {
			w.e.tr.Emit(map[string]any{"e": "existsE", "n": n, "r": false, "err": true, "why": "fault"})
			return false, ErrInjected
		}
		// another writer stores this blob right after the destination answered "not there": the push that follows is
		// told that the content exists already (only for leaf blobs - a foreign writer's manifest would break the
		// destination's closure by itself)
		if ok, err := w.und.Exists(ctx, d); err == nil && !ok && len(w.e.g.SuccAll(n)) == 0 && !vh.IsManifestKind(w.e.g.Nodes[n].Kind) {
			w.e.tr.Emit(map[string]any{"e": "existsE", "n": n, "r": false, "err": false, "why": "race"})
			w.und.Push(ctx, w.e.g.Descs[n], bytes.NewReader(w.e.g.Blobs[n]))
			w.e.tr.Emit(map[string]any{"e": "foreign", "n": n})
			return false, nil
		}
	}
	ok, err := w.und.Exists(ctx, d)
	w.e.tr.Emit(map[string]any{"e": "existsE", "n": n, "r": ok, "err": err != nil, "why": ""})
	w.e.after()
	return ok, err
}

func (w *dstW) Push(ctx context.Context, d ocispec.Descriptor, r io.Reader) error {
	n := w.e.g.NodeOf(d)
	w.e.tr.Emit(map[string]any{"e": "pushB", "n": n})
	w.e.s.Gate("push", n)
	if err := ctx.Err(); err != nil {
		w.e.ctxFail()
		w.e.tr.Emit(map[string]any{"e": "pushE", "n": n, "r": "ctx", "has": w.has()})
		return err
	}
	f, armed := w.e.take("push", n)
	if armed && f.Phase != "after" {
		w.e.tr.Emit(map[string]any{"e": "pushE", "n": n, "r": "fault", "has": w.has()})
		return ErrInjected
	}
	// read everything first so that the bytes handed over can be logged
	b, rerr := io.ReadAll(r)
	if rerr != nil {
		// the source stream broke: the store sees the bytes that arrived and then the same error
		perr := w.und.Push(ctx, d, io.MultiReader(bytes.NewReader(b), &failing{rerr}))
		if perr == nil {
			perr = rerr
		}
		if errors.Is(perr, errdef.ErrAlreadyExists) && errors.Is(rerr, ErrInjected) {
			// the store answered "already exists" without reading: the break of the stream (met only by this wrapper's
			// own read-ahead) is not a failure the library could have seen
			w.e.mu.Lock()
			w.e.fired--
			w.e.mu.Unlock()
		}
		w.e.tr.Emit(map[string]any{"e": "pushE", "n": n, "r": "read", "has": w.has()})
		return perr
	}
	err := w.und.Push(ctx, d, bytes.NewReader(b))
	if armed {
		w.e.tr.Emit(map[string]any{"e": "pushE", "n": n, "r": "fault", "has": w.has()})
		return ErrInjected
	}
	w.e.tr.Emit(map[string]any{"e": "pushE", "n": n, "r": cls(err), "has": w.has()})
	w.e.after()
	return err
}

func (w *dstW) Resolve(ctx context.Context, ref string) (ocispec.Descriptor, error) {
	return w.und.Resolve(ctx, ref)
}

func (w *dstW) Tag(ctx context.Context, d ocispec.Descriptor, ref string) error {
	n := w.e.g.NodeOf(d)
	w.e.tr.Emit(map[string]any{"e": "tagB", "n": n, "ref": ref})
	w.e.s.Gate("tag", n)
	if err := ctx.Err(); err != nil {
		w.e.ctxFail()
		w.e.tr.Emit(map[string]any{"e": "tagE", "n": n, "ref": ref, "err": true})
		return err
	}
	if _, ok := w.e.take("tag", n); ok {
		w.e.tr.Emit(map[string]any{"e": "tagE", "n": n, "ref": ref, "err": true})
		return ErrInjected
	}
	err := w.und.Tag(ctx, d, ref)
	w.e.tr.Emit(map[string]any{"e": "tagE", "n": n, "ref": ref, "err": err != nil})
	return err
}

// dstMountW adds Mount (registry.Mounter): with CopyGraphOptions.MountFrom the library first asks the destination to
// mount a blob from another repository and copies it only when that fails.
type dstMountW struct {
	*dstW
	m registry.Mounter
}

func (w *dstMountW) Mount(ctx context.Context, d ocispec.Descriptor, fromRepo string, getContent func() (io.ReadCloser, error)) error {
	n := w.e.g.NodeOf(d)
	w.e.tr.Emit(map[string]any{"e": "mountB", "n": n, "from": fromRepo})
	w.e.s.Gate("mount", n)
	if err := ctx.Err(); err != nil {
		w.e.ctxFail()
		w.e.tr.Emit(map[string]any{"e": "mountE", "n": n, "r": "ctx", "has": w.has(), "fellback": false})
		return err
	}
	if _, armed := w.e.take("mount", n); armed {
		w.e.tr.Emit(map[string]any{"e": "mountE", "n": n, "r": "fault", "has": w.has(), "fellback": false})
		return ErrInjected
	}
	fellback := false
	err := w.m.Mount(ctx, d, fromRepo, func() (io.ReadCloser, error) {
		fellback = true
		return getContent()
	})
	w.e.tr.Emit(map[string]any{"e": "mountE", "n": n, "r": cls(err), "has": w.has(), "fellback": fellback})
	w.e.after()
	return err
}

// dstRefW adds PushReference, which makes oras.Copy take the ReferencePusher path.
type dstRefW struct{ *dstW }

func (w *dstRefW) PushReference(ctx context.Context, d ocispec.Descriptor, r io.Reader, ref string) error {
	n := w.e.g.NodeOf(d)
	w.e.tr.Emit(map[string]any{"e": "pushB", "n": n, "ref": ref})
	w.e.s.Gate("push", n)
	if err := ctx.Err(); err != nil {
		w.e.ctxFail()
		w.e.tr.Emit(map[string]any{"e": "pushE", "n": n, "r": "ctx", "has": w.has()})
		return err
	}
	f, armed := w.e.take("push", n)
	if armed && f.Phase != "after" {
		w.e.tr.Emit(map[string]any{"e": "pushE", "n": n, "r": "fault", "has": w.has()})
		return ErrInjected
	}
	b, rerr := io.ReadAll(r)
	if rerr != nil {
		w.e.tr.Emit(map[string]any{"e": "pushE", "n": n, "r": "read", "has": w.has()})
		return rerr
	}
	err := w.und.Push(ctx, d, bytes.NewReader(b))
	if err == nil || errors.Is(err, errdef.ErrAlreadyExists) {
		err = w.und.Tag(ctx, d, ref)
	}
	if armed {
		w.e.tr.Emit(map[string]any{"e": "pushE", "n": n, "r": "fault", "has": w.has()})
		return ErrInjected
	}
	w.e.tr.Emit(map[string]any{"e": "pushE", "n": n, "r": cls(err), "has": w.has()})
	return err
}
