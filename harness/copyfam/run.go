package copyfam

import (
	"bytes"
	"context"
	"errors"
	"fmt"
	"math/rand"
	"net/http"
	"os"
	"path/filepath"
	"regexp"
	"strings"
	"testing"
	"testing/synctest"

	ocispec "github.com/opencontainers/image-spec/specs-go/v1"
	oras "oras.land/oras-go/v2"
	"oras.land/oras-go/v2/content"
	"oras.land/oras-go/v2/content/file"
	"oras.land/oras-go/v2/content/memory"
	"oras.land/oras-go/v2/content/oci"
	"oras.land/oras-go/v2/errdef"
	"oras.land/oras-go/v2/registry"
	"oras.land/oras-go/v2/registry/remote"
	"verif/harness/regfake"
	"verif/harness/vh"
)

// Scenario is one execution of the library: graph, call, options, fault plan
// and schedule. It is what a replay file holds.
type Scenario struct {
	ID      int           `json:"id"`
	Nodes   []vh.NodeSpec `json:"nodes"` // index 0 unused
	Salt    string        `json:"salt"`
	API     string        `json:"api"`   // copygraph | copy | extcopygraph | extcopy
	Root    int           `json:"root"`  // root (copy) or start node (extended copy)
	Dst0    []int         `json:"dst0"`  // link-closed initial destination
	C       int           `json:"c"`     // Concurrency
	Depth   int           `json:"depth"` // extended copy depth
	DstRef  string        `json:"dstref"`
	RefDst  bool          `json:"refdst"`  // destination is a ReferencePusher
	MapRoot int           `json:"maproot"` // 0: none, else node the root is mapped to
	Faults  []Fault       `json:"faults"`
	Cancel  int           `json:"cancel"`  // cancel the context at this gate step (0: never, -1: before the call)
	CMode   string        `json:"cmode"`   // "" / "before": before releasing the step's operation; "after": after its effect
	SrcKind string        `json:"srckind"` // memory (default) | oci | file | filecas (file store with ForceCAS) | remote (Referrers API) | remotetag (referrers tag schema)
	DstKind string        `json:"dstkind"` // memory (default) | oci | file | remote
	CbErr   []Fault       `json:"cberr"`   // callback errors: op in pre post skipped
	Prefix  []int         `json:"prefix"`  // schedule: choice per step, then seeded random
	Seed    int64         `json:"seed"`
	Choices []int         `json:"choices,omitempty"` // filled after the run: the full schedule taken
	// extended copy with a filter (C03): "" | "at:<regex>" | "ann:<key>=<regex>" | "annkey:<key>"
	Filter string `json:"filter,omitempty"`
	// remote sources: Referrers API page limit of the registry (0: one page)
	RefPage int `json:"refpage,omitempty"`
	// remote destination: 0 no MountFrom; 1 MountFrom = [source repository]; 2 MountFrom = [a repository without the
	// blobs, source repository]; 3 MountFrom = [a repository without the blobs] (mounting fails, the node is copied)
	Mount int `json:"mount,omitempty"`
	// the order in which the source lists a node's predecessors: 0 as the store returns them, else a permutation drawn
	// from (PredOrder, node) - the order is unspecified, the outcome must not depend on it
	PredOrder int `json:"predorder,omitempty"`
	// remote sources: the client's ReferrerListPageSize (the registry's page limit RefPage is the server's own choice)
	RefN int `json:"refn,omitempty"`
	// file store destination: longer files lie at the blobs' names already (an earlier pull into the same directory)
	PreFiles bool `json:"prefiles,omitempty"`
}

var errCallback = errors.New("verif: callback error")

// Result of one execution, for the DFS odometer.
type Result struct {
	Choices, Alts []int
	Hang          bool
	Err           error
}

const srcRef = "srcref"

// RunOne executes the scenario against the real library and appends its trace.
func RunOne(t *testing.T, sc *Scenario, tr *vh.Tracer) Result {
	g, err := vh.Build(sc.Nodes, sc.Salt)
	if err != nil {
		t.Fatalf("scenario %d: %v", sc.ID, err)
	}
	var res Result
	tr.Begin(sc.ID)
	stuck := false
	defer func() {
		// a call stuck for ever makes the bubble "deadlock" when its root function returns
		if r := recover(); r != nil && !stuck {
			panic(r)
		}
	}()
	synctest.Test(t, func(t *testing.T) {
		bg := context.Background()
		var reg *regfake.Registry
		if strings.HasPrefix(sc.SrcKind, "remote") || sc.DstKind == "remote" {
			reg = regfake.New(regHost, regfake.Profile{Referrers: sc.SrcKind != "remotetag", DigestHdr: true, RefPageLimit: sc.RefPage, Mount: sc.Mount != 0})
		}
		src, err := newSrc(t, sc.SrcKind, reg)
		if err != nil {
			t.Fatal(err)
		}
		if rr, ok := src.(*remote.Repository); ok {
			rr.ReferrerListPageSize = sc.RefN
		}
		for k := 1; k <= g.N; k++ {
			if g.Nodes[k].Kind == "foreign" {
				continue // foreign layers are not in the source either
			}
			if err := src.Push(bg, g.Descs[k], bytes.NewReader(g.Blobs[k])); err != nil && !errors.Is(err, errdef.ErrAlreadyExists) {
				t.Fatalf("scenario %d: src push %d: %v", sc.ID, k, err)
			}
		}
		if sc.API == "copy" || sc.API == "extcopy" {
			if err := src.Tag(bg, g.Descs[sc.Root], srcRef); err != nil {
				t.Fatal(err)
			}
		}
		dstm, err := newDst(t, sc.DstKind, reg, g, sc.PreFiles)
		if err != nil {
			t.Fatal(err)
		}
		// a file store holds one file per name: a graph that gives one name to two different blobs may be refused
		sameName := 0
		if sc.DstKind == "file" {
			byTitle := map[string]string{}
			for k := 1; k <= g.N; k++ {
				for _, ed := range g.Nodes[k].Edges {
					if ed.Title == "" || g.Nodes[ed.To].Kind == "foreign" {
						continue
					}
					dg := g.Descs[ed.To].Digest.String()
					if prev, ok := byTitle[ed.Title]; ok && prev != dg {
						sameName = 1
					}
					byTitle[ed.Title] = dg
				}
			}
		}
		for _, k := range sc.Dst0 {
			if err := dstm.Push(bg, g.Descs[k], bytes.NewReader(g.Blobs[k])); err != nil && !errors.Is(err, errdef.ErrAlreadyExists) {
				t.Fatalf("scenario %d: dst0 push %d: %v", sc.ID, k, err)
			}
		}
		s := &vh.Sched{}
		e := &env{g: g, s: s, tr: tr, faults: append([]Fault(nil), sc.Faults...)}
		cberr := append([]Fault(nil), sc.CbErr...)
		sw0 := &srcW{e: e, und: src, order: sc.PredOrder}
		var sw oras.ReadOnlyGraphTarget = sw0
		if rl, ok := src.(registry.ReferrerLister); ok {
			sw = &srcRefW{srcW: sw0, rl: rl} // the source lists referrers itself (remote repository)
		}
		dw := &dstW{e: e, und: dstm}

		succ := make([][]int, g.N)
		all := make([][]int, g.N)
		kinds := make([]string, g.N)
		for k := 1; k <= g.N; k++ {
			succ[k-1], all[k-1], kinds[k-1] = g.SuccNF(k), g.SuccAll(k), g.Nodes[k].Kind
		}
		subj := make([]int, g.N)
		for k := 1; k <= g.N; k++ {
			for _, ed := range g.Nodes[k].Edges {
				if ed.Role == "subject" {
					subj[k-1] = ed.To
				}
			}
		}
		same := make([][]int, g.N) // nodes with identical bytes (a digest-keyed store cannot tell them apart)
		for k := 1; k <= g.N; k++ {
			same[k-1] = vh.Ints(append([]int(nil), g.ByDg[g.Descs[k].Digest.String()]...))
		}
		fl := [][]any{}
		for _, f := range sc.Faults {
			fl = append(fl, []any{f.Op, f.Node, f.Phase})
		}
		for _, f := range sc.CbErr {
			fl = append(fl, []any{f.Op, f.Node, "cb"})
		}
		tr.Emit(map[string]any{"e": "init", "n": g.N, "succ": succ, "all": all, "kinds": kinds, "same": same, "root": sc.Root,
			"dst0": dw.has(), "c": sc.C, "api": sc.API, "depth": sc.Depth, "dstref": sc.DstRef,
			"refdst": sc.RefDst, "maproot": sc.MapRoot, "faults": fl, "cancel": sc.Cancel, "cmode": sc.CMode,
			"srckind": kindOr(sc.SrcKind), "dstkind": kindOr(sc.DstKind),
			"filter": sc.Filter, "pass": filterPass(g, sc.Filter), "predsubj": strings.HasPrefix(sc.SrcKind, "remote"), "subj": subj, "mount": sc.Mount})

		cb := func(kind string) func(context.Context, ocispec.Descriptor) error {
			return func(_ context.Context, d ocispec.Descriptor) error {
				n := g.NodeOf(d)
				var err error
				e.mu.Lock()
				for i, f := range cberr {
					if f.Op == kind && f.Node == n {
						cberr = append(cberr[:i], cberr[i+1:]...)
						e.fired++
						err = errCallback
						break
					}
				}
				e.mu.Unlock()
				tr.Emit(map[string]any{"e": "cb", "k": kind, "n": n, "err": err != nil})
				return err
			}
		}
		gopts := oras.CopyGraphOptions{Concurrency: sc.C, PreCopy: cb("pre"), PostCopy: cb("post"), OnCopySkipped: cb("skipped")}
		if sc.Mount != 0 {
			gopts.OnMounted = cb("mounted")
			gopts.MountFrom = func(context.Context, ocispec.Descriptor) ([]string, error) {
				return [][]string{nil, {srcRepo}, {"team/none", srcRepo}, {"team/none"}, {"team/none", "team/other", "team/none"},
					{"team/none", srcRepo, "team/none"}}[sc.Mount], nil
			}
		}

		call := func(ctx context.Context) (int, error) {
			var dst oras.Target = dw
			if sc.RefDst {
				dst = &dstRefW{dw}
			} else if m, ok := dstm.(registry.Mounter); ok && sc.Mount != 0 {
				dst = &dstMountW{dstW: dw, m: m}
			}
			switch sc.API {
			case "copygraph":
				return sc.Root, oras.CopyGraph(ctx, sw, dst, g.Descs[sc.Root], gopts)
			case "copy":
				o := oras.CopyOptions{CopyGraphOptions: gopts}
				if sc.MapRoot != 0 {
					o.MapRoot = func(ctx context.Context, _ content.ReadOnlyStorage, root ocispec.Descriptor) (ocispec.Descriptor, error) {
						tr.Emit(map[string]any{"e": "maproot", "n": g.NodeOf(root), "to": sc.MapRoot})
						return g.Descs[sc.MapRoot], nil
					}
				}
				d, err := oras.Copy(ctx, sw, srcRef, dst, sc.DstRef, o)
				return g.NodeOf(d), err
			case "extcopygraph":
				o := oras.ExtendedCopyGraphOptions{CopyGraphOptions: gopts, Depth: sc.Depth}
				applyFilter(&o, sc.Filter)
				return sc.Root, oras.ExtendedCopyGraph(ctx, sw, dst, g.Descs[sc.Root], o)
			case "extcopy":
				o := oras.ExtendedCopyOptions{ExtendedCopyGraphOptions: oras.ExtendedCopyGraphOptions{CopyGraphOptions: gopts, Depth: sc.Depth}}
				applyFilter(&o.ExtendedCopyGraphOptions, sc.Filter)
				d, err := oras.ExtendedCopy(ctx, sw, srcRef, dst, sc.DstRef, o)
				return g.NodeOf(d), err
			}
			panic("unknown api " + sc.API)
		}

		ctx, cancel := context.WithCancel(bg)
		defer cancel()
		done := make(chan struct{})
		var rootN int
		var callErr error
		go func() {
			defer close(done)
			rootN, callErr = call(ctx)
		}()
		rng := rand.New(rand.NewSource(sc.Seed))
		cancelled := false
		precancel := 0
		if sc.Cancel == -1 {
			cancelled = true
			precancel = 1
			tr.Emit(map[string]any{"e": "cancel"})
			cancel()
		}
		hang := s.Run(done, func(step int, pend []*vh.Op) int {
			if i := len(s.Choices); i < len(sc.Prefix) {
				return sc.Prefix[i]
			}
			if sc.Seed == 0 {
				return 0
			}
			return rng.Intn(len(pend))
		}, func(step int, pend []*vh.Op) bool {
			if sc.Cancel > 0 && step == sc.Cancel && !cancelled {
				cancelled = true
				if sc.CMode == "after" {
					e.mu.Lock()
					e.cancelAfter = func() {
						tr.Emit(map[string]any{"e": "cancel"})
						cancel()
					}
					e.mu.Unlock()
				} else {
					tr.Emit(map[string]any{"e": "cancel"})
					cancel()
				}
			}
			return false
		})
		res.Choices, res.Alts, res.Hang = s.Choices, s.Alts, hang
		if hang {
			tr.Emit(map[string]any{"e": "hang"})
			cancel()
			s.ReleaseAll()
			synctest.Wait()
			select {
			case <-done:
			default:
				// stuck for good (not even cancellation helps): the hang is recorded; the bubble cannot end cleanly
				stuck = true
				return
			}
		} else {
			e.mu.Lock()
			fired, soft := e.fired, e.soft
			e.mu.Unlock()
			res.Err = callErr
			tr.Emit(map[string]any{"e": "ret", "err": callErr != nil, "root": rootN, "fired": fired + precancel, "soft": soft + sameName, "cancelled": cancelled,
				"msg": errMsg(callErr), "cberr": errors.Is(callErr, errCallback)})
		}
		// retry without faults on the same destination when the call failed
		if hang || callErr != nil {
			s2 := &vh.Sched{}
			e.s = s2
			e.mu.Lock()
			e.faults, cberr = nil, nil
			e.mu.Unlock()
			tr.Emit(map[string]any{"e": "retryB"})
			done2 := make(chan struct{})
			var rerr error
			go func() {
				defer close(done2)
				_, rerr = call(bg)
			}()
			hang2 := s2.Run(done2, func(int, []*vh.Op) int { return 0 }, nil)
			if hang2 {
				tr.Emit(map[string]any{"e": "hang"})
				s2.ReleaseAll()
				synctest.Wait()
			}
			tr.Emit(map[string]any{"e": "retry", "err": rerr != nil || hang2, "msg": errMsg(rerr), "mayfail": sameName == 1})
		}
		// post-mortem: read the underlying destination directly
		var bytesok []int
		for k := 1; k <= g.N; k++ {
			if b, err := content.FetchAll(bg, dstm, g.Descs[k]); err == nil && bytes.Equal(b, g.Blobs[k]) {
				bytesok = append(bytesok, k)
			}
		}
		ref := sc.DstRef
		if ref == "" {
			ref = srcRef
		}
		tagN := 0
		if d, err := dstm.Resolve(bg, ref); err == nil {
			tagN = g.NodeOf(d)
		}
		tr.Emit(map[string]any{"e": "final", "has": dw.has(), "bytesok": vh.Ints(bytesok), "tag": tagN, "dangling": dw.dangling()})
	})
	sc.Choices = res.Choices
	return res
}

func kindOr(k string) string {
	if k == "" {
		return "memory"
	}
	return k
}

type srcStore interface {
	content.Storage
	content.PredecessorFinder
	content.TagResolver
}

const (
	regHost = "reg.example"
	srcRepo = "team/src"
	dstRepo = "team/dst"
)

// remoteRepo is a real remote.Repository over the in-process registry.
func remoteRepo(reg *regfake.Registry, name string, referrers bool) (*remote.Repository, error) {
	r, err := remote.NewRepository(regHost + "/" + name)
	if err != nil {
		return nil, err
	}
	r.PlainHTTP, r.Client = true, &http.Client{Transport: reg}
	r.SetReferrersCapability(referrers)
	return r, nil
}

func newSrc(t *testing.T, kind string, reg *regfake.Registry) (srcStore, error) {
	switch kind {
	case "oci":
		return oci.New(t.TempDir())
	case "file", "filecas":
		fs, err := file.New(t.TempDir())
		if err != nil {
			return nil, err
		}
		fs.ForceCAS = kind == "filecas"
		t.Cleanup(func() { fs.Close() })
		return fs, nil
	case "remote", "remotetag":
		// content is pushed through the client (so that, without the Referrers API, it builds the referrers-tag
		// indexes itself)
		return remoteRepo(reg, srcRepo, kind == "remote")
	}
	return memory.New(), nil
}

// parseFilter splits a Scenario.Filter.
func parseFilter(f string) (mode, key string, re *regexp.Regexp) {
	switch {
	case strings.HasPrefix(f, "at:"):
		return "at", "", regexp.MustCompile(f[3:])
	case strings.HasPrefix(f, "annkey:"):
		return "ann", f[7:], nil
	case strings.HasPrefix(f, "ann:"):
		kv := strings.SplitN(f[4:], "=", 2)
		return "ann", kv[0], regexp.MustCompile(kv[1])
	}
	return "", "", nil
}

func applyFilter(o *oras.ExtendedCopyGraphOptions, f string) {
	switch mode, key, re := parseFilter(f); mode {
	case "at":
		o.FilterArtifactType(re)
	case "ann":
		o.FilterAnnotation(key, re)
	}
}

// filterPass says, for every node, whether it satisfies the filter as the property words it: the manifest's artifact
// type is its artifactType, else its config media type; the annotation is the manifest's own. Only the regular
// expression match itself is delegated to Go's regexp.
func filterPass(g *vh.Graph, f string) []bool {
	mode, key, re := parseFilter(f)
	out := make([]bool, g.N)
	for k := 1; k <= g.N; k++ {
		ns := g.Nodes[k]
		switch mode {
		case "":
			out[k-1] = true
		case "at":
			at := ""
			switch ns.Kind {
			case "manifest":
				at = ns.Art
				if at == "" {
					for _, e := range ns.Edges {
						if e.Role == "config" {
							at = g.Descs[e.To].MediaType
						}
					}
				}
			case "index", "artifact":
				at = ns.Art
			}
			out[k-1] = vh.IsManifestKind(ns.Kind) && re.MatchString(at)
		case "ann":
			v, ok := ns.Ann[key]
			out[k-1] = vh.IsManifestKind(ns.Kind) && ok && (re == nil || re.MatchString(v))
		}
	}
	return out
}

type dstStore interface {
	content.Storage
	content.TagResolver
}

func newDst(t *testing.T, kind string, reg *regfake.Registry, g *vh.Graph, preFiles bool) (dstStore, error) {
	switch kind {
	case "remote":
		return remoteRepo(reg, dstRepo, reg.Profile.Referrers)
	case "oci":
		return oci.New(t.TempDir())
	case "file":
		dir := t.TempDir()
		if preFiles {
			for k := 1; k <= g.N; k++ {
				for _, ed := range g.Nodes[k].Edges {
					if ed.Title != "" && !filepath.IsAbs(ed.Title) && !strings.Contains(ed.Title, "..") {
						p := filepath.Join(dir, ed.Title)
						os.MkdirAll(filepath.Dir(p), 0o755)
						os.WriteFile(p, bytes.Repeat([]byte("z"), len(g.Blobs[ed.To])+64), 0o644)
					}
				}
			}
		}
		return file.New(dir)
	}
	return memory.New(), nil
}

func b2i(b bool) int {
	if b {
		return 1
	}
	return 0
}

func errMsg(err error) string {
	if err == nil {
		return ""
	}
	m := err.Error()
	if len(m) > 120 {
		m = m[:120]
	}
	return fmt.Sprintf("%T: %s", err, m)
}
