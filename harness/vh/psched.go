package vh

import (
	"bytes"
	"runtime"
	"sort"
	"strconv"
	"sync"
	"time"
)

// PSched schedules registered goroutines that park at named points inside the
// library (the `verif`-tagged scheduling points), one release at a time.
// Unlike Sched it does not rely on synctest: a goroutine that is released and
// then blocks on a mutex held by a parked goroutine is simply seen as "still
// running" after a quiet period, and another parked goroutine is released.
// The schedule (Choices among the sorted parked points) is recorded and can be
// given back as a prefix; control is best-effort, the judgement of a round never
// depends on it.
type PSched struct {
	Quiet time.Duration // no park/finish for this long = the running goroutines are blocked
	Stuck time.Duration // nothing parked and nothing finishing for this long = hang

	mu       sync.Mutex
	ids      map[int64]int
	pending  []*POp
	active   int
	finished int
	total    int
	epoch    int64
	off      bool
	Choices  []int
	Alts     []int
}

type POp struct {
	Name string
	Idx  int
	ch   chan struct{}
}

func goid() int64 {
	var buf [64]byte
	b := buf[:runtime.Stack(buf[:], false)]
	b = bytes.TrimPrefix(b, []byte("goroutine "))
	if i := bytes.IndexByte(b, ' '); i > 0 {
		n, _ := strconv.ParseInt(string(b[:i]), 10, 64)
		return n
	}
	return -1
}

// Go starts f as operation idx; it parks at the point "start" first.
func (s *PSched) Go(idx int, f func()) {
	s.mu.Lock()
	if s.ids == nil {
		s.ids = map[int64]int{}
	}
	s.total++
	s.active++
	s.mu.Unlock()
	go func() {
		id := goid()
		s.mu.Lock()
		s.ids[id] = idx
		s.mu.Unlock()
		s.Point("start")
		f()
		s.mu.Lock()
		delete(s.ids, id)
		s.active--
		s.finished++
		s.epoch++
		s.mu.Unlock()
	}()
}

// Point is the handler of the library's scheduling points.
func (s *PSched) Point(name string) {
	s.mu.Lock()
	idx, ok := s.ids[goid()]
	if !ok || s.off {
		s.mu.Unlock()
		return
	}
	o := &POp{Name: name, Idx: idx, ch: make(chan struct{})}
	s.pending = append(s.pending, o)
	s.active--
	s.epoch++
	s.mu.Unlock()
	<-o.ch
}

// settle waits until no registered goroutine is running, or the running ones made no progress for Quiet.
func (s *PSched) settle() {
	last, since := int64(-1), time.Now()
	for {
		s.mu.Lock()
		a, e := s.active, s.epoch
		s.mu.Unlock()
		if a == 0 {
			return
		}
		if e != last {
			last, since = e, time.Now()
		} else if time.Since(since) >= s.Quiet {
			return
		}
		runtime.Gosched()
		time.Sleep(20 * time.Microsecond)
	}
}

// Run drives the operations until all have finished; true = they hung.
func (s *PSched) Run(choose func(step int, pend []*POp) int) (hang bool) {
	if s.Quiet == 0 {
		s.Quiet = 500 * time.Microsecond
	}
	if s.Stuck == 0 {
		s.Stuck = 5 * time.Second
	}
	var idle time.Time
	waits := 0
	for step := 0; ; {
		s.settle()
		s.mu.Lock()
		if s.finished == s.total {
			s.mu.Unlock()
			return false
		}
		pend := append([]*POp(nil), s.pending...)
		s.mu.Unlock()
		if len(pend) == 0 {
			// running goroutines only: blocked for good, or just slow
			if idle.IsZero() {
				idle = time.Now()
			} else if time.Since(idle) > s.Stuck {
				return true
			}
			time.Sleep(200 * time.Microsecond)
			continue
		}
		idle = time.Time{}
		sort.SliceStable(pend, func(i, j int) bool {
			if pend[i].Idx != pend[j].Idx {
				return pend[i].Idx < pend[j].Idx
			}
			return pend[i].Name < pend[j].Name
		})
		c := choose(step, pend)
		if c == -1 && waits < 400 {
			// "not yet": the policy waits for a running operation to reach its next point (bounded: 400 x 250us)
			waits++
			time.Sleep(250 * time.Microsecond)
			continue
		}
		waits = 0
		if c < 0 || c >= len(pend) {
			c = 0
		}
		s.Choices = append(s.Choices, c)
		s.Alts = append(s.Alts, len(pend))
		step++
		o := pend[c]
		s.mu.Lock()
		for i, p := range s.pending {
			if p == o {
				s.pending = append(s.pending[:i], s.pending[i+1:]...)
				break
			}
		}
		s.active++
		s.mu.Unlock()
		close(o.ch)
	}
}

// Running is the number of registered goroutines that are neither parked nor finished (running, or blocked on
// something the scheduler does not see).
func (s *PSched) Running() int {
	s.mu.Lock()
	defer s.mu.Unlock()
	return s.active
}

// ReleaseAll lets everything run freely from now on.
func (s *PSched) ReleaseAll() {
	s.mu.Lock()
	s.off = true
	p := s.pending
	s.pending = nil
	s.active += len(p)
	s.mu.Unlock()
	for _, o := range p {
		close(o.ch)
	}
}
