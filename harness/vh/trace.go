// Package vh holds the pieces shared by every conformance driver: the ndjson
// trace writer, the gate scheduler that serialises the real code's storage
// operations under testing/synctest, and the DAG generator.
package vh

import (
	"bufio"
	"encoding/json"
	"os"
	"strconv"
	"sync"
)

// Tracer writes one JSON object per line. The sequence number is taken under
// the tracer's own mutex, never from a clock.
type Tracer struct {
	mu  sync.Mutex
	f   *os.File
	w   *bufio.Writer
	enc *json.Encoder
	tid int
	seq int
	n   int
	// a child tracer (With) writes through its parent and adds one field to every event
	parent *Tracer
	key    string
	val    any
	// Sync flushes after every event (used when the run is expected to crash the process)
	Sync bool
}

// With returns a tracer that writes through t, adding the field key=val to every event.
func (t *Tracer) With(key string, val any) *Tracer { return &Tracer{parent: t, key: key, val: val} }

func NewTracer(path string) (*Tracer, error) {
	f, err := os.Create(path)
	if err != nil {
		return nil, err
	}
	w := bufio.NewWriterSize(f, 1<<20)
	return &Tracer{f: f, w: w, enc: json.NewEncoder(w)}, nil
}

// Begin starts trace number tid; sequence numbers restart at 1.
func (t *Tracer) Begin(tid int) {
	t.mu.Lock()
	t.tid, t.seq = tid, 0
	t.mu.Unlock()
}

// Emit appends one event. "t" and "i" are added here.
func (t *Tracer) Emit(m map[string]any) {
	if t.parent != nil {
		m[t.key] = t.val
		t.parent.Emit(m)
		return
	}
	t.mu.Lock()
	defer t.mu.Unlock()
	t.seq++
	t.n++
	m["t"] = t.tid
	m["i"] = t.seq
	if err := t.enc.Encode(m); err != nil {
		panic(err)
	}
	if t.Sync {
		t.w.Flush()
	}
}

// Rotating trace output: a directory of files of bounded size, rotated only
// between traces so that every file holds whole traces.
type Rot struct {
	Dir   string
	Max   int
	idx   int
	cur   *Tracer
	Total int
	Files []string
	Sync  bool
}

// Next returns the tracer to use for the next trace.
func (r *Rot) Next() *Tracer {
	if r.cur != nil && r.cur.Count() >= r.Max {
		r.Total += r.cur.Count()
		if err := r.cur.Close(); err != nil {
			panic(err)
		}
		r.cur = nil
	}
	if r.cur == nil {
		p := r.Dir + "/trace-" + strconv.Itoa(1000 + r.idx)[1:] + ".ndjson"
		r.idx++
		t, err := NewTracer(p)
		if err != nil {
			panic(err)
		}
		t.Sync = r.Sync
		r.cur = t
		r.Files = append(r.Files, p)
	}
	return r.cur
}

func (r *Rot) Close() {
	if r.cur != nil {
		r.Total += r.cur.Count()
		if err := r.cur.Close(); err != nil {
			panic(err)
		}
		r.cur = nil
	}
}

func (t *Tracer) Count() int { t.mu.Lock(); defer t.mu.Unlock(); return t.n }

func (t *Tracer) Close() error {
	t.mu.Lock()
	defer t.mu.Unlock()
	if err := t.w.Flush(); err != nil {
		return err
	}
	return t.f.Close()
}

// EnvInt reads an integer environment variable.
func EnvInt(name string, def int) int {
	if v := os.Getenv(name); v != "" {
		if n, err := strconv.Atoi(v); err == nil {
			return n
		}
	}
	return def
}

func EnvStr(name, def string) string {
	if v := os.Getenv(name); v != "" {
		return v
	}
	return def
}

// Ints returns a non-nil slice (so that JSON has [] and never null).
func Ints(s []int) []int {
	if s == nil {
		return []int{}
	}
	return s
}

// Chars splits a string into one-character strings so that a TLA+
// specification can index it.
func Chars(s string) []string {
	out := make([]string, 0, len(s))
	for _, r := range s {
		out = append(out, string(r))
	}
	return out
}
