package vh

import (
	"oras.land/oras-go/v2/content/memory"
	"testing"
	"testing/synctest"
)

func TestSmoke(t *testing.T) { synctest.Test(t, func(t *testing.T) { _ = memory.New() }) }
