package vh
import ("testing";"testing/synctest";"oras.land/oras-go/v2/content/memory")
func TestSmoke(t *testing.T){ synctest.Test(t, func(t *testing.T){ _ = memory.New() }) }
