package vh

import (
	"sort"
	"sync"
	"testing/synctest"
	"time"
)

// Op is one storage operation or callback of the code under test, parked at
// its gate.
type Op struct {
	Name string
	Node int
	Seq  int
	ch   chan struct{}
}

// Sched is the gate scheduler. Every wrapped operation calls Gate before it
// touches the underlying object; the driver goroutine releases one parked
// operation at a time, after synctest.Wait reported that every other goroutine
// of the bubble is durably blocked. Hence exactly one operation runs at any
// time and the recorded post-states are exact.
type Sched struct {
	mu       sync.Mutex
	pending  []*Op
	arrivals int
	// Choices and Alts record, per step, the index chosen and the number of
	// alternatives that were pending (for the DFS odometer and for replay).
	Choices []int
	Alts    []int
	Off     bool // when set, Gate returns at once (un-gated runs)
	// IdleMax > 0: when nothing is parked and the call has not returned, sleep IdleSleep of (virtual) time up to IdleMax
	// times in a row before declaring a hang, so that goroutines waiting on a timer or a deadline get to run
	IdleSleep time.Duration
	IdleMax   int
	idle      int
}

func (s *Sched) Gate(name string, node int) {
	if s == nil || s.Off {
		return
	}
	o := &Op{Name: name, Node: node, ch: make(chan struct{})}
	s.mu.Lock()
	s.arrivals++
	o.Seq = s.arrivals
	s.pending = append(s.pending, o)
	s.mu.Unlock()
	<-o.ch
}

// Pending returns the parked operations in canonical order.
func (s *Sched) Pending() []*Op {
	s.mu.Lock()
	defer s.mu.Unlock()
	p := append([]*Op(nil), s.pending...)
	sort.Slice(p, func(i, j int) bool {
		if p[i].Name != p[j].Name {
			return p[i].Name < p[j].Name
		}
		if p[i].Node != p[j].Node {
			return p[i].Node < p[j].Node
		}
		return p[i].Seq < p[j].Seq
	})
	return p
}

func (s *Sched) release(o *Op) {
	s.mu.Lock()
	for i, p := range s.pending {
		if p == o {
			s.pending = append(s.pending[:i], s.pending[i+1:]...)
			break
		}
	}
	s.mu.Unlock()
	close(o.ch)
}

// Run drives the bubble until done is closed. choose picks the index of the
// operation to release among the canonical pending list; it is called with the
// step number (1-based). before is called at every step before choosing and
// may, e.g., cancel a context; if it returns true the step is consumed without
// releasing anything (the pending set is re-read after the next Wait).
// Run returns true when the call under test hangs: nothing is parked and done
// is not closed.
func (s *Sched) Run(done <-chan struct{}, choose func(step int, pend []*Op) int, before func(step int, pend []*Op) bool) (hang bool) {
	step := 0
	for {
		synctest.Wait()
		select {
		case <-done:
			return false
		default:
		}
		pend := s.Pending()
		if len(pend) == 0 {
			if s.idle < s.IdleMax {
				// nothing is parked, but a goroutine may be waiting for (virtual) time: let it pass
				s.idle++
				time.Sleep(s.IdleSleep)
				continue
			}
			return true
		}
		s.idle = 0
		step++
		if before != nil && before(step, pend) {
			continue
		}
		k := choose(step, pend)
		if k < 0 || k >= len(pend) {
			k = 0
		}
		s.Choices = append(s.Choices, k)
		s.Alts = append(s.Alts, len(pend))
		s.release(pend[k])
	}
}

// ReleaseAll lets every parked operation go (used to unwind after a hang).
func (s *Sched) ReleaseAll() {
	s.mu.Lock()
	s.Off = true
	p := s.pending
	s.pending = nil
	s.mu.Unlock()
	for _, o := range p {
		close(o.ch)
	}
}

// NextPrefix advances a DFS odometer: given the choices and alternative counts
// of the last execution, it returns the choice prefix of the next unexplored
// execution, or nil when the space is exhausted.
func NextPrefix(choices, alts []int) []int {
	for i := len(choices) - 1; i >= 0; i-- {
		if choices[i]+1 < alts[i] {
			p := append([]int(nil), choices[:i]...)
			return append(p, choices[i]+1)
		}
	}
	return nil
}
