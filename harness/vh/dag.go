package vh

import (
	_ "crypto/sha256" // registers the hash with go-digest
	_ "crypto/sha512"
	"encoding/json"
	"fmt"
	"math/rand"

	"github.com/opencontainers/go-digest"
	"github.com/opencontainers/image-spec/specs-go"
	ocispec "github.com/opencontainers/image-spec/specs-go/v1"
)

// Media types of the node kinds the generator can build.
const (
	MTLayer     = "application/vnd.oci.image.layer.v1.tar"
	MTConfig    = "application/vnd.oci.image.config.v1+json"
	MTForeign   = "application/vnd.oci.image.layer.nondistributable.v1.tar"
	MTDManifest = "application/vnd.docker.distribution.manifest.v2+json"
	MTDList     = "application/vnd.docker.distribution.manifest.list.v2+json"
	MTArtifact  = "application/vnd.oci.artifact.manifest.v1+json"
	MTCustom    = "application/vnd.verif.manifest.v1+json" // kind cmanifest: an image manifest under a media type of the user's own
)

// Edge is one link of the ground-truth graph. Role is one of subject, config,
// layer, blob, manifest.
type Edge struct {
	Role  string `json:"role"`
	To    int    `json:"to"`
	Title string `json:"title,omitempty"` // org.opencontainers.image.title on the descriptor in the manifest
	URLs  bool   `json:"urls,omitempty"`  // the descriptor in the manifest carries the optional urls field (a mirror)
}

// NodeSpec describes one node. Kind is blob, foreign, manifest, dmanifest,
// index, dlist or artifact. Edges only point to lower node numbers.
type NodeSpec struct {
	Kind  string            `json:"kind"`
	Edges []Edge            `json:"edges"`
	Art   string            `json:"art,omitempty"` // artifactType
	Ann   map[string]string `json:"ann,omitempty"` // manifest annotations
	Empty bool              `json:"empty,omitempty"`
	Alias int               `json:"alias,omitempty"` // same bytes as node Alias, other media type
}

// Graph is a realised DAG: real bytes and real descriptors. Index 0 is unused.
type Graph struct {
	N     int
	Nodes []NodeSpec
	Descs []ocispec.Descriptor
	Blobs [][]byte
	ID    map[string]int // "mediatype|digest" -> node
	ByDg  map[string][]int
}

func IsManifestKind(k string) bool {
	switch k {
	case "manifest", "dmanifest", "cmanifest", "index", "dlist", "artifact":
		return true
	}
	return false
}

func key(d ocispec.Descriptor) string { return d.MediaType + "|" + d.Digest.String() }

// NodeOf maps a descriptor of the code under test back to a node number
// (0 when unknown).
func (g *Graph) NodeOf(d ocispec.Descriptor) int {
	if n, ok := g.ID[key(d)]; ok {
		return n
	}
	if ns := g.ByDg[d.Digest.String()]; len(ns) > 0 {
		return ns[0]
	}
	return 0
}

// EdgeDescs returns the successor descriptors of n exactly as its manifest
// lists them (annotations included).
func (g *Graph) EdgeDescs(n int) []ocispec.Descriptor {
	var out []ocispec.Descriptor
	for _, e := range g.Nodes[n].Edges {
		d := g.Descs[e.To]
		if e.Title != "" {
			d.Annotations = map[string]string{ocispec.AnnotationTitle: e.Title}
		}
		if e.URLs {
			d.URLs = []string{"https://mirror.example/" + d.Digest.Encoded()}
		}
		out = append(out, d)
	}
	return out
}

// SuccNF returns the distinct non-foreign successor targets of n.
func (g *Graph) SuccNF(n int) []int {
	seen := map[int]bool{}
	var out []int
	for _, e := range g.Nodes[n].Edges {
		if g.Nodes[e.To].Kind == "foreign" || seen[e.To] {
			continue
		}
		seen[e.To] = true
		out = append(out, e.To)
	}
	return Ints(out)
}

// SuccAll returns the distinct successor targets of n, foreign ones included.
func (g *Graph) SuccAll(n int) []int {
	seen := map[int]bool{}
	var out []int
	for _, e := range g.Nodes[n].Edges {
		if seen[e.To] {
			continue
		}
		seen[e.To] = true
		out = append(out, e.To)
	}
	return Ints(out)
}

// ReachNF is the set of nodes reachable from n through non-foreign links.
func (g *Graph) ReachNF(n int) map[int]bool {
	seen := map[int]bool{}
	var dfs func(int)
	dfs = func(k int) {
		if seen[k] {
			return
		}
		seen[k] = true
		for _, m := range g.SuccNF(k) {
			dfs(m)
		}
	}
	dfs(n)
	return seen
}

// Build realises the node specifications bottom-up. salt makes the bytes of
// different scenarios differ.
func Build(nodes []NodeSpec, salt string) (*Graph, error) { return BuildWith(nodes, salt, nil) }

// BuildWith is Build with the bytes of non-manifest nodes given by blobs (when blobs[k] is not nil).
func BuildWith(nodes []NodeSpec, salt string, blobs [][]byte) (*Graph, error) {
	n := len(nodes) - 1
	g := &Graph{N: n, Nodes: nodes, Descs: make([]ocispec.Descriptor, n+1), Blobs: make([][]byte, n+1),
		ID: map[string]int{}, ByDg: map[string][]int{}}
	for k := 1; k <= n; k++ {
		ns := nodes[k]
		var b []byte
		var mt string
		role := func(r string) []ocispec.Descriptor {
			var out []ocispec.Descriptor
			for _, e := range ns.Edges {
				if e.To >= k || e.To < 1 {
					panic("edge must point to a lower node")
				}
				if e.Role == r {
					d := g.Descs[e.To]
					if e.Title != "" {
						d.Annotations = map[string]string{ocispec.AnnotationTitle: e.Title}
					}
					if e.URLs {
						d.URLs = []string{"https://mirror.example/" + d.Digest.Encoded()}
					}
					out = append(out, d)
				}
			}
			return out
		}
		subject := func() *ocispec.Descriptor {
			s := role("subject")
			if len(s) == 0 {
				return nil
			}
			return &s[0]
		}
		ann := ns.Ann
		var err error
		switch ns.Kind {
		case "blob", "foreign", "config":
			mt = MTLayer
			if ns.Kind == "foreign" {
				mt = MTForeign
			}
			if ns.Kind == "config" {
				mt = MTConfig
			}
			if ns.Alias > 0 {
				b = g.Blobs[ns.Alias]
				mt = "application/vnd.verif.alias"
			} else if blobs != nil && k < len(blobs) && blobs[k] != nil && !ns.Empty {
				b = blobs[k]
			} else if !ns.Empty {
				b = []byte(fmt.Sprintf("blob-%s-%d", salt, k))
			} else {
				b = []byte{}
			}
		case "manifest", "dmanifest", "cmanifest":
			mt = ocispec.MediaTypeImageManifest
			if ns.Kind == "dmanifest" {
				mt = MTDManifest
			}
			if ns.Kind == "cmanifest" {
				mt = MTCustom
			}
			cfg := role("config")
			if len(cfg) != 1 {
				return nil, fmt.Errorf("node %d: image manifest needs exactly one config", k)
			}
			m := ocispec.Manifest{Versioned: specs.Versioned{SchemaVersion: 2}, MediaType: mt, Config: cfg[0],
				Layers: role("layer"), Annotations: withSalt(ann, salt, k)}
			if m.Layers == nil {
				m.Layers = []ocispec.Descriptor{}
			}
			if ns.Kind == "manifest" {
				m.Subject = subject()
				m.ArtifactType = ns.Art
			}
			b, err = json.Marshal(m)
		case "index", "dlist":
			mt = ocispec.MediaTypeImageIndex
			if ns.Kind == "dlist" {
				mt = MTDList
			}
			ix := ocispec.Index{Versioned: specs.Versioned{SchemaVersion: 2}, MediaType: mt,
				Manifests: role("manifest"), Annotations: withSalt(ann, salt, k)}
			if ix.Manifests == nil {
				ix.Manifests = []ocispec.Descriptor{}
			}
			if ns.Kind == "index" {
				ix.Subject = subject()
				ix.ArtifactType = ns.Art
			}
			b, err = json.Marshal(ix)
		case "artifact":
			mt = MTArtifact
			a := struct {
				MediaType    string               `json:"mediaType"`
				ArtifactType string               `json:"artifactType"`
				Blobs        []ocispec.Descriptor `json:"blobs,omitempty"`
				Subject      *ocispec.Descriptor  `json:"subject,omitempty"`
				Annotations  map[string]string    `json:"annotations,omitempty"`
			}{mt, ns.Art, role("blob"), subject(), withSalt(ann, salt, k)}
			b, err = json.Marshal(a)
		default:
			return nil, fmt.Errorf("node %d: unknown kind %q", k, ns.Kind)
		}
		if err != nil {
			return nil, err
		}
		g.Blobs[k] = b
		g.Descs[k] = ocispec.Descriptor{MediaType: mt, Digest: digest.FromBytes(b), Size: int64(len(b))}
		g.ID[key(g.Descs[k])] = k
		g.ByDg[g.Descs[k].Digest.String()] = append(g.ByDg[g.Descs[k].Digest.String()], k)
	}
	return g, nil
}

func withSalt(a map[string]string, salt string, k int) map[string]string {
	out := map[string]string{"verif.salt": fmt.Sprintf("%s-%d", salt, k)}
	for x, y := range a {
		out[x] = y
	}
	return out
}

// ShapeOpts steers RandomShape / ShapeFromSucc.
type ShapeOpts struct {
	Foreign  bool // allow foreign layers
	Dup      bool // allow a blob listed twice
	Subjects bool // allow subject links
	Docker   bool // allow docker media types
	Artifact bool // allow artifact manifests
	Empty    bool // allow empty blobs
	Alias    bool // allow the same bytes under two media types
	Titles   bool // give layer/blob descriptors a title annotation (file store names)
	URLs     bool // give some layer/blob descriptors of ordinary media types the optional urls field
}

// ShapeFromSucc turns an abstract successor relation (succ[k] ⊆ 1..k-1) into
// node specifications. Kinds and roles are chosen with rng among those that
// make content.Successors return exactly the given targets.
func ShapeFromSucc(succ [][]int, rng *rand.Rand, o ShapeOpts) []NodeSpec {
	n := len(succ) - 1
	nodes := make([]NodeSpec, n+1)
	emptyUsed := false
	for k := 1; k <= n; k++ {
		ts := succ[k]
		if len(ts) == 0 {
			nodes[k] = NodeSpec{Kind: "blob", Edges: []Edge{}}
			if o.Empty && !emptyUsed && rng.Intn(8) == 0 {
				nodes[k].Empty = true
				emptyUsed = true // two empty blobs would be one node
			}
			continue
		}
		var mans, blobs []int
		for _, t := range ts {
			if IsManifestKind(nodes[t].Kind) {
				mans = append(mans, t)
			} else {
				blobs = append(blobs, t)
			}
		}
		ns := NodeSpec{Edges: []Edge{}}
		pick := rng.Intn(100)
		switch {
		case len(mans) == 0:
			// only blobs below: image manifest, docker manifest, artifact or index
			switch {
			case o.Artifact && pick < 15:
				ns.Kind = "artifact"
				ns.Art = "application/vnd.verif.art"
				for _, t := range blobs {
					ns.Edges = append(ns.Edges, Edge{Role: "blob", To: t})
				}
			case o.Docker && pick < 30:
				ns.Kind = "dmanifest"
				ns.Edges = append(ns.Edges, Edge{Role: "config", To: blobs[0]})
				for _, t := range blobs[1:] {
					ns.Edges = append(ns.Edges, Edge{Role: "layer", To: t})
				}
			case pick < 40:
				ns.Kind = "index"
				for _, t := range blobs {
					ns.Edges = append(ns.Edges, Edge{Role: "manifest", To: t})
				}
			default:
				ns.Kind = "manifest"
				ns.Edges = append(ns.Edges, Edge{Role: "config", To: blobs[0]})
				for _, t := range blobs[1:] {
					ns.Edges = append(ns.Edges, Edge{Role: "layer", To: t})
				}
			}
		case o.Subjects && len(mans) == 1 && len(blobs) >= 1 && pick < 50:
			// a referrer: image manifest with a subject
			ns.Kind = "manifest"
			ns.Art = "application/vnd.verif.sig"
			ns.Edges = append(ns.Edges, Edge{Role: "subject", To: mans[0]}, Edge{Role: "config", To: blobs[0]})
			for _, t := range blobs[1:] {
				ns.Edges = append(ns.Edges, Edge{Role: "layer", To: t})
			}
		case o.Subjects && o.Artifact && len(mans) == 1 && pick < 60:
			ns.Kind = "artifact"
			ns.Art = "application/vnd.verif.sbom"
			ns.Edges = append(ns.Edges, Edge{Role: "subject", To: mans[0]})
			for _, t := range blobs {
				ns.Edges = append(ns.Edges, Edge{Role: "blob", To: t})
			}
		case o.Docker && pick >= 90:
			ns.Kind = "dlist"
			for _, t := range ts {
				ns.Edges = append(ns.Edges, Edge{Role: "manifest", To: t})
			}
		default:
			ns.Kind = "index"
			rest := ts
			if o.Subjects && len(mans) >= 1 && pick%2 == 0 {
				ns.Edges = append(ns.Edges, Edge{Role: "subject", To: mans[0]})
				rest = nil
				for _, t := range ts {
					if t != mans[0] {
						rest = append(rest, t)
					}
				}
			}
			for _, t := range rest {
				ns.Edges = append(ns.Edges, Edge{Role: "manifest", To: t})
			}
		}
		if o.Dup && rng.Intn(6) == 0 {
			// list one non-subject, non-config target twice
			for _, e := range ns.Edges {
				if e.Role == "layer" || e.Role == "blob" || e.Role == "manifest" {
					ns.Edges = append(ns.Edges, e)
					break
				}
			}
		}
		nodes[k] = ns
	}
	if o.Alias {
		// the same bytes under a second media type: a leaf becomes an alias of an earlier leaf
		for k := 2; k <= n; k++ {
			if nodes[k].Kind != "blob" || nodes[k].Empty || rng.Intn(4) != 0 {
				continue
			}
			for j := 1; j < k; j++ {
				taken := false
				for i := 1; i < k; i++ {
					if nodes[i].Alias == j {
						taken = true // one alias per blob: a second one would be the same descriptor
					}
				}
				if nodes[j].Kind == "blob" && !nodes[j].Empty && nodes[j].Alias == 0 && !taken {
					nodes[k].Alias = j
					break
				}
			}
		}
	}
	if o.URLs {
		for k := 1; k <= n; k++ {
			for i, e := range nodes[k].Edges {
				if (e.Role == "layer" || e.Role == "blob") && nodes[e.To].Kind == "blob" && rng.Intn(3) == 0 {
					nodes[k].Edges[i].URLs = true
				}
			}
		}
	}
	if o.Titles {
		for k := 1; k <= n; k++ {
			for i, e := range nodes[k].Edges {
				if (e.Role == "layer" || e.Role == "blob") && nodes[e.To].Kind == "blob" {
					nodes[k].Edges[i].Title = fmt.Sprintf("f%d-in-%d.txt", e.To, k)
				}
			}
		}
	}
	if o.Foreign {
		// turn some blobs that are only used as layers into foreign layers
		for k := 1; k <= n; k++ {
			if nodes[k].Kind != "blob" || nodes[k].Alias != 0 || rng.Intn(5) != 0 {
				continue
			}
			ok, used := true, false
			for j := k + 1; j <= n; j++ {
				if nodes[j].Alias == k {
					ok = false
				}
			}
			for p := k + 1; p <= n; p++ {
				for _, e := range nodes[p].Edges {
					if e.To == k {
						used = true
						if e.Role != "layer" {
							ok = false
						}
					}
				}
			}
			if ok && used {
				nodes[k].Kind = "foreign"
			}
		}
	}
	return nodes
}

// RandomSucc draws succ[k] ⊆ 1..k-1 with every node reachable from node n.
func RandomSucc(n int, rng *rand.Rand, density int) [][]int {
	for {
		succ := make([][]int, n+1)
		for k := 2; k <= n; k++ {
			for j := 1; j < k; j++ {
				if rng.Intn(100) < density {
					succ[k] = append(succ[k], j)
				}
			}
		}
		seen := map[int]bool{}
		var dfs func(int)
		dfs = func(k int) {
			if seen[k] {
				return
			}
			seen[k] = true
			for _, j := range succ[k] {
				dfs(j)
			}
		}
		dfs(n)
		if len(seen) == n {
			return succ
		}
	}
}

// AllSucc enumerates every successor relation on 1..n (edges high to low) in
// which every node is reachable from n.
func AllSucc(n int) [][][]int {
	var out [][][]int
	cur := make([][]int, n+1)
	var rec func(k int)
	rec = func(k int) {
		if k > n {
			seen := map[int]bool{}
			var dfs func(int)
			dfs = func(x int) {
				if seen[x] {
					return
				}
				seen[x] = true
				for _, j := range cur[x] {
					dfs(j)
				}
			}
			dfs(n)
			if len(seen) == n {
				cp := make([][]int, n+1)
				for i := range cur {
					cp[i] = append([]int(nil), cur[i]...)
				}
				out = append(out, cp)
			}
			return
		}
		for mask := 0; mask < 1<<(k-1); mask++ {
			cur[k] = nil
			for j := 1; j < k; j++ {
				if mask&(1<<(j-1)) != 0 {
					cur[k] = append(cur[k], j)
				}
			}
			rec(k + 1)
		}
	}
	rec(1)
	return out
}

// ClosedSubsets enumerates every subset of 1..n closed under SuccNF.
func (g *Graph) ClosedSubsets() [][]int {
	var out [][]int
	for mask := 0; mask < 1<<g.N; mask++ {
		ok := true
		for k := 1; k <= g.N && ok; k++ {
			if mask&(1<<(k-1)) == 0 {
				continue
			}
			if g.Nodes[k].Kind == "foreign" {
				ok = false
			}
			for _, m := range g.SuccNF(k) {
				if mask&(1<<(m-1)) == 0 {
					ok = false
				}
			}
		}
		if ok {
			var s []int
			for k := 1; k <= g.N; k++ {
				if mask&(1<<(k-1)) != 0 {
					s = append(s, k)
				}
			}
			out = append(out, Ints(s))
		}
	}
	return out
}
