// Package retryfam replays the case space of spec/RetryModel.tla into the real
// retry.Transport (and the auth client on top of it) under testing/synctest's
// virtual clock, so that every pause is measured exactly (C17).
package retryfam

import (
	"bytes"
	"context"
	"encoding/json"
	"errors"
	"fmt"
	"io"
	"net/http"
	"os"
	"strings"
	"sync"
	"testing"
	"testing/synctest"
	"time"

	"oras.land/oras-go/v2/registry/remote/auth"
	"oras.land/oras-go/v2/registry/remote/retry"
	"verif/harness/vh"
)

type Case struct {
	Script   []string `json:"script"`
	Body     string   `json:"body"`
	MaxRetry int      `json:"maxretry"`
	Cancel   int      `json:"cancel"`
}

type timeoutErr struct{}

func (timeoutErr) Error() string   { return "verif: dial timeout" }
func (timeoutErr) Timeout() bool   { return true }
func (timeoutErr) Temporary() bool { return true }

var errNet = errors.New("verif: connection reset")

// tempErr is another "other transport error": a net.Error that calls itself temporary but is not a timeout (a DNS
// SERVFAIL, EMFILE while dialling). Like errNet it is not retryable.
type tempErr struct{}

func (tempErr) Error() string   { return "verif: temporary failure in name resolution" }
func (tempErr) Timeout() bool   { return false }
func (tempErr) Temporary() bool { return true }

var payload = []byte("the-complete-original-request-body-0123456789")

const (
	minWait    = 100 * time.Millisecond
	maxWait    = 2 * time.Second
	retryAfter = 1 // seconds
)

type attemptRec struct {
	T       int64  `json:"t"`
	BodyLen int    `json:"bodylen"`
	BodyOK  bool   `json:"bodyok"`
	Dest    string `json:"dest"`
	Send    int    `json:"send"`
}

// server is the scripted innermost RoundTripper.
type server struct {
	mu       sync.Mutex
	script   []string
	temp     bool // "neterr" answers are tempErr instead of errNet
	nf       int  // which of nfStatuses an "nf" answer carries
	n        int
	t0       time.Time
	attempts []attemptRec
	onServe  func(n int)
}

// nfStatuses: what the non-retryable answer "nf" is on the wire - any client error that is neither 408 nor 429
var nfStatuses = []int{404, 400, 403, 409, 431, 451, 499, 410}

func isNF(code int) bool {
	for _, c := range nfStatuses {
		if c == code {
			return true
		}
	}
	return false
}

func status(s string) int {
	switch s {
	case "ok":
		return 200
	case "nf":
		return 404
	case "unauth":
		return 401
	case "rt":
		return 408
	case "tm", "tmra":
		return 429
	case "ise":
		return 500
	case "un":
		return 503
	}
	return 200
}

func (s *server) RoundTrip(req *http.Request) (*http.Response, error) {
	var body []byte
	if req.Body != nil {
		body, _ = io.ReadAll(req.Body)
		req.Body.Close()
	}
	s.mu.Lock()
	s.n++
	n := s.n
	ans := "ok"
	if n <= len(s.script) {
		ans = s.script[n-1]
	}
	s.attempts = append(s.attempts, attemptRec{T: time.Since(s.t0).Milliseconds(), BodyLen: len(body), BodyOK: bytes.Equal(body, payload), Dest: "registry"})
	s.mu.Unlock()
	if s.onServe != nil {
		s.onServe(n)
	}
	switch ans {
	case "timeout":
		return nil, timeoutErr{}
	case "neterr":
		if s.temp {
			return nil, tempErr{}
		}
		return nil, errNet
	}
	h := http.Header{}
	if ans == "tmra" {
		h.Set("Retry-After", fmt.Sprint(retryAfter))
	}
	code := status(ans)
	if ans == "nf" {
		code = nfStatuses[s.nf%len(nfStatuses)]
	}
	return &http.Response{StatusCode: code, Status: fmt.Sprint(code), Header: h, Body: io.NopCloser(strings.NewReader("")), Request: req}, nil
}

type oneShot struct{ r io.Reader }

func (o *oneShot) Read(p []byte) (int, error) { return o.r.Read(p) }
func (o *oneShot) Close() error               { return nil }

func newRequest(ctx context.Context, body string) *http.Request {
	var req *http.Request
	switch body {
	case "none":
		req, _ = http.NewRequestWithContext(ctx, http.MethodGet, "http://reg.example/v2/", nil)
	case "replay":
		req, _ = http.NewRequestWithContext(ctx, http.MethodPut, "http://reg.example/v2/r/manifests/x", bytes.NewReader(payload))
	case "replaystream":
		// a body of unknown length (ContentLength 0 with a non-nil Body) that can be produced again
		req, _ = http.NewRequestWithContext(ctx, http.MethodPut, "http://reg.example/v2/r/manifests/x", &oneShot{bytes.NewReader(payload)})
		req.ContentLength = 0
		req.GetBody = func() (io.ReadCloser, error) { return &oneShot{bytes.NewReader(payload)}, nil }
	case "oneshotstream":
		// a body of unknown length that cannot be produced again
		req, _ = http.NewRequestWithContext(ctx, http.MethodPut, "http://reg.example/v2/r/manifests/x", &oneShot{bytes.NewReader(payload)})
		req.ContentLength = 0
	default:
		req, _ = http.NewRequestWithContext(ctx, http.MethodPut, "http://reg.example/v2/r/manifests/x", &oneShot{bytes.NewReader(payload)})
		req.ContentLength = int64(len(payload))
	}
	return req
}

func outcome(resp *http.Response, err error) string {
	if err != nil {
		switch {
		case errors.Is(err, context.Canceled):
			return "ctx"
		case errors.As(err, new(timeoutErr)):
			return "timeout"
		case errors.Is(err, errNet), errors.As(err, new(tempErr)):
			return "neterr"
		}
		return "err:" + err.Error()
	}
	resp.Body.Close()
	if isNF(resp.StatusCode) {
		return "nf"
	}
	for _, a := range []string{"ok", "nf", "unauth", "rt", "tm", "ise", "un"} {
		if status(a) == resp.StatusCode {
			return a
		}
	}
	return fmt.Sprint(resp.StatusCode)
}

func TestDrive(t *testing.T) {
	out := os.Getenv("VH_OUT")
	if out == "" {
		t.Skip("VH_OUT not set")
	}
	raw, err := os.ReadFile(os.Getenv("VH_CASES"))
	if err != nil {
		t.Fatal(err)
	}
	var cases []Case
	if err := json.Unmarshal(raw, &cases); err != nil {
		t.Fatal(err)
	}
	rot := &vh.Rot{Dir: out, Max: vh.EnvInt("VH_ROT", 30000)}
	n := 0
	emit := func(m map[string]any) {
		n++
		tr := rot.Next()
		tr.Begin(n)
		tr.Emit(m)
	}
	policy := func(maxRetry int) func() retry.Policy {
		return func() retry.Policy {
			return &retry.GenericPolicy{Retryable: retry.DefaultPredicate, Backoff: retry.DefaultBackoff, MinWait: minWait, MaxWait: maxWait, MaxRetry: maxRetry}
		}
	}
	for ci, c := range cases {
		if c.Script == nil {
			c.Script = []string{}
		}
		synctest.Test(t, func(t *testing.T) {
			ctx, cancel := context.WithCancel(context.Background())
			defer cancel()
			srv := &server{script: c.Script, t0: time.Now(), temp: (len(c.Script)+c.MaxRetry+len(c.Body))%2 == 0, nf: ci}
			var cancelT int64 = -1
			cancelled := false
			if c.Cancel > 0 {
				srv.onServe = func(k int) {
					if k == c.Cancel {
						// cancel in the middle of the pause that follows this attempt
						time.AfterFunc(minWait/2, func() {
							cancelT = time.Since(srv.t0).Milliseconds()
							cancelled = true
							cancel()
						})
					}
				}
			}
			tp := &retry.Transport{Base: srv, Policy: policy(c.MaxRetry)}
			resp, err := tp.RoundTrip(newRequest(ctx, c.Body))
			o := outcome(resp, err)
			if o == "tm" && len(srv.attempts) <= len(c.Script) && c.Script[len(srv.attempts)-1] == "tmra" {
				o = "tmra"
			}
			rett := time.Since(srv.t0).Milliseconds()
			// a cancellation scheduled after the call returned did not happen as far as the call is concerned
			wasCancelled := cancelled && cancelT <= rett
			emit(map[string]any{"e": "retry", "kind": "case", "case": ci, "c": c, "attempts": srv.attempts, "outcome": o, "rett": rett,
				"cancelled": wasCancelled, "cancelt": cancelT, "minwait": minWait.Milliseconds(), "maxwait": maxWait.Milliseconds(), "retryafter": retryAfter})
		})
	}
	// the auth client over the retrying transport
	type stackCase struct {
		name   string
		script []string // answers of the registry, in order; "basic"/"bearer" are 401 challenges
		body   string
		want   int
		sends  int
		twice  bool // a second identical call through the same client (its cache is warm)
	}
	stacks := []stackCase{
		{"basic-then-ok", []string{"basic", "ok"}, "replay", 200, 2, false},
		{"basic-then-ok", []string{"basic", "ok"}, "oneshot", 200, 2, false},
		{"basic-then-ok", []string{"basic", "ok"}, "none", 200, 2, false},
		{"ise-basic-ise-ok", []string{"ise", "basic", "ise", "ok"}, "replay", 200, 2, false},
		{"ise-basic-ise-ok", []string{"ise", "basic", "ise", "ok"}, "oneshot", 200, 2, false},
		{"bearer-then-ok", []string{"bearer", "ok"}, "replay", 200, 2, false},
		{"bearer-tm-ok", []string{"bearer", "tm", "ok"}, "replay", 200, 2, false},
		{"bearer-then-ok", []string{"bearer", "ok"}, "oneshot", 200, 2, false},
		{"bearer-ok-twice", []string{"bearer", "ok", "bearer", "ok"}, "replay", 200, 4, true},
		{"bearer-ok-twice-tm", []string{"bearer", "ok", "bearer", "tm", "ok"}, "replay", 200, 4, true},
		{"basic-ok-twice", []string{"basic", "ok", "ok"}, "replay", 200, 3, true},
		{"basic-then-ok", []string{"basic", "ok"}, "replaystream", 200, 2, false},
		{"basic-then-ok", []string{"basic", "ok"}, "oneshotstream", 200, 2, false},
		{"bearer-then-ok", []string{"bearer", "ok"}, "replaystream", 200, 2, false},
		{"bearer-then-ok", []string{"bearer", "ok"}, "oneshotstream", 200, 2, false},
		{"ise-basic-ise-ok", []string{"ise", "basic", "ise", "ok"}, "replaystream", 200, 2, false},
		{"ise-basic-ise-ok", []string{"ise", "basic", "ise", "ok"}, "oneshotstream", 200, 2, false},
		{"bearer-tm-ok", []string{"bearer", "tm", "ok"}, "replaystream", 200, 2, false},
	}
	for si, sc := range stacks {
		for _, mr := range []int{1, 3} {
			synctest.Test(t, func(t *testing.T) {
				t0 := time.Now()
				var mu sync.Mutex
				var attempts []attemptRec
				regN := 0
				send := 0
				lastWasChallenge := true
				base := rtFunc(func(req *http.Request) (*http.Response, error) {
					var body []byte
					if req.Body != nil {
						body, _ = io.ReadAll(req.Body)
						req.Body.Close()
					}
					mu.Lock()
					defer mu.Unlock()
					if req.URL.Host == "token.example" {
						attempts = append(attempts, attemptRec{T: time.Since(t0).Milliseconds(), BodyLen: len(body), Dest: "token", Send: 0})
						return &http.Response{StatusCode: 200, Header: http.Header{"Content-Type": {"application/json"}}, Body: io.NopCloser(strings.NewReader(`{"access_token":"tok"}`)), Request: req}, nil
					}
					if lastWasChallenge {
						send++ // a new send of the auth client starts after a challenge (or at the beginning)
						lastWasChallenge = false
					}
					regN++
					ans := "ok"
					if regN <= len(sc.script) {
						ans = sc.script[regN-1]
					}
					attempts = append(attempts, attemptRec{T: time.Since(t0).Milliseconds(), BodyLen: len(body), BodyOK: bytes.Equal(body, payload), Dest: "registry", Send: send})
					h := http.Header{}
					code := 200
					switch ans {
					case "basic":
						code = 401
						h.Set("Www-Authenticate", `Basic realm="r"`)
						lastWasChallenge = true
					case "bearer":
						code = 401
						h.Set("Www-Authenticate", `Bearer realm="http://token.example/token",service="reg.example",scope="repository:r:pull,push"`)
						lastWasChallenge = true
					default:
						code = status(ans)
					}
					return &http.Response{StatusCode: code, Header: h, Body: io.NopCloser(strings.NewReader("")), Request: req}, nil
				})
				cl := &auth.Client{Client: &http.Client{Transport: &retry.Transport{Base: base, Policy: policy(mr)}},
					Credential: auth.StaticCredential("reg.example", auth.Credential{Username: "u", Password: "p"})}
				cl.Cache = auth.NewCache()
				resp, err := cl.Do(newRequest(context.Background(), sc.body))
				st := 0
				if err == nil {
					st = resp.StatusCode
					resp.Body.Close()
				}
				if sc.twice && err == nil {
					lastWasChallenge = true
					resp, err = cl.Do(newRequest(context.Background(), sc.body))
					if err == nil {
						st = resp.StatusCode
						resp.Body.Close()
					}
				}
				emit(map[string]any{"e": "retry", "kind": "stack", "case": si, "name": sc.name, "body": sc.body, "maxretry": mr, "attempts": attempts,
					"status": st, "err": err != nil, "want": sc.want, "sends": send})
			})
		}
	}
	// the policy and the backoff directly
	type pc struct {
		attempt, maxRetry int
		backoff           time.Duration
		factor, jitter    float64
		status, ra        int
	}
	var pcs []pc
	for _, a := range []int{0, 1, 2, 5, 10, 40, 63, 64, 200, 1000} {
		for _, b := range []time.Duration{0, time.Nanosecond, 250 * time.Millisecond, time.Hour} {
			for _, f := range []float64{0, 1, 2, 10} {
				for _, j := range []float64{0, 0.1, 0.5, 1} {
					for _, st := range [][2]int{{500, 0}, {429, 0}, {429, 1}, {429, 7}, {429, 100000}, {408, 0}} {
						pcs = append(pcs, pc{a, 2000, b, f, j, st[0], st[1]})
					}
				}
			}
		}
	}
	for _, mr := range []int{0, 1, 5} {
		for a := 0; a <= 6; a++ {
			pcs = append(pcs, pc{a, mr, 250 * time.Millisecond, 2, 0.1, 503, 0})
		}
	}
	// every parameter choice under the usual bounds and under a fixed interval (MinWait = MaxWait, also 0 = 0)
	type bounds struct{ lo, hi time.Duration }
	npol := 0
	for _, bd := range []bounds{{minWait, maxWait}, {500 * time.Millisecond, 500 * time.Millisecond}, {0, 0}} {
		for pi, p := range pcs {
			if bd.lo == bd.hi && pi%3 != 0 {
				continue
			}
			npol++
			minWait, maxWait := bd.lo, bd.hi
			pol := &retry.GenericPolicy{Retryable: retry.DefaultPredicate, Backoff: retry.ExponentialBackoff(p.backoff, p.factor, p.jitter), MinWait: minWait, MaxWait: maxWait, MaxRetry: p.maxRetry}
			h := http.Header{}
			if p.ra > 0 {
				h.Set("Retry-After", fmt.Sprint(p.ra))
			}
			resp := &http.Response{StatusCode: p.status, Header: h}
			var d time.Duration
			panicked := false
			func() {
				defer func() {
					if r := recover(); r != nil {
						panicked = true
					}
				}()
				d, _ = pol.Retry(p.attempt, resp, nil)
			}()
			pause := int64(-1)
			if d >= 0 {
				pause = d.Milliseconds()
			}
			emit(map[string]any{"e": "retry", "kind": "policy", "case": pi, "attempt": p.attempt, "maxretry": p.maxRetry, "backoffns": int64(p.backoff/time.Nanosecond) % (1 << 30),
				"factor": fmt.Sprint(p.factor), "jitter": fmt.Sprint(p.jitter), "status": p.status, "retryafter": min(p.ra, 1000000), "pause": pause, "panic": panicked,
				"minwait": minWait.Milliseconds(), "maxwait": maxWait.Milliseconds()})
		}
	}
	rot.Close()
	sum, _ := json.Marshal(map[string]any{"cases": len(cases), "records": n, "stack": len(stacks) * 2, "policy": npol, "files": rot.Files})
	os.WriteFile(out+"/summary.json", sum, 0o644)
}

type rtFunc func(*http.Request) (*http.Response, error)

func (f rtFunc) RoundTrip(r *http.Request) (*http.Response, error) { return f(r) }
