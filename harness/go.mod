module verif/harness

go 1.26

require (
	github.com/opencontainers/go-digest v1.0.0
	github.com/opencontainers/image-spec v1.1.1
	golang.org/x/sync v0.13.0
	oras.land/oras-go/v2 v2.0.0
)

replace oras.land/oras-go/v2 => /repo
