// Package packfam replays the case space emitted by spec/PackCases.tla into
// the real oras.PackManifest / oras.Pack with a recording target (C19) and
// records the outcome for spec/PackJudge.tla.
package packfam

import (
	"bytes"
	"context"
	"encoding/json"
	"errors"
	"io"
	"math/rand"
	"os"
	"reflect"
	"sort"
	"sync"
	"testing"

	"github.com/opencontainers/go-digest"
	ocispec "github.com/opencontainers/image-spec/specs-go/v1"
	oras "oras.land/oras-go/v2"
	"oras.land/oras-go/v2/content"
	"oras.land/oras-go/v2/content/file"
	"oras.land/oras-go/v2/content/memory"
	"oras.land/oras-go/v2/content/oci"
	"oras.land/oras-go/v2/errdef"
	"verif/harness/vh"
)

type Case struct {
	Ver     string `json:"ver"`
	At      string `json:"at"`
	Cfg     string `json:"cfg"`
	CfgAnn  bool   `json:"cfgann"`
	Layers  string `json:"layers"`
	Subject bool   `json:"subject"`
	Ann     string `json:"ann"`
	Target  string `json:"target"`
}

type pushRec struct {
	MT string `json:"mt"`
	Dg string `json:"dg"`
}

// recorder wraps a storage and records every Push.
type recorder struct {
	und content.Storage
	mu  sync.Mutex
	log []pushRec
	// failBlobs: every push of something that is not a manifest fails
	failBlobs bool
	nfaulted  int
}

var errFault = errors.New("verif: injected push failure")

func (r *recorder) Push(ctx context.Context, d ocispec.Descriptor, rd io.Reader) error {
	r.mu.Lock()
	r.log = append(r.log, pushRec{d.MediaType, d.Digest.String()})
	fail := r.failBlobs && !isManifestMT(d.MediaType)
	if fail {
		r.nfaulted++
	}
	r.mu.Unlock()
	if fail {
		return errFault
	}
	return r.und.Push(ctx, d, rd)
}

type recorderRO struct{ *recorder }

func (r recorderRO) Exists(ctx context.Context, d ocispec.Descriptor) (bool, error) {
	return r.und.Exists(ctx, d)
}
func (r recorderRO) Fetch(ctx context.Context, d ocispec.Descriptor) (io.ReadCloser, error) {
	return r.und.Fetch(ctx, d)
}

func pairs(m map[string]string) [][]string {
	out := [][]string{}
	for k, v := range m {
		out = append(out, []string{k, v})
	}
	sort.Slice(out, func(i, j int) bool { return out[i][0] < out[j][0] })
	return out
}

var (
	validMT   = []string{"application/vnd.verif.thing+json", "text/plain", "a/b", "application/vnd.x-y_z.v1+type", "X1/y!#$&^_.+-"}
	invalidMT = []string{"no-slash", "text/pl ain", "/json", "application/", "a/b/c", ".a/b", "a/b;q=1", "te xt/plain", "a/-b*"}
	goodTimes = []string{"2000-01-01T00:00:00Z", "2023-06-15T12:34:56+08:00", "2023-06-15T12:34:56.789Z", "1999-12-31T23:59:59-05:30"}
	badTimes  = []string{"yesterday", "2020-01-01", "2020-01-01 00:00:00Z", "", "20200101T000000Z", "2020-01-01T00:00:00", "2020-1-1T00:00:00Z"}
)

func errClass(err error) string {
	switch {
	case err == nil:
		return "ok"
	case errors.Is(err, errFault):
		return "fault"
	case errors.Is(err, errdef.ErrInvalidMediaType):
		return "mediatype"
	case errors.Is(err, oras.ErrMissingArtifactType):
		return "missingat"
	case errors.Is(err, oras.ErrInvalidDateTimeFormat):
		return "datetime"
	case errors.Is(err, errdef.ErrUnsupported):
		return "unsupported"
	}
	return "other"
}

func isManifestMT(mt string) bool {
	return mt == ocispec.MediaTypeImageManifest || mt == "application/vnd.oci.artifact.manifest.v1+json"
}

func TestDrive(t *testing.T) {
	out := os.Getenv("VH_OUT")
	if out == "" {
		t.Skip("VH_OUT not set")
	}
	seed := int64(vh.EnvInt("VH_SEED", 1))
	rounds := vh.EnvInt("VH_ROUNDS", 1)
	raw, err := os.ReadFile(os.Getenv("VH_CASES"))
	if err != nil {
		t.Fatal(err)
	}
	var cases []Case
	if err := json.Unmarshal(raw, &cases); err != nil {
		t.Fatal(err)
	}
	rot := &vh.Rot{Dir: out, Max: vh.EnvInt("VH_ROT", 8000)}
	rng := rand.New(rand.NewSource(seed))
	n, okN := 0, 0
	ctx := context.Background()
	emptyJSON := ocispec.DescriptorEmptyJSON
	customEmpty := digest.FromBytes([]byte("{}")).String()
	for round := 0; round < rounds; round++ {
		for ci, c := range cases {
			tr := rot.Next()
			n++
			// concrete strings for the classes
			at := ""
			switch c.At {
			case "valid":
				at = validMT[rng.Intn(len(validMT))]
			case "invalid":
				at = invalidMT[rng.Intn(len(invalidMT))]
			}
			cfgMT := ""
			switch c.Cfg {
			case "valid", "validempty":
				cfgMT = validMT[rng.Intn(len(validMT))]
			case "invalid":
				cfgMT = invalidMT[rng.Intn(len(invalidMT))]
			case "emptyjson":
				cfgMT = ocispec.MediaTypeEmptyJSON
			}
			createdKey := ocispec.AnnotationCreated
			if c.Ver == "artifact" {
				createdKey = "org.opencontainers.artifact.created"
			}
			var ann map[string]string
			created := ""
			switch c.Ann {
			case "nocreated":
				ann = map[string]string{"k1": "v1", "a.b/c": "x y"}
			case "created":
				created = goodTimes[rng.Intn(len(goodTimes))]
				ann = map[string]string{"k1": "v1", createdKey: created}
			case "badcreated":
				created = badTimes[rng.Intn(len(badTimes))]
				ann = map[string]string{createdKey: created, "z": "1"}
			}
			// target
			var und content.Storage
			closeTarget := func() {}
			switch c.Target {
			case "oci":
				dir := t.TempDir()
				s, err := oci.New(dir)
				if err != nil {
					t.Fatal(err)
				}
				und = s
			case "file":
				// a file store keeps named content under its name: the manifest is given one (unless the same manifest is
				// packed twice below - a name can be taken once)
				fs, err := file.New(t.TempDir())
				if err != nil {
					t.Fatal(err)
				}
				closeTarget = func() { fs.Close() }
				und = fs
				if c.Ann != "created" {
					named := map[string]string{ocispec.AnnotationTitle: "manifest.json"}
					for k, v := range ann {
						named[k] = v
					}
					ann = named
				}
			default:
				und = memory.New()
			}
			mkblob := func(mt, s string) ocispec.Descriptor {
				b := []byte(s)
				d := content.NewDescriptorFromBytes(mt, b)
				und.Push(ctx, d, bytes.NewReader(b))
				return d
			}
			var layers []ocispec.Descriptor
			switch c.Layers {
			case "empty":
				layers = []ocispec.Descriptor{}
			case "one":
				layers = []ocispec.Descriptor{mkblob("application/vnd.verif.layer", "layer-one")}
			case "many":
				layers = []ocispec.Descriptor{mkblob("application/vnd.verif.layer", "layer-a"), mkblob("application/vnd.verif.layer", "layer-b"), mkblob("application/vnd.verif.layer", "layer-a2")}
			}
			var subject *ocispec.Descriptor
			if c.Subject {
				d := mkblob(ocispec.MediaTypeImageManifest, `{"schemaVersion":2,"mediaType":"application/vnd.oci.image.manifest.v1+json","config":{"mediaType":"application/vnd.oci.empty.v1+json","digest":"sha256:44136fa355b3678a1146ad16f7e8649e94fb4fc21fe77e8310c060f61caaff8a","size":2},"layers":[]}`)
				if ci%2 == 1 {
					// a subject as an image index lists it: with a platform, urls, annotations, artifact type and data
					d.Platform = &ocispec.Platform{Architecture: "arm64", OS: "linux", Variant: "v8"}
					d.URLs = []string{"https://mirror.example/subject"}
					d.Annotations = map[string]string{"subject.note": "from an index entry"}
					d.ArtifactType = "application/vnd.verif.subject"
				}
				subject = &d
			}
			var cfgDesc *ocispec.Descriptor
			if c.Cfg != "none" {
				b := []byte(`{"cfg":true}`)
				if c.Cfg == "emptyjson" || c.Cfg == "validempty" {
					b = []byte("{}")
				}
				d := content.NewDescriptorFromBytes(cfgMT, b)
				und.Push(ctx, d, bytes.NewReader(b))
				d.Annotations = map[string]string{"given": "cfg"}
				cfgDesc = &d
			}
			var cfgAnn map[string]string
			if c.CfgAnn {
				cfgAnn = map[string]string{"cfg.k": "cfg.v"}
			}
			if c.Target == "prefilled" {
				// the target already holds every blob a packer may invent
				und.Push(ctx, emptyJSON, bytes.NewReader(emptyJSON.Data))
				for _, mt := range []string{at, "application/vnd.unknown.config.v1+json"} {
					if mt != "" {
						d := content.NewDescriptorFromBytes(mt, []byte("{}"))
						und.Push(ctx, d, bytes.NewReader([]byte("{}")))
					}
				}
			}
			rec := &recorder{und: und, failBlobs: c.Target == "faultblob"}
			var pusher content.Pusher = recorderRO{rec}
			if c.Target == "pusheronly" {
				pusher = rec
			}
			call := func() (ocispec.Descriptor, error) {
				switch c.Ver {
				case "v1.0", "v1.1":
					v := oras.PackManifestVersion1_0
					if c.Ver == "v1.1" {
						v = oras.PackManifestVersion1_1
					}
					return oras.PackManifest(ctx, pusher, v, at, oras.PackManifestOptions{Subject: subject, Layers: layers,
						ManifestAnnotations: ann, ConfigDescriptor: cfgDesc, ConfigAnnotations: cfgAnn})
				case "rc2":
					return oras.Pack(ctx, pusher, at, layers, oras.PackOptions{Subject: subject, ManifestAnnotations: ann,
						PackImageManifest: true, ConfigDescriptor: cfgDesc, ConfigAnnotations: cfgAnn})
				default:
					return oras.Pack(ctx, pusher, at, layers, oras.PackOptions{Subject: subject, ManifestAnnotations: ann})
				}
			}
			desc, err := call()
			m := map[string]any{"e": "pack", "case": ci, "c": c, "atc": vh.Chars(at), "cfgc": vh.Chars(cfgMT), "createdc": vh.Chars(created),
				"res": errClass(err), "npush": len(rec.log), "pushes": append([]pushRec{}, rec.log...)}
			nm := 0
			for _, p := range rec.log {
				if isManifestMT(p.MT) {
					nm++
				}
			}
			m["nmanifest"], m["nfaulted"] = nm, rec.nfaulted
			req := map[string]any{"layers": dgs(layers), "subject": "", "ann": pairs(ann), "cfgdg": "", "cfgann": pairs(cfgAnn), "createdkey": createdKey}
			if subject != nil {
				req["subject"] = subject.Digest.String()
			}
			if cfgDesc != nil {
				req["cfgdg"] = cfgDesc.Digest.String()
				req["cfgann"] = pairs(cfgDesc.Annotations)
			}
			m["req"] = req
			m["emptyjsondg"] = emptyJSON.Digest.String()
			m["customemptydg"] = customEmpty
			if err == nil {
				okN++
				m["desc"] = map[string]any{"mt": desc.MediaType, "dg": desc.Digest.String(), "size": desc.Size, "at": desc.ArtifactType, "ann": pairs(desc.Annotations)}
				stored := map[string]any{"found": false, "dg": "", "size": 0}
				var body []byte
				// read back through the descriptor as returned and through the bare one
				if rc, ferr := und.Fetch(ctx, ocispec.Descriptor{MediaType: desc.MediaType, Digest: desc.Digest, Size: desc.Size}); ferr == nil {
					body, _ = io.ReadAll(rc)
					rc.Close()
					if rc2, ferr2 := und.Fetch(ctx, desc); ferr2 == nil {
						body2, _ := io.ReadAll(rc2)
						rc2.Close()
						if ok, _ := und.Exists(ctx, desc); ok && bytes.Equal(body, body2) {
							stored = map[string]any{"found": true, "dg": digest.FromBytes(body).String(), "size": len(body)}
						}
					}
				}
				m["stored"] = stored
				var p struct {
					MediaType    string               `json:"mediaType"`
					ArtifactType string               `json:"artifactType"`
					Config       *ocispec.Descriptor  `json:"config"`
					Layers       []ocispec.Descriptor `json:"layers"`
					Blobs        []ocispec.Descriptor `json:"blobs"`
					Subject      *ocispec.Descriptor  `json:"subject"`
					Annotations  map[string]string    `json:"annotations"`
				}
				perr := json.Unmarshal(body, &p)
				ls := p.Layers
				if c.Ver == "artifact" {
					ls = p.Blobs
				}
				parsed := map[string]any{"ok": perr == nil, "mt": p.MediaType, "at": p.ArtifactType, "cfgmt": "", "cfgdg": "", "cfgsize": 0,
					"cfgann": pairs(nil), "layers": dgs(ls), "subject": "", "ann": pairs(p.Annotations), "created": vh.Chars(p.Annotations[createdKey]),
					"hascreated": hasKey(p.Annotations, createdKey)}
				cfgPresent := true
				if p.Config != nil {
					parsed["cfgmt"], parsed["cfgdg"], parsed["cfgsize"], parsed["cfgann"] = p.Config.MediaType, p.Config.Digest.String(), p.Config.Size, pairs(p.Config.Annotations)
					cfgPresent, _ = und.Exists(ctx, ocispec.Descriptor{MediaType: p.Config.MediaType, Digest: p.Config.Digest, Size: p.Config.Size})
				}
				parsed["subjsame"] = false
				if p.Subject != nil {
					parsed["subject"] = p.Subject.Digest.String()
					parsed["subjsame"] = subject != nil && reflect.DeepEqual(*p.Subject, *subject)
				}
				m["parsed"] = parsed
				m["cfgpresent"] = cfgPresent
				lp := true
				for _, l := range ls {
					ok, _ := und.Exists(ctx, l)
					lp = lp && ok
				}
				m["layerspresent"] = lp
				again := map[string]any{"res": "n/a", "dg": ""}
				if c.Ann == "created" {
					d2, err2 := call()
					again = map[string]any{"res": errClass(err2), "dg": d2.Digest.String()}
				}
				m["again"] = again
			}
			tr.Begin(n)
			tr.Emit(m)
			closeTarget()
		}
	}
	rot.Close()
	sum, _ := json.Marshal(map[string]any{"records": n, "ok": okN, "cases": len(cases), "files": rot.Files})
	os.WriteFile(out+"/summary.json", sum, 0o644)
}

func hasKey(m map[string]string, k string) bool { _, ok := m[k]; return ok }

func dgs(ds []ocispec.Descriptor) []string {
	out := []string{}
	for _, d := range ds {
		out = append(out, d.Digest.String())
	}
	return out
}
