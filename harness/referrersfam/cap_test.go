package referrersfam

// Capability rounds (C14, last clause): one Repository whose Referrers-API
// capability is not configured; concurrent SetReferrersCapability, Referrers,
// Push-with-subject and Delete-of-a-referrer calls, with the registry allowed
// to change its own answer in the middle (flip).  The HTTP exchanges and the
// library's verif-tagged scheduling points (capability loads and
// compare-and-swaps, Merge) are released one at a time by vh.PSched.  Every
// exchange is logged with the call that issued it; CapabilityMon.tla derives
// from them what each returned call proves about the capability.

import (
	"bytes"
	"context"
	"encoding/json"
	"errors"
	"math/rand"
	"net/http"
	"os"
	"runtime"
	"strings"
	"testing"
	"time"

	ocispec "github.com/opencontainers/image-spec/specs-go/v1"
	"oras.land/oras-go/v2/errdef"
	"oras.land/oras-go/v2/registry/remote"
	"oras.land/oras-go/v2/verifhook"
	"verif/harness/regfake"
	"verif/harness/vh"
)

type CapOp struct {
	Kind string `json:"kind"` // setT | setF | referrers | push | delete | flip
	R    int    `json:"r"`
}

type CapScenario struct {
	ID      int     `json:"id"`
	Truth   bool    `json:"truth"` // the registry has the Referrers API at the start
	Pre     []int   `json:"pre"`
	Ops     []CapOp `json:"ops"`
	Prefix  []int   `json:"prefix"`
	Seed    int64   `json:"seed"`
	Choices []int   `json:"choices,omitempty"`
}

const zeroDigest = "sha256:0000000000000000000000000000000000000000000000000000000000000000"

func refKind(route, ref string) string {
	switch {
	case ref == zeroDigest:
		return "zero"
	case strings.HasPrefix(ref, "sha256-"):
		return "reftag"
	case strings.HasPrefix(ref, "sha256:"):
		return "digest"
	}
	return "other"
}

func runCap(t *testing.T, sc *CapScenario, tr *vh.Tracer) (hang bool) {
	u := build(&Scenario{ID: sc.ID, Subjects: 1, NRef: 6})
	tr.Begin(sc.ID)
	body := func() {
		reg := regfake.New(host, regfake.Profile{Referrers: sc.Truth, DigestHdr: true})
		reg.SeedManifest(repo, ocispec.MediaTypeImageManifest, u.subjBody[0], "")
		for _, r := range sc.Pre {
			if sc.Truth {
				reg.SeedManifest(repo, ocispec.MediaTypeImageManifest, u.refBody[r], "")
				continue
			}
			// without the Referrers API the earlier referrers were pushed by a client that maintains the referrers-tag index
			setup, _ := remote.NewRepository(host + "/" + repo)
			setup.PlainHTTP, setup.Client = true, &http.Client{Transport: reg}
			setup.SetReferrersCapability(false)
			if err := setup.Push(context.Background(), u.refs[r], bytes.NewReader(u.refBody[r])); err != nil {
				t.Fatalf("capability round %d: setup push: %v", sc.ID, err)
			}
		}
		kinds := []string{}
		for _, op := range sc.Ops {
			kinds = append(kinds, op.Kind)
		}
		tr.Emit(map[string]any{"e": "init", "truth": sc.Truth, "kinds": kinds, "nops": len(sc.Ops)})
		// scheduling points: every HTTP exchange and the library's own points (loads and compare-and-swaps of the
		// capability, the Merge protocol); PSched copes with pingReferrers holding its mutex across a request
		s := &vh.PSched{Quiet: time.Duration(vh.EnvInt("VH_QUIETUS", 300)) * time.Microsecond}
		reg.Gate = func(method, route, ref string) { s.Point(method + " " + route) }
		verifhook.Set(s.Point)
		defer verifhook.Set(nil)
		reg.Log = func(x regfake.Exchange) {
			if x.Actor != "" {
				tr.Emit(map[string]any{"e": "x", "actor": x.Actor, "method": x.Method, "route": x.Route, "ref": refKind(x.Route, x.Ref), "status": x.Status})
			}
		}
		client, _ := remote.NewRepository(host + "/" + repo)
		client.PlainHTTP, client.Client = true, &http.Client{Transport: reg}
		call := func(actor string, op CapOp) string {
			ctx := context.WithValue(context.Background(), regfake.ActorKey{}, actor)
			var err error
			switch op.Kind {
			case "setT", "setF":
				err = client.SetReferrersCapability(op.Kind == "setT")
				if errors.Is(err, remote.ErrReferrersCapabilityAlreadySet) {
					return "alreadyset"
				}
			case "referrers":
				err = client.Referrers(ctx, u.subjects[0], "", func([]ocispec.Descriptor) error { return nil })
				if errors.Is(err, errdef.ErrUnsupported) {
					return "unsupported"
				}
			case "push":
				err = client.Push(ctx, u.refs[op.R], bytes.NewReader(u.refBody[op.R]))
			case "delete":
				err = client.Delete(ctx, u.refs[op.R])
			}
			if err != nil {
				return "err"
			}
			return "ok"
		}
		for i, op := range sc.Ops {
			i, op := i, op
			s.Go(i, func() {
				actor := "op" + string(rune('1'+i))
				if op.Kind == "flip" {
					reg.SetReferrers(!sc.Truth)
					tr.Emit(map[string]any{"e": "flip", "op": i + 1})
					return
				}
				res := call(actor, op)
				tr.Emit(map[string]any{"e": "ret", "op": i + 1, "actor": actor, "kind": op.Kind, "r": op.R, "res": res})
			})
		}
		rng := rand.New(rand.NewSource(sc.Seed))
		hang = s.Run(func(step int, pend []*vh.POp) int {
			if step < len(sc.Prefix) {
				return sc.Prefix[step]
			}
			return rng.Intn(len(pend))
		})
		sc.Choices = s.Choices
		if hang {
			tr.Emit(map[string]any{"e": "hang"})
			s.ReleaseAll()
			return
		}
		reg.Gate = nil
		verifhook.Set(nil)
		// the quiescent state, probed by two more calls: exactly one of them can succeed
		for i, k := range []string{"setT", "setF"} {
			res := call("probe", CapOp{Kind: k})
			tr.Emit(map[string]any{"e": "ret", "op": len(sc.Ops) + 1 + i, "actor": "probe", "kind": k, "r": 0, "res": res})
		}
		// the quiescent listing through the referrers-tag index, and the referrers that are in the registry
		listed, live := []int{}, []int{}
		lister, _ := remote.NewRepository(host + "/" + repo)
		lister.PlainHTTP, lister.Client = true, &http.Client{Transport: reg}
		lister.SetReferrersCapability(false)
		lister.Referrers(context.Background(), u.subjects[0], "", func(ds []ocispec.Descriptor) error {
			for _, d := range ds {
				for r := 1; r < len(u.refs); r++ {
					if u.refs[r].Digest == d.Digest {
						listed = append(listed, r)
					}
				}
			}
			return nil
		})
		present := map[string]bool{}
		for _, m := range reg.Snapshot().Manifests {
			present[m[1]] = true
		}
		for r := 1; r < len(u.refs); r++ {
			if present[u.refs[r].Digest.String()] {
				live = append(live, r)
			}
		}
		tr.Emit(map[string]any{"e": "end", "listed": listed, "live": live})
	}
	body()
	return hang
}

func genCap(rng *rand.Rand) CapScenario {
	sc := CapScenario{Truth: rng.Intn(2) == 0, Seed: rng.Int63()}
	sc.Pre = []int{1, 2}
	nops := 2 + rng.Intn(3)
	nextPush, nextDel := 3, 1
	flipped := false
	for len(sc.Ops) < nops {
		switch k := []string{"setT", "setF", "referrers", "referrers", "push", "delete", "flip"}[rng.Intn(7)]; k {
		case "push":
			if nextPush <= 6 {
				sc.Ops = append(sc.Ops, CapOp{k, nextPush})
				nextPush++
			}
		case "delete":
			if nextDel <= 2 {
				sc.Ops = append(sc.Ops, CapOp{k, nextDel})
				nextDel++
			}
		case "flip":
			if !flipped && rng.Intn(2) == 0 {
				sc.Ops = append(sc.Ops, CapOp{k, 0})
				flipped = true
			}
		default:
			sc.Ops = append(sc.Ops, CapOp{k, 0})
		}
	}
	return sc
}

func TestCapability(t *testing.T) {
	out := os.Getenv("VH_OUT")
	if out == "" {
		t.Skip("VH_OUT not set")
	}
	runtime.GOMAXPROCS(1)
	rng := rand.New(rand.NewSource(int64(vh.EnvInt("VH_SEED", 1))))
	rot := &vh.Rot{Dir: out, Max: vh.EnvInt("VH_ROT", 60000)}
	sf, _ := os.Create(out + "/scenarios.ndjson")
	defer sf.Close()
	enc := json.NewEncoder(sf)
	n, hangs := 0, 0
	run := func(sc CapScenario) {
		n++
		sc.ID = n
		if runCap(t, &sc, rot.Next()) {
			hangs++
		}
		enc.Encode(sc)
	}
	if rp := os.Getenv("VH_REPLAY"); rp != "" {
		b, _ := os.ReadFile(rp)
		for _, line := range strings.Split(strings.TrimSpace(string(b)), "\n") {
			var sc CapScenario
			if err := json.Unmarshal([]byte(line), &sc); err != nil {
				t.Fatal(err)
			}
			if len(sc.Choices) > 0 {
				sc.Prefix = sc.Choices
			}
			run(sc)
		}
	} else {
		// the first operations of a Repository that does not know the capability yet, at once: two deletes (one waits
		// on the probe of the other), with a listing or a push next to them
		for i := 0; i < vh.EnvInt("VH_CAPFIRST", 60); i++ {
			sc := CapScenario{Truth: i%4 == 3, Pre: []int{1, 2}, Seed: rng.Int63(), Ops: []CapOp{{"delete", 1}, {"delete", 2}}}
			switch i % 3 {
			case 1:
				sc.Ops = append(sc.Ops, CapOp{"referrers", 0})
			case 2:
				sc.Ops = append(sc.Ops, CapOp{"push", 3})
			}
			run(sc)
		}
		for i := 0; i < vh.EnvInt("VH_CAP", 400); i++ {
			run(genCap(rng))
		}
	}
	rot.Close()
	sum, _ := json.Marshal(map[string]any{"scenarios": n, "hangs": hangs, "events": rot.Total, "files": rot.Files})
	os.WriteFile(out+"/summary.json", sum, 0o644)
}
