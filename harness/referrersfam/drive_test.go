// Package referrersfam runs concurrent pushes and deletions of referrers through
// one real remote.Repository against a registry without the Referrers API
// (regfake), scheduling the HTTP exchanges at a gate under testing/synctest
// (C14). spec/ReferrersMon.tla judges the quiescent state.
package referrersfam

import (
	"bytes"
	"context"
	"encoding/json"
	"errors"
	"fmt"
	"math/rand"
	"net/http"
	"os"
	"sort"
	"strings"
	"sync"
	"testing"
	"testing/synctest"
	"time"

	"github.com/opencontainers/go-digest"
	ocispec "github.com/opencontainers/image-spec/specs-go/v1"
	"oras.land/oras-go/v2/registry/remote"
	"oras.land/oras-go/v2/verifhook"
	"verif/harness/regfake"
	"verif/harness/vh"
)

const (
	host = "reg.example"
	repo = "team/app"
)

type Op struct {
	Kind string `json:"kind"` // push | delete
	R    int    `json:"r"`    // referrer number
}

type Scenario struct {
	ID       int    `json:"id"`
	Subjects int    `json:"subjects"` // number of subjects (1 or 2)
	Pre      []int  `json:"pre"`      // referrers that exist before the round (pushed sequentially)
	Dirty    bool   `json:"dirty"`    // the pre-existing index holds a duplicate and an empty entry
	Ops      []Op   `json:"ops"`      // concurrent operations, each on its own referrer
	FailDel  bool   `json:"faildel"`  // the first DELETE of an index manifest fails with 500
	FailIdx  string `json:"failidx"`  // "put" / "get": the first PUT / GET of a referrers tag fails with 500
	SkipGC   bool   `json:"skipgc"`   // Repository.SkipReferrersGC
	Gated    bool   `json:"gated"`    // schedule exchanges at the gate (else real parallelism)
	Prefix   []int  `json:"prefix"`
	Seed     int64  `json:"seed"`
	Choices  []int  `json:"choices,omitempty"`
	NRef     int    `json:"nref"`
}

type universe struct {
	subjects []ocispec.Descriptor
	subjBody [][]byte
	refs     []ocispec.Descriptor // 1-based
	refBody  [][]byte
	subjOf   []int
	art      []string
	ann      []map[string]string
	id       map[string]int // digest -> referrer number
}

func build(sc *Scenario) *universe {
	u := &universe{id: map[string]int{}}
	for s := 0; s < sc.Subjects; s++ {
		b := []byte(fmt.Sprintf(`{"schemaVersion":2,"mediaType":%q,"config":{"mediaType":"application/vnd.oci.empty.v1+json","digest":"sha256:44136fa355b3678a1146ad16f7e8649e94fb4fc21fe77e8310c060f61caaff8a","size":2},"layers":[],"annotations":{"subject":"%d-%d"}}`, ocispec.MediaTypeImageManifest, sc.ID, s))
		u.subjects = append(u.subjects, ocispec.Descriptor{MediaType: ocispec.MediaTypeImageManifest, Digest: digest.FromBytes(b), Size: int64(len(b))})
		u.subjBody = append(u.subjBody, b)
	}
	u.refs, u.refBody, u.subjOf, u.art, u.ann = make([]ocispec.Descriptor, sc.NRef+1), make([][]byte, sc.NRef+1), make([]int, sc.NRef+1), make([]string, sc.NRef+1), make([]map[string]string, sc.NRef+1)
	for r := 1; r <= sc.NRef; r++ {
		s := (r - 1) % sc.Subjects
		art := []string{"application/vnd.verif.sig", "application/vnd.verif.sbom+json"}[r%2]
		ann := map[string]string{"verif.ref": fmt.Sprint(r)}
		m := ocispec.Manifest{MediaType: ocispec.MediaTypeImageManifest, ArtifactType: art, Subject: &u.subjects[s], Annotations: ann,
			Config: ocispec.DescriptorEmptyJSON, Layers: []ocispec.Descriptor{}}
		m.SchemaVersion = 2
		b, _ := json.Marshal(m)
		u.refs[r] = ocispec.Descriptor{MediaType: ocispec.MediaTypeImageManifest, Digest: digest.FromBytes(b), Size: int64(len(b))}
		u.refBody[r], u.subjOf[r], u.art[r], u.ann[r] = b, s, art, ann
		u.id[u.refs[r].Digest.String()] = r
	}
	return u
}

func annSig(a map[string]string) string {
	var ks []string
	for k := range a {
		ks = append(ks, k)
	}
	sort.Strings(ks)
	var sb strings.Builder
	for _, k := range ks {
		sb.WriteString(k + "=" + a[k] + ";")
	}
	return sb.String()
}

func newRepo(reg *regfake.Registry, skipGC bool) *remote.Repository {
	r, _ := remote.NewRepository(host + "/" + repo)
	r.PlainHTTP, r.Client, r.SkipReferrersGC = true, &http.Client{Transport: reg}, skipGC
	r.SetReferrersCapability(false)
	return r
}

func runScenario(t *testing.T, sc *Scenario, tr *vh.Tracer) (hang bool) {
	u := build(sc)
	tr.Begin(sc.ID)
	body := func() {
		ctx := context.Background()
		reg := regfake.New(host, regfake.Profile{Referrers: false, DigestHdr: true})
		// setup: subjects, pre-existing referrers (through the client, sequentially), optionally a dirty index
		for s := range u.subjects {
			reg.SeedManifest(repo, ocispec.MediaTypeImageManifest, u.subjBody[s], "")
		}
		setup := newRepo(reg, false)
		for _, r := range sc.Pre {
			if err := setup.Push(ctx, u.refs[r], bytes.NewReader(u.refBody[r])); err != nil {
				t.Fatalf("setup push: %v", err)
			}
		}
		if sc.Dirty {
			// rewrite the index of subject 0 by hand: a duplicate of its first referrer and an empty descriptor
			var ms []ocispec.Descriptor
			for _, r := range sc.Pre {
				if u.subjOf[r] == 0 {
					d := u.refs[r]
					d.ArtifactType, d.Annotations = u.art[r], u.ann[r]
					ms = append(ms, d)
				}
			}
			if len(ms) > 0 {
				ms = append(ms, ms[0], ocispec.Descriptor{})
				b, _ := json.Marshal(ocispec.Index{MediaType: ocispec.MediaTypeImageIndex, Manifests: ms})
				reg.ReplaceTagged(repo, ocispec.MediaTypeImageIndex, b, strings.Replace(u.subjects[0].Digest.String(), ":", "-", 1))
			}
		}
		refs := [][]any{}
		for r := 1; r <= sc.NRef; r++ {
			refs = append(refs, []any{r, u.subjOf[r], u.art[r], annSig(u.ann[r])})
		}
		tr.Emit(map[string]any{"e": "init", "subjects": sc.Subjects, "refs": refs, "pre": vh.Ints(sc.Pre), "dirty": sc.Dirty, "faildel": sc.FailDel, "failidx": sc.FailIdx,
			"skipgc": sc.SkipGC, "nops": len(sc.Ops)})
		s := &vh.Sched{Off: !sc.Gated}
		failed := false
		var fmu sync.Mutex
		reg.Gate = func(method, route, ref string) { s.Gate(method+" "+route, 0) }
		// the Merge protocol's own steps (assign / commit / complete) are scheduling points too; none is reached
		// with a mutex held
		verifhook.Set(func(name string) {
			if strings.HasPrefix(name, "merge.") {
				s.Gate(name, 0)
			}
		})
		defer verifhook.Set(nil)
		reg.Fail = func(method, route, ref string) bool {
			if route != "manifest" {
				return false
			}
			switch {
			case sc.FailDel && method == http.MethodDelete:
				if _, isRef := u.id[ref]; isRef {
					return false // only the deletion of an index manifest fails
				}
			case sc.FailIdx == "put" && method == http.MethodPut && strings.HasPrefix(ref, "sha256-"):
			case sc.FailIdx == "get" && method == http.MethodGet && strings.HasPrefix(ref, "sha256-"):
			default:
				return false
			}
			fmu.Lock()
			defer fmu.Unlock()
			if failed {
				return false
			}
			failed = true
			return true
		}
		client := newRepo(reg, sc.SkipGC)
		done := make(chan struct{})
		var wg sync.WaitGroup
		for i, op := range sc.Ops {
			i, op := i, op
			wg.Add(1)
			go func() {
				defer wg.Done()
				var err error
				if op.Kind == "push" {
					err = client.Push(ctx, u.refs[op.R], bytes.NewReader(u.refBody[op.R]))
				} else {
					err = client.Delete(ctx, u.refs[op.R])
				}
				cls := "ok"
				var re *remote.ReferrersError
				switch {
				case err == nil:
				case errors.As(err, &re) && re.IsReferrersIndexDelete():
					cls = "indexdelete"
				default:
					cls = "err"
				}
				tr.Emit(map[string]any{"e": "ret", "op": i + 1, "kind": op.Kind, "r": op.R, "res": cls})
			}()
		}
		go func() { wg.Wait(); close(done) }()
		if sc.Gated {
			rng := rand.New(rand.NewSource(sc.Seed))
			hang = s.Run(done, func(step int, pend []*vh.Op) int {
				if i := len(s.Choices); i < len(sc.Prefix) {
					return sc.Prefix[i]
				}
				return rng.Intn(len(pend))
			}, nil)
			sc.Choices = s.Choices
			if hang {
				tr.Emit(map[string]any{"e": "hang"})
				s.ReleaseAll()
				synctest.Wait()
				return
			}
		} else {
			select {
			case <-done:
			case <-time.After(time.Duration(vh.EnvInt("VH_HANGMS", 20000)) * time.Millisecond):
				// real goroutines that never return: reported, and no further un-gated round is run in this process
				hang = true
				tr.Emit(map[string]any{"e": "hang"})
				return
			}
		}
		reg.Gate, reg.Fail = nil, nil
		verifhook.Set(nil)
		// quiescent observation through a fresh Repository, and the registry's own content
		obs := newRepo(reg, false)
		listed := [][]any{}
		for sIdx, subj := range u.subjects {
			err := obs.Referrers(ctx, subj, "", func(ds []ocispec.Descriptor) error {
				for _, d := range ds {
					listed = append(listed, []any{sIdx, u.id[d.Digest.String()], d.ArtifactType, annSig(d.Annotations)})
				}
				return nil
			})
			if err != nil {
				listed = append(listed, []any{sIdx, -1, "error", err.Error()})
			}
		}
		st := reg.Snapshot()
		live := []int{}
		indexes := 0
		for _, m := range st.Manifests {
			if r, ok := u.id[m[1]]; ok {
				live = append(live, r)
			} else {
				isSubj := false
				for _, sd := range u.subjects {
					isSubj = isSubj || sd.Digest.String() == m[1]
				}
				if !isSubj {
					indexes++
				}
			}
		}
		sort.Ints(live)
		tagged := 0
		for _, tg := range st.Tags {
			if strings.HasPrefix(tg[1], "sha256-") {
				tagged++
			}
		}
		tr.Emit(map[string]any{"e": "quiesce", "listed": listed, "live": live, "indexes": indexes, "tagged": tagged, "failfired": failed})
	}
	if sc.Gated {
		func() {
			// operations left blocked for ever make the bubble deadlock once its root returns; the hang is already logged
			defer func() {
				if r := recover(); r != nil && !hang {
					panic(r)
				}
			}()
			synctest.Test(t, func(t *testing.T) { body() })
		}()
	} else {
		body()
	}
	return hang
}

func genScenario(rng *rand.Rand, gated bool) Scenario {
	sc := Scenario{Subjects: 1 + rng.Intn(2), NRef: 6, Gated: gated, Seed: rng.Int63(), SkipGC: rng.Intn(6) == 0}
	perm := rng.Perm(sc.NRef)
	npre := rng.Intn(4)
	for _, p := range perm[:npre] {
		sc.Pre = append(sc.Pre, p+1)
	}
	sort.Ints(sc.Pre)
	nops := 2 + rng.Intn(3)
	if !gated {
		nops = 3 + rng.Intn(4)
	}
	used := map[int]bool{}
	for len(sc.Ops) < nops {
		r := 1 + rng.Intn(sc.NRef)
		if used[r] {
			continue
		}
		used[r] = true
		pre := false
		for _, p := range sc.Pre {
			pre = pre || p == r
		}
		if pre {
			sc.Ops = append(sc.Ops, Op{"delete", r})
		} else {
			sc.Ops = append(sc.Ops, Op{"push", r})
		}
	}
	sc.Dirty = npre > 0 && rng.Intn(4) == 0
	sc.FailDel = npre > 0 && !sc.SkipGC && rng.Intn(5) == 0
	if !sc.FailDel && rng.Intn(5) == 0 {
		sc.FailIdx = []string{"put", "get"}[rng.Intn(2)]
	}
	return sc
}

func TestDrive(t *testing.T) {
	out := os.Getenv("VH_OUT")
	if out == "" {
		t.Skip("VH_OUT not set")
	}
	seed := int64(vh.EnvInt("VH_SEED", 1))
	rng := rand.New(rand.NewSource(seed))
	rot := &vh.Rot{Dir: out, Max: vh.EnvInt("VH_ROT", 60000)}
	sf, _ := os.Create(out + "/scenarios.ndjson")
	defer sf.Close()
	enc := json.NewEncoder(sf)
	n, hangs, stuck := 0, 0, 0
	run := func(sc Scenario) []int {
		n++
		sc.ID = n
		if runScenario(t, &sc, rot.Next()) {
			hangs++
			if !sc.Gated {
				stuck++
			}
		}
		enc.Encode(sc)
		return sc.Choices
	}
	if rp := os.Getenv("VH_REPLAY"); rp != "" {
		b, _ := os.ReadFile(rp)
		for _, line := range strings.Split(strings.TrimSpace(string(b)), "\n") {
			var sc Scenario
			if err := json.Unmarshal([]byte(line), &sc); err != nil {
				t.Fatal(err)
			}
			if len(sc.Choices) > 0 {
				sc.Prefix = sc.Choices
			}
			run(sc)
		}
	} else {
		for i := 0; i < vh.EnvInt("VH_GATED", 400); i++ {
			run(genScenario(rng, true))
		}
		for i := 0; i < vh.EnvInt("VH_STRESS", 100) && stuck == 0; i++ {
			run(genScenario(rng, false))
		}
	}
	rot.Close()
	sum, _ := json.Marshal(map[string]any{"scenarios": n, "hangs": hangs, "events": rot.Total, "files": rot.Files})
	os.WriteFile(out+"/summary.json", sum, 0o644)
}
