// Package authfam drives the real auth.Client against scripted registries and
// a token service through a gated innermost RoundTripper and records, for every
// outgoing request, where it went and which known secrets it carried (C16).
package authfam

import (
	"context"
	"encoding/base64"
	"encoding/json"
	"fmt"
	"io"
	"math/rand"
	"net/http"
	"net/url"
	"os"
	"sort"
	"strings"
	"sync"
	"testing"
	"testing/synctest"
	"time"

	"oras.land/oras-go/v2/registry/remote/auth"
	"verif/harness/vh"
)

const (
	// two registries on one hostname, told apart by the port only
	hostA = "reg.example:5000"
	hostB = "reg.example:5001"
	hostT = "t.example"
)

type ctxKey struct{}
type dlKey struct{}

// hostCfg scripts one registry.
type hostCfg struct {
	Scheme string `json:"scheme"` // none | basic | bearer
	Realm  string `json:"realm"`  // host of the token endpoint it advertises (bearer)
	Flow   string `json:"flow"`   // password (distribution GET) | refresh (OAuth2 POST) | access (static access token)
	// Spell: how the challenge spells its scheme (schemes are case-insensitive): 0 Bearer, 1 bearer, 2 BEARER, 3 bEaReR
	Spell int `json:"spell,omitempty"`
	// RealmQ: the advertised realm URL carries a query of its own (?tenant=acme) without which the token service refuses
	RealmQ bool `json:"realmq,omitempty"`
	// NoCred: the client holds no credential for this registry (it is used anonymously).
	NoCred bool `json:"nocred,omitempty"`
	// Service: the service name the Bearer challenge advertises ("" the registry's own host). A registry chooses this
	// string freely - it may be another registry's host name; the realm then ends in /for-<registry> so that the token
	// service knows whom it serves.
	Service string `json:"service,omitempty"`
}

func spell(k int, word string) string {
	switch k {
	case 1:
		return strings.ToLower(word)
	case 2:
		return strings.ToUpper(word)
	case 3:
		b := []byte(strings.ToLower(word))
		for i := 1; i < len(b); i += 2 {
			b[i] -= 'a' - 'A'
		}
		return string(b)
	}
	return word
}

type Req struct {
	ID     int      `json:"id"`
	Host   string   `json:"host"`
	Repo   string   `json:"repo"`
	Method string   `json:"method"`
	Hints  []string `json:"hints"` // scope strings attached to the context
	// Deadline: this request's context has a deadline, and a credential lookup made on its behalf waits for it and
	// returns the context's error (a request that gives up while others wait for the token fetch it is running)
	Deadline int `json:"deadline,omitempty"` // 1: the credential lookup waits for the deadline; 2: the token request does
}

type Scenario struct {
	ID       int                `json:"id"`
	Cache    string             `json:"cache"` // shared | single | none
	Hosts    map[string]hostCfg `json:"hosts"`
	Phases   [][]Req            `json:"phases"`             // requests of one phase run concurrently
	Coalesce bool               `json:"coalesce"`           // schedule policy: registry sends before token-service sends
	Change   map[string]hostCfg `json:"change"`             // scheme change applied before the last phase (or before phase ChangeAt)
	ChangeAt int                `json:"changeat,omitempty"` // 0: before the last phase; k > 0: before phase k (0-based)
	Seed     int64              `json:"seed"`
}

func hostTag(host string) string {
	if host == hostB {
		return "B"
	}
	return "A"
}

func creds(host string, flow string) auth.Credential {
	tag := hostTag(host)
	switch flow {
	case "refresh":
		return auth.Credential{RefreshToken: "REFRESH-" + tag}
	case "access":
		return auth.Credential{AccessToken: "ACCESS-" + tag}
	}
	return auth.Credential{Username: "user" + tag, Password: "PASS-" + tag}
}

type scopeRec struct {
	Type    string   `json:"type"`
	Name    string   `json:"name"`
	Actions []string `json:"actions"`
}

func parseScopes(ss []string) []scopeRec {
	out := []scopeRec{}
	for _, s := range ss {
		for _, one := range strings.Fields(s) {
			parts := strings.Split(one, ":")
			if len(parts) < 3 {
				out = append(out, scopeRec{Type: one, Actions: []string{}})
				continue
			}
			acts := strings.Split(parts[len(parts)-1], ",")
			out = append(out, scopeRec{Type: parts[0], Name: strings.Join(parts[1:len(parts)-1], ":"), Actions: acts})
		}
	}
	return out
}

// world is the scripted network.
type world struct {
	mu     sync.Mutex
	sc     *Scenario
	hosts  map[string]hostCfg
	tr     *vh.Tracer
	s      *vh.Sched
	issued int
	nsend  map[int]int
}

var secretList = []struct{ s, owner, kind string }{
	{"PASS-A", hostA, "password"}, {"PASS-B", hostB, "password"}, {"REFRESH-A", hostA, "refresh"}, {"REFRESH-B", hostB, "refresh"},
	{"ACCESS-A", hostA, "access"}, {"ACCESS-B", hostB, "access"}, {"TOK|" + hostA, hostA, "token"}, {"TOK|" + hostB, hostB, "token"},
}

func findSecrets(texts ...string) [][]string {
	out := [][]string{}
	seen := map[string]bool{}
	for _, t := range texts {
		all := t
		// also look inside base64 (Basic) material
		for _, f := range strings.Fields(t) {
			if b, err := base64.StdEncoding.DecodeString(f); err == nil {
				all += " " + string(b)
			}
		}
		for _, s := range secretList {
			if strings.Contains(all, s.s) && !seen[s.s] {
				seen[s.s] = true
				out = append(out, []string{s.owner, s.kind})
			}
		}
	}
	return out
}

func requiredScope(repo, method string) string {
	if method == http.MethodGet || method == http.MethodHead {
		return "repository:" + repo + ":pull"
	}
	return "repository:" + repo + ":pull,push"
}

func covers(tokenScopes []scopeRec, need string) bool {
	n := parseScopes([]string{need})[0]
	for _, a := range n.Actions {
		ok := false
		for _, ts := range tokenScopes {
			if ts.Type == n.Type && ts.Name == n.Name {
				for _, ta := range ts.Actions {
					if ta == a || ta == "*" {
						ok = true
					}
				}
			}
		}
		if !ok {
			return false
		}
	}
	return true
}

func (w *world) RoundTrip(req *http.Request) (*http.Response, error) {
	id, _ := req.Context().Value(ctxKey{}).(int)
	host := req.URL.Host
	var body string
	if req.Body != nil {
		b, _ := io.ReadAll(req.Body)
		body = string(b)
	}
	authz := req.Header.Get("Authorization")
	isToken := strings.HasPrefix(req.URL.Path, "/token")
	tokFor := ""
	if i := strings.Index(req.URL.Path, "/for-"); isToken && i >= 0 {
		tokFor = map[string]string{"A": hostA, "B": hostB}[req.URL.Path[i+5:]]
	}
	kind := "registry"
	if isToken {
		kind = "token"
	}
	// parse a bearer token we issued
	tokHost, tokScopes := "", []scopeRec{}
	if strings.HasPrefix(authz, "Bearer TOK|") {
		parts := strings.Split(strings.TrimPrefix(authz, "Bearer "), "|")
		if len(parts) >= 3 {
			tokHost = parts[1]
			tokScopes = parseScopes([]string{parts[2]})
		}
	}
	w.mu.Lock()
	w.nsend[id]++
	n := w.nsend[id]
	w.mu.Unlock()
	bodyq, _ := url.ParseQuery(body)
	service := req.URL.Query().Get("service") + bodyq.Get("service")
	asked := append(append([]string{}, req.URL.Query()["scope"]...), bodyq["scope"]...)
	scheme := "none"
	if f := strings.Fields(authz); len(f) > 0 {
		scheme = strings.ToLower(f[0])
	}
	w.tr.Emit(map[string]any{"e": "send", "id": id, "n": n, "dest": host, "kind": kind, "method": req.Method, "authscheme": scheme,
		"secrets": findSecrets(authz, req.URL.RawQuery, body), "tokhost": tokHost, "tokscopes": tokScopes, "service": service, "tokfor": tokFor,
		"asked": parseScopes(asked)})
	w.s.Gate(kind, id)
	if v, _ := req.Context().Value(dlKey{}).(int); v == 2 && isToken {
		// the token service is slow: the request that runs the fetch gives up at its deadline
		<-req.Context().Done()
		w.tr.Emit(map[string]any{"e": "resp", "id": id, "dest": host, "kind": kind, "status": 0})
		return nil, req.Context().Err()
	}
	w.mu.Lock()
	defer w.mu.Unlock()
	resp := func(code int, h http.Header, b string) (*http.Response, error) {
		if h == nil {
			h = http.Header{}
		}
		w.tr.Emit(map[string]any{"e": "resp", "id": id, "dest": host, "kind": kind, "status": code})
		return &http.Response{StatusCode: code, Status: fmt.Sprint(code), Header: h, Body: io.NopCloser(strings.NewReader(b)), Request: req}, nil
	}
	if isToken {
		// the token service: any credential material is accepted; the token names the service and the scopes asked for
		owner := service
		if tokFor != "" {
			owner = tokFor
		}
		if w.hosts[owner].RealmQ && req.URL.Query().Get("tenant") != "acme" {
			return resp(403, nil, "") // not the realm URL the registry advertised
		}
		w.issued++
		sc := parseScopes(asked)
		var ss []string
		for _, s := range sc {
			ss = append(ss, s.Type+":"+s.Name+":"+strings.Join(s.Actions, ","))
		}
		tok := fmt.Sprintf("TOK|%s|%s|%d", owner, strings.Join(ss, " "), w.issued)
		key := "token"
		if req.Method == http.MethodPost {
			key = "access_token"
		}
		return resp(200, http.Header{"Content-Type": {"application/json"}}, fmt.Sprintf(`{%q:%q}`, key, tok))
	}
	cfg := w.hosts[host]
	parts := strings.Split(strings.TrimPrefix(req.URL.Path, "/v2/"), "/manifests/")
	repo := parts[0]
	switch cfg.Scheme {
	case "none":
		return resp(200, nil, "")
	case "basic":
		c := creds(host, "password")
		if authz == "Basic "+base64.StdEncoding.EncodeToString([]byte(c.Username+":"+c.Password)) {
			return resp(200, nil, "")
		}
		return resp(401, http.Header{"Www-Authenticate": {spell(cfg.Spell, "Basic") + ` realm="` + host + `"`}}, "")
	default:
		need := requiredScope(repo, req.Method)
		if authz == "Bearer ACCESS-"+hostTag(host) || (tokHost == host && covers(tokScopes, need)) {
			return resp(200, nil, "")
		}
		q := ""
		if cfg.RealmQ {
			q = "?tenant=acme"
		}
		svc, path := host, "/token"
		if cfg.Service != "" {
			svc, path = cfg.Service, "/token/for-"+hostTag(host)
		}
		return resp(401, http.Header{"Www-Authenticate": {fmt.Sprintf(`%s realm="http://%s%s%s",service="%s",scope="%s"`, spell(cfg.Spell, "Bearer"), cfg.Realm, path, q, svc, need)}}, "")
	}
}

func runScenario(t *testing.T, sc *Scenario, tr *vh.Tracer) (hang bool) {
	tr.Begin(sc.ID)
	synctest.Test(t, func(t *testing.T) {
		w := &world{sc: sc, hosts: map[string]hostCfg{}, tr: tr, s: &vh.Sched{IdleSleep: 2 * time.Hour, IdleMax: 3}, nsend: map[int]int{}}
		for h, c := range sc.Hosts {
			w.hosts[h] = c
		}
		cl := &auth.Client{Client: &http.Client{Transport: w}}
		cl.Credential = func(ctx context.Context, host string) (auth.Credential, error) {
			if v, _ := ctx.Value(dlKey{}).(int); v == 1 {
				<-ctx.Done()
				return auth.EmptyCredential, ctx.Err()
			}
			if c, ok := w.hosts[host]; ok && !c.NoCred {
				return creds(host, c.Flow), nil
			}
			return auth.EmptyCredential, nil
		}
		switch sc.Cache {
		case "shared":
			cl.Cache = auth.NewCache()
		case "single":
			cl.Cache = auth.NewSingleContextCache()
		}
		adv := map[string]any{}
		for h, c := range sc.Hosts {
			adv[h] = c
		}
		tr.Emit(map[string]any{"e": "init", "cache": sc.Cache, "hosts": adv, "coalesce": sc.Coalesce,
			"realms": [][]string{{hostA, sc.Hosts[hostA].Realm}, {hostB, sc.Hosts[hostB].Realm}}})
		rng := rand.New(rand.NewSource(sc.Seed))
		for pi, phase := range sc.Phases {
			if len(sc.Change) > 0 && ((sc.ChangeAt == 0 && pi == len(sc.Phases)-1) || (sc.ChangeAt > 0 && pi == sc.ChangeAt)) {
				for h, c := range sc.Change {
					w.hosts[h] = c
				}
				tr.Emit(map[string]any{"e": "change", "realms": [][]string{{hostA, w.hosts[hostA].Realm}, {hostB, w.hosts[hostB].Realm}}})
			}
			done := make(chan struct{})
			var wg sync.WaitGroup
			for _, r := range phase {
				r := r
				tr.Emit(map[string]any{"e": "do", "id": r.ID, "host": r.Host, "repo": r.Repo, "method": r.Method, "hints": parseScopes(r.Hints), "phase": pi, "conc": len(phase)})
				wg.Add(1)
				go func() {
					defer wg.Done()
					ctx := context.WithValue(context.Background(), ctxKey{}, r.ID)
					if r.Deadline != 0 {
						var cancel context.CancelFunc
						ctx, cancel = context.WithTimeout(context.WithValue(ctx, dlKey{}, r.Deadline), time.Hour)
						defer cancel()
					}
					if len(r.Hints) > 0 {
						ctx = auth.WithScopesForHost(ctx, r.Host, r.Hints...)
					}
					req, _ := http.NewRequestWithContext(ctx, r.Method, "http://"+r.Host+"/v2/"+r.Repo+"/manifests/latest", nil)
					resp, err := cl.Do(req)
					st := 0
					if err == nil {
						st = resp.StatusCode
						resp.Body.Close()
					}
					tr.Emit(map[string]any{"e": "ret", "id": r.ID, "status": st, "err": err != nil, "deadline": r.Deadline != 0})
				}()
			}
			go func() { wg.Wait(); close(done) }()
			hang = w.s.Run(done, func(step int, pend []*vh.Op) int {
				if sc.Coalesce {
					// registry sends first, so that every request has seen its challenge before a token comes back
					for i, p := range pend {
						if p.Name == "registry" {
							return i
						}
					}
				}
				return rng.Intn(len(pend))
			}, nil)
			if hang {
				tr.Emit(map[string]any{"e": "hang"})
				w.s.ReleaseAll()
				synctest.Wait()
				return
			}
		}
	})
	return hang
}

var scopePool = []string{"repository:r1:pull", "repository:r1:push", "repository:r1:pull,push", "repository:r1:push,pull", "repository:r1:*",
	"repository:r2:pull", "repository:r1:pull repository:r1:pull", "repository:r2:pull,pull", "registry:catalog:*",
	// resource names may themselves contain colons (a host:port-qualified repository): the actions follow the LAST colon
	"repository:mirror.example:5000/app:pull", "repository:mirror.example:5000/app:delete,pull", "repository:mirror.example:5000/app:*",
	"repository:mirror.example:5000/app:push", "repository:mirror.example:5000/app:pull repository:mirror.example:5000/app:delete"}

func genScenario(rng *rand.Rand, id int) Scenario {
	sc := Scenario{ID: id, Cache: []string{"shared", "shared", "single", "none"}[rng.Intn(4)], Hosts: map[string]hostCfg{}, Seed: rng.Int63()}
	mk := func(h, other string) hostCfg {
		c := hostCfg{Scheme: []string{"none", "basic", "bearer", "bearer"}[rng.Intn(4)], Flow: []string{"password", "refresh", "access"}[rng.Intn(3)]}
		c.Realm = []string{h, hostT, other}[rng.Intn(3)]
		c.Spell, c.RealmQ = []int{0, 0, 1, 2, 3}[rng.Intn(5)], rng.Intn(3) == 0
		if c.Scheme == "basic" {
			c.Flow = "password"
		}
		return c
	}
	sc.Hosts[hostA], sc.Hosts[hostB] = mk(hostA, hostB), mk(hostB, hostA)
	id0 := 0
	newReq := func(host string) Req {
		id0++
		r := Req{ID: id0, Host: host, Repo: []string{"r1", "r2"}[rng.Intn(2)], Method: []string{"GET", "PUT"}[rng.Intn(2)]}
		for k := rng.Intn(3); k > 0; k-- {
			r.Hints = append(r.Hints, strings.Fields(scopePool[rng.Intn(len(scopePool))])...)
		}
		return r
	}
	hosts := []string{hostA, hostB}
	switch rng.Intn(3) {
	case 0: // sequential history
		for k := 2 + rng.Intn(5); k > 0; k-- {
			sc.Phases = append(sc.Phases, []Req{newReq(hosts[rng.Intn(2)])})
		}
	case 1: // coalescing round: identical requests to one host, then a follow-up
		h := hosts[rng.Intn(2)]
		first := newReq(h)
		phase := []Req{first}
		for k := 1 + rng.Intn(2); k > 0; k-- {
			id0++
			r := first
			r.ID = id0
			phase = append(phase, r)
		}
		if rng.Intn(3) == 0 {
			phase[0].Deadline = 1 + rng.Intn(2)
		}
		sc.Phases = append(sc.Phases, phase, []Req{newReq(h)})
		sc.Coalesce = true
	default: // concurrent mix over both hosts
		var phase []Req
		for k := 2 + rng.Intn(2); k > 0; k-- {
			phase = append(phase, newReq(hosts[rng.Intn(2)]))
		}
		sc.Phases = append(sc.Phases, []Req{newReq(hosts[rng.Intn(2)])}, phase, []Req{newReq(hosts[rng.Intn(2)])})
	}
	if rng.Intn(8) == 0 {
		// scripted: a registry is used under one scheme, switches to the other, and is used again - with and without
		// scope hints (what was cached under the old scheme must not be sent under the new one)
		h := hosts[rng.Intn(2)]
		before, after := hostCfg{Scheme: "basic", Flow: "password", Realm: h}, hostCfg{Scheme: "bearer", Flow: []string{"password", "refresh"}[rng.Intn(2)], Realm: []string{h, hostT}[rng.Intn(2)]}
		if rng.Intn(3) == 0 {
			before, after = after, before
		}
		sc.Hosts[h] = before
		plain := func() Req { r := newReq(h); r.Hints = nil; return r }
		sc.Phases = [][]Req{{plain()}, {newReq(h)}, {plain()}, {plain()}, {newReq(h)}}
		sc.Coalesce = false
		sc.Change, sc.ChangeAt = map[string]hostCfg{h: after}, 1
		return sc
	}
	if rng.Intn(4) == 0 {
		h := hosts[rng.Intn(2)]
		sc.Change = map[string]hostCfg{h: mk(h, hostA)}
		if len(sc.Phases) >= 4 && rng.Intn(2) == 0 {
			// the change comes early: several requests follow it (what was cached before must not be reused under the new scheme)
			sc.ChangeAt = 1 + rng.Intn(len(sc.Phases)-2)
		}
	}
	return sc
}

// aliasScenario: one registry is used with credentials; the other is used anonymously and advertises, in its Bearer
// challenge, the first one's host name as its service (a registry chooses that string freely). Nothing the client holds
// for the first registry may travel to the second or to the second's realm.
func aliasScenario(rng *rand.Rand) Scenario {
	sc := Scenario{Cache: []string{"shared", "single", "none"}[rng.Intn(3)], Hosts: map[string]hostCfg{}, Seed: rng.Int63()}
	own, anon := hostA, hostB
	if rng.Intn(2) == 0 {
		own, anon = hostB, hostA
	}
	sc.Hosts[own] = hostCfg{Scheme: "bearer", Flow: []string{"password", "refresh", "access"}[rng.Intn(3)], Realm: []string{own, hostT}[rng.Intn(2)]}
	sc.Hosts[anon] = hostCfg{Scheme: "bearer", Flow: "password", NoCred: true, Service: own, Realm: []string{anon, hostT, own}[rng.Intn(3)],
		RealmQ: rng.Intn(3) == 0}
	id0 := 0
	req := func(h string) Req {
		id0++
		r := Req{ID: id0, Host: h, Repo: []string{"r1", "r2"}[rng.Intn(2)], Method: []string{"GET", "PUT"}[rng.Intn(2)]}
		if rng.Intn(2) == 0 {
			r.Hints = strings.Fields(scopePool[rng.Intn(len(scopePool))])
		}
		return r
	}
	sc.Phases = [][]Req{{req(own)}, {req(anon)}, {req(anon), req(own)}, {req(anon)}}
	if rng.Intn(2) == 0 {
		sc.Phases = sc.Phases[1:]
	}
	return sc
}

func TestDrive(t *testing.T) {
	out := os.Getenv("VH_OUT")
	if out == "" {
		t.Skip("VH_OUT not set")
	}
	seed := int64(vh.EnvInt("VH_SEED", 1))
	count := vh.EnvInt("VH_COUNT", 500)
	rng := rand.New(rand.NewSource(seed))
	rot := &vh.Rot{Dir: out, Max: vh.EnvInt("VH_ROT", 60000)}
	sf, _ := os.Create(out + "/scenarios.ndjson")
	defer sf.Close()
	enc := json.NewEncoder(sf)
	hangs := 0
	n := 0
	run := func(sc Scenario) {
		n++
		sc.ID = n
		if runScenario(t, &sc, rot.Next()) {
			hangs++
		}
		enc.Encode(sc)
	}
	if rp := os.Getenv("VH_REPLAY"); rp != "" {
		b, _ := os.ReadFile(rp)
		for _, line := range strings.Split(strings.TrimSpace(string(b)), "\n") {
			var sc Scenario
			if err := json.Unmarshal([]byte(line), &sc); err != nil {
				t.Fatal(err)
			}
			run(sc)
		}
	} else {
		for i := 0; i < count; i++ {
			run(genScenario(rng, i+1))
		}
		// scripted, from a stream of their own (the stream above stays what it was)
		arng := rand.New(rand.NewSource(seed*7919 + 13))
		for i := 0; i < vh.EnvInt("VH_ALIAS", 1+count/10); i++ {
			run(aliasScenario(arng))
		}
	}
	// scope canonicalisation, directly
	tr := rot.Next()
	tr.Begin(n + 1)
	canon := 0
	for i := 0; i < vh.EnvInt("VH_CANON", 3000); i++ {
		var in []string
		for k := rng.Intn(5); k > 0; k-- {
			in = append(in, strings.Fields(scopePool[rng.Intn(len(scopePool))])...)
		}
		rng.Shuffle(len(in), func(a, b int) { in[a], in[b] = in[b], in[a] })
		outS := auth.CleanScopes(append([]string(nil), in...))
		sorted := append([]string(nil), outS...)
		sort.Strings(sorted)
		tr.Emit(map[string]any{"e": "canon", "in": parseScopes(in), "out": parseScopes(outS), "outstr": vh.Ints(nil), "issorted": fmt.Sprint(sorted) == fmt.Sprint(outS), "n": len(outS)})
		canon++
	}
	rot.Close()
	sum, _ := json.Marshal(map[string]any{"scenarios": n, "hangs": hangs, "canon": canon, "events": rot.Total, "files": rot.Files})
	os.WriteFile(out+"/summary.json", sum, 0o644)
}
