// Package roundfam runs the round trip of C12 on real stores: a tree is added
// to a file store, packed into a manifest, copied through an intermediate
// store into a second file store, and the restored tree is recorded for
// spec/RoundJudge.tla.
package roundfam

import (
	"bytes"
	"context"
	"encoding/json"
	"fmt"
	"io"
	"io/fs"
	"net/http"
	"os"
	"path/filepath"
	"sort"
	"strings"
	"syscall"
	"testing"
	"time"
	"unsafe"

	"github.com/opencontainers/go-digest"
	ocispec "github.com/opencontainers/image-spec/specs-go/v1"
	oras "oras.land/oras-go/v2"
	"oras.land/oras-go/v2/content"
	"oras.land/oras-go/v2/content/file"
	"oras.land/oras-go/v2/content/memory"
	"oras.land/oras-go/v2/content/oci"
	"oras.land/oras-go/v2/registry/remote"
	"verif/harness/regfake"
	"verif/harness/vh"
)

type Opts struct {
	Reproducible bool `json:"reproducible"`
	Preserve     bool `json:"preserve"`
	SkipUnpack   bool `json:"skipunpack"`
	ForceCAS     bool `json:"forcecas"`
	IgnoreNoName bool `json:"ignorenoname"`
}

type Case struct {
	Shape string `json:"shape"`
	Opts  Opts   `json:"opts"`
	Inter string `json:"inter"`
}

// Obj is one object of a tree relative to the added name.
type Obj struct {
	P    string `json:"p"`
	T    string `json:"t"` // file dir sym
	C    string `json:"c"` // content class / id
	Tgt  string `json:"tgt"`
	Mode []int  `json:"mode"`
}

func digits(m os.FileMode) []int {
	p := int(m.Perm())
	return []int{(p >> 6) & 7, (p >> 3) & 7, p & 7}
}

var longName = strings.Repeat("n", 120) + ".txt"

// shape returns the abstract tree for a shape; paths are relative to the root name.
func shape(s string) (isDir bool, objs []Obj) {
	f := func(p, c string, mode ...int) Obj { return Obj{P: p, T: "file", C: c, Mode: mode} }
	d := func(p string, mode ...int) Obj { return Obj{P: p, T: "dir", Mode: mode} }
	switch s {
	case "file":
		return false, []Obj{f("", "small", 6, 4, 4)}
	case "flat":
		return true, []Obj{d("", 7, 5, 5), f("a.txt", "small", 6, 4, 4), f("b.bin", "empty", 6, 4, 4), f("c", "small2", 6, 4, 4)}
	case "nested":
		return true, []Obj{d("", 7, 5, 5), d("s", 7, 5, 5), d("s/t", 7, 5, 5), f("s/t/deep.txt", "small", 6, 4, 4), d("empty", 7, 5, 5),
			f("top", "big", 6, 4, 4), d("s/e2", 7, 5, 5)}
	case "links":
		return true, []Obj{d("", 7, 5, 5), f("a.txt", "small", 6, 4, 4), {P: "l", T: "sym", Tgt: "a.txt"}, d("s", 7, 5, 5),
			{P: "s/up", T: "sym", Tgt: "../a.txt"}, {P: "dangling", T: "sym", Tgt: "nowhere"}}
	case "modes":
		return true, []Obj{d("", 7, 5, 5), f("ro", "small", 4, 4, 4), f("priv", "small2", 6, 0, 0), f("exe", "small", 7, 5, 5),
			f("gw", "small", 6, 6, 6), d("privdir", 7, 0, 0), f("privdir/x", "empty", 6, 4, 0), d("wdir", 7, 7, 5)}
	case "names":
		return true, []Obj{d("", 7, 5, 5), f(longName, "small", 6, 4, 4), f("ünï-çødé.txt", "small2", 6, 4, 4), f("sp ace", "empty", 6, 4, 4),
			d("dïr", 7, 5, 5), f("dïr/"+strings.Repeat("m", 100), "small", 6, 4, 4),
			// names that merely begin with two dots are ordinary names
			f("..data", "small2", 6, 4, 4), d("...", 7, 5, 5), f(".../..x", "small", 6, 4, 4)}
	}
	panic("shape " + s)
}

func contentOf(c string) []byte {
	switch c {
	case "empty":
		return []byte{}
	case "small":
		return []byte("small content\n")
	case "small2":
		return []byte("another small content")
	case "big":
		return bytes.Repeat([]byte("0123456789abcdef"), 80000) // 1.28 MB, larger than the copy buffer
	}
	return []byte(c)
}

func classOf(b []byte) string {
	for _, c := range []string{"empty", "small", "small2", "big"} {
		if bytes.Equal(b, contentOf(c)) {
			return c
		}
	}
	return "other:" + digest.FromBytes(b).Encoded()[:12]
}

func materialise(root string, objs []Obj, mtime time.Time) error {
	// directories first, then files and links, then modes and times (deepest first)
	sort.SliceStable(objs, func(i, j int) bool { return len(objs[i].P) < len(objs[j].P) })
	for _, o := range objs {
		p := filepath.Join(root, o.P)
		switch o.T {
		case "dir":
			if err := os.MkdirAll(p, 0o755); err != nil {
				return err
			}
		case "file":
			if err := os.WriteFile(p, contentOf(o.C), 0o644); err != nil {
				return err
			}
		case "sym":
			if err := os.Symlink(o.Tgt, p); err != nil {
				return err
			}
		}
	}
	for i := len(objs) - 1; i >= 0; i-- {
		o := objs[i]
		p := filepath.Join(root, o.P)
		if o.T != "sym" {
			os.Chmod(p, os.FileMode(o.Mode[0]<<6|o.Mode[1]<<3|o.Mode[2]))
			os.Chtimes(p, mtime, mtime)
		} else {
			lutimes(p, mtime) // the link's own time (os.Chtimes would follow it)
		}
	}
	return nil
}

// lutimes sets the modification time of a symbolic link itself.
func lutimes(path string, t time.Time) {
	ts := [2]syscall.Timespec{syscall.NsecToTimespec(t.UnixNano()), syscall.NsecToTimespec(t.UnixNano())}
	p, err := syscall.BytePtrFromString(path)
	if err != nil {
		return
	}
	const atFdCwd, atSymlinkNoFollow = -100, 0x100
	dirfd := atFdCwd
	syscall.Syscall6(syscall.SYS_UTIMENSAT, uintptr(dirfd), uintptr(unsafe.Pointer(p)), uintptr(unsafe.Pointer(&ts[0])), atSymlinkNoFollow, 0, 0)
}

func snapshot(root string) []Obj {
	out := []Obj{}
	fi, err := os.Lstat(root)
	if err != nil {
		return out
	}
	if !fi.IsDir() {
		b, _ := os.ReadFile(root)
		return []Obj{{P: "", T: "file", C: classOf(b), Mode: digits(fi.Mode())}}
	}
	filepath.WalkDir(root, func(p string, d fs.DirEntry, err error) error {
		if err != nil {
			return nil
		}
		rel, _ := filepath.Rel(root, p)
		if rel == "." {
			rel = ""
		}
		fi, err := os.Lstat(p)
		if err != nil {
			return nil
		}
		o := Obj{P: rel, Mode: digits(fi.Mode())}
		switch {
		case fi.Mode()&os.ModeSymlink != 0:
			o.T = "sym"
			o.Tgt, _ = os.Readlink(p)
			o.Mode = nil
		case fi.IsDir():
			o.T = "dir"
		default:
			o.T = "file"
			b, _ := os.ReadFile(p)
			o.C = classOf(b)
		}
		out = append(out, o)
		return nil
	})
	return out
}

func newInter(kind, dir string) (oras.Target, func(), error) {
	switch kind {
	case "oci":
		s, err := oci.New(dir)
		return s, func() {}, err
	case "file":
		s, err := file.New(dir)
		if err != nil {
			return nil, nil, err
		}
		return s, func() { s.Close() }, nil
	case "remote", "remotemin":
		const host = "registry.round.test"
		prof := regfake.Profile{Referrers: true, DigestHdr: true, Range: true, Mount: true}
		if kind == "remotemin" {
			prof = regfake.Profile{}
		}
		reg := regfake.New(host, prof)
		repo, err := remote.NewRepository(host + "/round/trip")
		if err != nil {
			return nil, nil, err
		}
		repo.PlainHTTP = true
		repo.Client = &http.Client{Transport: reg}
		return repo, func() {}, nil
	}
	return memory.New(), func() {}, nil
}

// pipeline adds path under name, packs, copies through the intermediate store and restores into dstDir.
func pipeline(ctx context.Context, c Case, base, name, path string, tamper, used bool) (desc ocispec.Descriptor, descok bool, dstDir string, err error) {
	srcStore, err := file.New(filepath.Join(base, "srcwd"))
	if err != nil {
		return
	}
	defer srcStore.Close()
	srcStore.TarReproducible = c.Opts.Reproducible
	desc, err = srcStore.Add(ctx, name, "", path)
	if err != nil {
		return
	}
	// the descriptor's digest and size are those of the stored bytes
	if b, ferr := content.FetchAll(ctx, srcStore, desc); ferr == nil {
		descok = digest.FromBytes(b) == desc.Digest && int64(len(b)) == desc.Size
	}
	layer := desc
	if tamper {
		layer.Annotations = map[string]string{}
		for k, v := range desc.Annotations {
			layer.Annotations[k] = v
		}
		layer.Annotations[file.AnnotationDigest] = digest.FromString("not the tar").String()
	}
	man, err := oras.PackManifest(ctx, srcStore, oras.PackManifestVersion1_1, "application/vnd.verif.round", oras.PackManifestOptions{
		Layers: []ocispec.Descriptor{layer}, ManifestAnnotations: map[string]string{ocispec.AnnotationCreated: "2000-01-01T00:00:00Z"}})
	if err != nil {
		return
	}
	if err = srcStore.Tag(ctx, man, "v1"); err != nil {
		return
	}
	inter, closeInter, err := newInter(c.Inter, filepath.Join(base, "inter"))
	if err != nil {
		return
	}
	defer closeInter()
	if _, err = oras.Copy(ctx, srcStore, "v1", inter, "v1", oras.DefaultCopyOptions); err != nil {
		return
	}
	dstDir = filepath.Join(base, "dstwd")
	if used {
		// the working directory was used before: longer files under the names about to be restored
		old := bytes.Repeat([]byte("previous content of a longer file\n"), 50)
		if fi, serr := os.Stat(path); serr == nil && !fi.IsDir() {
			os.MkdirAll(dstDir, 0o755)
			os.WriteFile(filepath.Join(dstDir, name), old, 0o644)
		} else {
			filepath.WalkDir(path, func(p string, d fs.DirEntry, werr error) error {
				if werr == nil && d.Type().IsRegular() {
					rel, _ := filepath.Rel(path, p)
					os.MkdirAll(filepath.Dir(filepath.Join(dstDir, name, rel)), 0o755)
					os.WriteFile(filepath.Join(dstDir, name, rel), old, 0o644)
				}
				return nil
			})
		}
	}
	dst, err := file.New(dstDir)
	if err != nil {
		return
	}
	defer dst.Close()
	dst.PreservePermissions, dst.SkipUnpack, dst.ForceCAS = c.Opts.Preserve, c.Opts.SkipUnpack, c.Opts.ForceCAS
	if c.Opts.IgnoreNoName {
		// unnamed content (the manifest and its config) is discarded: nothing is left to tag, the graph is copied
		dst.IgnoreNoName = true
		// (the root is the descriptor PackManifest returned: resolving a tag needs a digest header on some registries, F17)
		err = oras.CopyGraph(ctx, inter, dst, man, oras.DefaultCopyGraphOptions)
		return
	}
	_, err = oras.Copy(ctx, inter, "v1", dst, "v1", oras.DefaultCopyOptions)
	return
}

// secondPipeline: two artifacts that name different bytes "artifact.txt", copied one after the other into one file store.
func secondPipeline(ctx context.Context, c Case, base, name string) (ok1, ok2, fresh, exists2, fetch2 bool) {
	// one intermediate store per release (an intermediate file store could not hold both either)
	var inters []oras.Target
	bodies := [][]byte{[]byte("release one of the named file, the longer of the two\n"), []byte("release two\n")}
	var descs []ocispec.Descriptor
	for i, b := range bodies {
		tag := fmt.Sprintf("v%d", i+1)
		inter, closeInter, err := newInter(c.Inter, filepath.Join(base, "inter"+tag))
		if err != nil {
			return
		}
		defer closeInter()
		inters = append(inters, inter)
		in := filepath.Join(base, "input"+tag, name)
		os.MkdirAll(filepath.Dir(in), 0o755)
		os.WriteFile(in, b, 0o644)
		src, err := file.New(filepath.Join(base, "srcwd"+tag))
		if err != nil {
			return
		}
		d, err := src.Add(ctx, name, "", in)
		if err == nil {
			var man ocispec.Descriptor
			man, err = oras.PackManifest(ctx, src, oras.PackManifestVersion1_1, "application/vnd.verif.round", oras.PackManifestOptions{
				Layers: []ocispec.Descriptor{d}, ManifestAnnotations: map[string]string{ocispec.AnnotationCreated: "2000-01-01T00:00:00Z"}})
			if err == nil {
				err = src.Tag(ctx, man, tag)
			}
		}
		if err == nil {
			_, err = oras.Copy(ctx, src, tag, inter, tag, oras.DefaultCopyOptions)
		}
		src.Close()
		if err != nil {
			return
		}
		descs = append(descs, d)
	}
	dstDir := filepath.Join(base, "dstwd")
	dst, err := file.New(dstDir)
	if err != nil {
		return
	}
	defer dst.Close()
	dst.PreservePermissions, dst.ForceCAS = c.Opts.Preserve, c.Opts.ForceCAS
	_, err = oras.Copy(ctx, inters[0], "v1", dst, "v1", oras.DefaultCopyOptions)
	ok1 = err == nil
	_, err = oras.Copy(ctx, inters[1], "v2", dst, "v2", oras.DefaultCopyOptions)
	ok2 = err == nil
	if b, rerr := os.ReadFile(filepath.Join(dstDir, name)); rerr == nil {
		fresh = bytes.Equal(b, bodies[1])
	}
	exists2, _ = dst.Exists(ctx, descs[1])
	if b, ferr := content.FetchAll(ctx, dst, descs[1]); ferr == nil {
		fetch2 = bytes.Equal(b, bodies[1])
	}
	return
}

func TestDrive(t *testing.T) {
	out := os.Getenv("VH_OUT")
	if out == "" {
		t.Skip("VH_OUT not set")
	}
	raw, err := os.ReadFile(os.Getenv("VH_CASES"))
	if err != nil {
		t.Fatal(err)
	}
	var cases []Case
	if err := json.Unmarshal(raw, &cases); err != nil {
		t.Fatal(err)
	}
	syscall.Umask(0o022)
	rot := &vh.Rot{Dir: out, Max: vh.EnvInt("VH_ROT", 20000)}
	ctx := context.Background()
	root := t.TempDir()
	n := 0
	emit := func(m map[string]any) {
		n++
		tr := rot.Next()
		tr.Begin(n)
		tr.Emit(m)
	}
	for ci, c := range cases {
		isDir, objs := shape(c.Shape)
		// (names whose first element begins with two dots are ordinary names: "..artifact" is not "../artifact")
		name := []string{"artifact", "..artifact", "artifact", "...art"}[ci%4]
		if !isDir {
			name += ".txt"
		}
		run := func(sub string, mtime time.Time, tamper bool, used ...bool) (ocispec.Descriptor, bool, string, error) {
			base := filepath.Join(root, fmt.Sprintf("c%d-%s", ci, sub))
			os.MkdirAll(base, 0o755)
			src := filepath.Join(base, "input", name)
			if sub == "b" {
				// the second copy of the tree lies in a directory of another name (it is added under the same name):
				// where the tree happens to lie on disk is not part of the tree
				src = filepath.Join(base, "input", []string{"copy-of-", "копия-木-"}[ci%2]+name)
			}
			os.MkdirAll(filepath.Dir(src), 0o755)
			if err := materialise(src, append([]Obj(nil), objs...), mtime); err != nil {
				t.Fatal(err)
			}
			return pipeline(ctx, c, base, name, src, tamper, len(used) > 0 && used[0])
		}
		desc1, descok, dstDir, err := run("a", time.Unix(1000000000, 0), false)
		got := []Obj{}
		blobfile, blobdigestok := false, false
		if err == nil {
			p := filepath.Join(dstDir, name)
			if c.Opts.SkipUnpack && isDir {
				if b, rerr := os.ReadFile(p); rerr == nil {
					blobfile = true
					blobdigestok = digest.FromBytes(b) == desc1.Digest
				}
			} else {
				got = snapshot(p)
			}
		}
		// the same tree with other timestamps
		desc2, _, _, err2 := run("b", time.Unix(1500000000, 0), false)
		src := []Obj{}
		for _, o := range objs {
			if o.Mode == nil {
				o.Mode = []int{}
			}
			src = append(src, o)
		}
		for i := range got {
			if got[i].Mode == nil {
				got[i].Mode = []int{}
			}
		}
		emit(map[string]any{"e": "round", "kind": "tree", "case": ci, "c": c, "isdir": isDir, "ok": err == nil, "msg": errStr(err), "src": src, "got": got,
			"descok": descok, "samedesc": err2 == nil && desc1.Digest == desc2.Digest && desc1.Size == desc2.Size,
			"blobfile": blobfile, "blobdigestok": blobdigestok})
		os.RemoveAll(filepath.Join(root, fmt.Sprintf("c%d-a", ci)))
		os.RemoveAll(filepath.Join(root, fmt.Sprintf("c%d-b", ci)))
		if (c.Shape == "file" || c.Shape == "flat") && !c.Opts.SkipUnpack && !c.Opts.Preserve {
			// the same case into a working directory that already holds longer files under the same names
			_, _, dstDir, uerr := run("u", time.Unix(1000000000, 0), false, true)
			ugot := []Obj{}
			if uerr == nil {
				ugot = snapshot(filepath.Join(dstDir, name))
			}
			for i := range ugot {
				if ugot[i].Mode == nil {
					ugot[i].Mode = []int{}
				}
			}
			emit(map[string]any{"e": "round", "kind": "used", "case": ci, "c": c, "isdir": isDir, "ok": uerr == nil, "msg": errStr(uerr), "src": src, "got": ugot})
			os.RemoveAll(filepath.Join(root, fmt.Sprintf("c%d-u", ci)))
		}
		if isDir && !c.Opts.SkipUnpack && c.Shape == "flat" {
			_, _, _, terr := run("t", time.Unix(1000000000, 0), true)
			emit(map[string]any{"e": "round", "kind": "tamper", "case": ci, "c": c, "ok": terr == nil, "msg": errStr(terr)})
			os.RemoveAll(filepath.Join(root, fmt.Sprintf("c%d-t", ci)))
		}
		if c.Shape == "file" && !c.Opts.SkipUnpack && !c.Opts.IgnoreNoName {
			base := filepath.Join(root, fmt.Sprintf("c%d-s", ci))
			ok1, ok2, fresh, exists2, fetch2 := secondPipeline(ctx, c, base, name)
			emit(map[string]any{"e": "round", "kind": "second", "case": ci, "c": c, "ok": ok1, "ok2": ok2, "fresh": fresh, "exists2": exists2, "fetch2": fetch2})
			os.RemoveAll(base)
		}
		if c.Shape == "file" && !c.Opts.IgnoreNoName {
			// two blobs with the same bytes under different names
			base := filepath.Join(root, fmt.Sprintf("c%d-d", ci))
			first, second, derr := dupPipeline(ctx, c, base, false)
			emit(map[string]any{"e": "round", "kind": "dup", "case": ci, "c": c, "ok": derr == nil, "msg": errStr(derr), "first": first, "second": second})
			// the same behind a named layer that is not in the destination (non-distributable)
			first, second, derr = dupPipeline(ctx, c, base+"-nd", true)
			emit(map[string]any{"e": "round", "kind": "dup", "case": ci, "c": c, "ok": derr == nil, "msg": errStr(derr), "first": first, "second": second, "absentfirst": true})
			os.RemoveAll(base)
		}
	}
	rot.Close()
	sum, _ := json.Marshal(map[string]any{"cases": len(cases), "records": n, "files": rot.Files})
	os.WriteFile(out+"/summary.json", sum, 0o644)
}

func dupPipeline(ctx context.Context, c Case, base string, absentFirst bool) (first, second bool, err error) {
	os.MkdirAll(filepath.Join(base, "input"), 0o755)
	for _, n := range []string{"one.txt", "two.txt"} {
		os.WriteFile(filepath.Join(base, "input", n), contentOf("small"), 0o644)
	}
	src, err := file.New(filepath.Join(base, "srcwd"))
	if err != nil {
		return
	}
	defer src.Close()
	var layers []ocispec.Descriptor
	if absentFirst {
		// a named non-distributable layer: Copy never transfers it, so it is legitimately absent from the destination
		fb := []byte("not distributed")
		layers = append(layers, ocispec.Descriptor{MediaType: "application/vnd.oci.image.layer.nondistributable.v1.tar", Digest: digest.FromBytes(fb),
			Size: int64(len(fb)), Annotations: map[string]string{ocispec.AnnotationTitle: "zero.bin"}})
	}
	for _, n := range []string{"one.txt", "two.txt"} {
		d, aerr := src.Add(ctx, n, "", filepath.Join(base, "input", n))
		if aerr != nil {
			return false, false, aerr
		}
		layers = append(layers, d)
	}
	man, err := oras.PackManifest(ctx, src, oras.PackManifestVersion1_1, "application/vnd.verif.round", oras.PackManifestOptions{Layers: layers})
	if err != nil {
		return
	}
	if err = src.Tag(ctx, man, "v1"); err != nil {
		return
	}
	inter, closeInter, err := newInter(c.Inter, filepath.Join(base, "inter"))
	if err != nil {
		return
	}
	defer closeInter()
	if _, err = oras.Copy(ctx, src, "v1", inter, "v1", oras.DefaultCopyOptions); err != nil {
		return
	}
	dstDir := filepath.Join(base, "dstwd")
	dst, err := file.New(dstDir)
	if err != nil {
		return
	}
	defer dst.Close()
	dst.ForceCAS = c.Opts.ForceCAS
	if _, err = oras.Copy(ctx, inter, "v1", dst, "v1", oras.DefaultCopyOptions); err != nil {
		return
	}
	ok := func(n string) bool {
		b, rerr := os.ReadFile(filepath.Join(dstDir, n))
		return rerr == nil && bytes.Equal(b, contentOf("small"))
	}
	return ok("one.txt"), ok("two.txt"), nil
}

func errStr(err error) string {
	if err == nil {
		return ""
	}
	s := err.Error()
	if len(s) > 200 {
		s = s[:200]
	}
	return s
}

var _ = io.EOF
