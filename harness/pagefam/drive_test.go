// Package pagefam runs the listing APIs of the real remote client (Tags,
// Repositories, Referrers) against a scripted paginating server for every case
// of spec/Paging.tla (C15).
package pagefam

import (
	"bytes"
	"context"
	"encoding/json"
	"errors"
	"fmt"
	"io"
	"net/http"
	"net/url"
	"os"
	"strconv"
	"strings"
	"testing"

	"github.com/opencontainers/go-digest"
	ocispec "github.com/opencontainers/image-spec/specs-go/v1"
	"oras.land/oras-go/v2/content"
	"oras.land/oras-go/v2/content/oci"
	"oras.land/oras-go/v2/errdef"
	"oras.land/oras-go/v2/registry/remote"
	"verif/harness/vh"
)

type Case struct {
	API           string   `json:"api"`
	Len           int      `json:"len"`
	Types         []string `json:"types"`
	Last          int      `json:"last"`
	N             int      `json:"n"`
	M             int      `json:"m"`
	Link          string   `json:"link"`
	CbFail        int      `json:"cbfail"`
	Filter        string   `json:"filter"`
	ServerFilters bool     `json:"serverfilters"`
	Oversize      int      `json:"oversize"`
}

const (
	host  = "reg.example"
	repo  = "team/app"
	limit = 3000
)

// atOf is the artifact type of the abstract type name: a structured-syntax suffix makes it a string that has to be
// escaped in a query ("+" means a space there).
func atOf(name string) string { return "application/vnd." + name + "+json" }

func item(i int) string { return fmt.Sprintf("item%d", i) }
func itemIndex(s string) int {
	n, _ := strconv.Atoi(strings.TrimPrefix(s, "item"))
	return n
}

var subject = ocispec.Descriptor{MediaType: ocispec.MediaTypeImageManifest, Digest: digest.FromString("subject"), Size: 7}

func refDesc(i int, at string) ocispec.Descriptor {
	return ocispec.Descriptor{MediaType: ocispec.MediaTypeImageManifest, Digest: digest.FromString(item(i)), Size: int64(100 + i),
		ArtifactType: atOf(at), Annotations: map[string]string{"idx": strconv.Itoa(i)}}
}

type counting struct {
	r io.Reader
	n *int
}

func (c *counting) Read(p []byte) (int, error) { n, err := c.r.Read(p); *c.n += n; return n, err }
func (c *counting) Close() error               { return nil }

type reqRec struct {
	After  int    `json:"after"`
	N      int    `json:"n"`
	Path   string `json:"path"`
	Query  string `json:"query"`
	Filter string `json:"filter"`
}

// server implements the pagination of the distribution specification for one case.
type server struct {
	c        Case
	reqs     []reqRec
	consumed []*int
	noLen    bool // responses carry no Content-Length (http.Response.ContentLength = -1, as with chunked encoding)
}

func (s *server) RoundTrip(req *http.Request) (*http.Response, error) {
	q := req.URL.Query()
	after := 0
	if v := q.Get("last"); v != "" {
		after = itemIndex(v)
	}
	n := 0
	if vs := q["n"]; len(vs) > 0 {
		n, _ = strconv.Atoi(vs[len(vs)-1])
	}
	filter := strings.TrimSuffix(strings.TrimPrefix(q.Get("artifactType"), "application/vnd."), "+json")
	s.reqs = append(s.reqs, reqRec{After: after, N: n, Path: req.URL.Path, Query: req.URL.RawQuery, Filter: filter})
	pageno := len(s.reqs)
	if pageno > 3*s.c.Len+6 {
		// a client that never finishes: stop serving (the judge sees more requests than items)
		return nil, errors.New("verif: too many requests")
	}
	// the list the server pages over
	var list []int
	for i := 1; i <= s.c.Len; i++ {
		if s.c.API == "referrers" && filter != "" && s.c.ServerFilters && s.c.Types[i-1] != filter {
			continue
		}
		list = append(list, i)
	}
	var rest []int
	for _, i := range list {
		if i > after {
			rest = append(rest, i)
		}
	}
	k := n
	if s.c.M > 0 && (k == 0 || s.c.M < k) {
		k = s.c.M
	}
	items := rest
	if k > 0 && len(rest) > k {
		items = rest[:k]
	}
	h := http.Header{}
	if len(items) < len(rest) {
		nq := url.Values{}
		nq.Set("last", item(items[len(items)-1]))
		if n > 0 {
			nq.Set("n", strconv.Itoa(n))
		}
		if at := q.Get("artifactType"); at != "" {
			nq.Set("artifactType", at)
		}
		var link string
		switch s.c.Link {
		case "abs":
			link = "http://" + host + req.URL.Path + "?" + nq.Encode()
		case "path":
			link = req.URL.Path + "?" + nq.Encode()
		case "query":
			link = "?" + nq.Encode()
		case "extra":
			nq.Set("foo", "b a/r")
			link = "http://" + host + req.URL.Path + "?" + nq.Encode()
		}
		h.Set("Link", "<"+link+`>; rel="next"`)
	}
	pad := ""
	if s.c.Oversize == pageno {
		pad = strings.Repeat("x", limit+200)
	}
	var body []byte
	switch s.c.API {
	case "tags":
		names := []string{}
		for _, i := range items {
			names = append(names, item(i))
		}
		body, _ = json.Marshal(map[string]any{"pad": pad, "name": repo, "tags": names})
	case "repos":
		names := []string{}
		for _, i := range items {
			names = append(names, item(i))
		}
		body, _ = json.Marshal(map[string]any{"pad": pad, "repositories": names})
	case "referrers":
		ms := []ocispec.Descriptor{}
		for _, i := range items {
			ms = append(ms, refDesc(i, s.c.Types[i-1]))
		}
		ix := map[string]any{"schemaVersion": 2, "mediaType": ocispec.MediaTypeImageIndex, "manifests": ms}
		if pad != "" {
			ix["annotations"] = map[string]string{"a.pad": pad}
		}
		body, _ = json.Marshal(ix)
		h.Set("Content-Type", ocispec.MediaTypeImageIndex)
		if filter != "" && s.c.ServerFilters {
			h.Set("OCI-Filters-Applied", "artifactType")
		}
	}
	if s.c.API != "referrers" {
		h.Set("Content-Type", "application/json")
	}
	cnt := new(int)
	s.consumed = append(s.consumed, cnt)
	clen := int64(len(body))
	if s.noLen {
		clen = -1
	}
	return &http.Response{StatusCode: 200, Status: "200 OK", Header: h, Body: &counting{strings.NewReader(string(body)), cnt}, Request: req,
		ContentLength: clen}, nil
}

// tagSchemaServer is a registry without the Referrers API: the referrers of the subject are listed by an image index
// stored under the referrers tag.
type tagSchemaServer struct {
	c     Case
	paths []string
}

func (s *tagSchemaServer) RoundTrip(req *http.Request) (*http.Response, error) {
	s.paths = append(s.paths, req.URL.Path)
	ms := []ocispec.Descriptor{}
	for i := 1; i <= s.c.Len; i++ {
		ms = append(ms, refDesc(i, s.c.Types[i-1]))
	}
	body, _ := json.Marshal(map[string]any{"schemaVersion": 2, "mediaType": ocispec.MediaTypeImageIndex, "manifests": ms})
	h := http.Header{"Content-Type": {ocispec.MediaTypeImageIndex}}
	if req.Method == http.MethodHead {
		return &http.Response{StatusCode: 200, Status: "200 OK", Header: h, Body: io.NopCloser(strings.NewReader("")), Request: req, ContentLength: int64(len(body))}, nil
	}
	return &http.Response{StatusCode: 200, Status: "200 OK", Header: h, Body: io.NopCloser(strings.NewReader(string(body))), Request: req, ContentLength: int64(len(body))}, nil
}

var errCb = errors.New("verif: callback error")

// ociTags lists the tags of an OCI layout in which the names item(i) with Types[i-1] == "A" are tags.
func ociTags(t *testing.T, ctx context.Context, base string, c Case, variant string) ([][]int, string) {
	dir, _ := os.MkdirTemp(base, "oci")
	defer os.RemoveAll(dir)
	st, err := oci.New(dir)
	if err != nil {
		t.Fatal(err)
	}
	blob := []byte("tagged content")
	desc := content.NewDescriptorFromBytes("application/vnd.verif.blob", blob)
	if err := st.Push(ctx, desc, bytes.NewReader(blob)); err != nil {
		t.Fatal(err)
	}
	for i := c.Len; i >= 1; i-- {
		if c.Types[i-1] == "A" {
			if err := st.Tag(ctx, desc, item(i)); err != nil {
				t.Fatal(err)
			}
		}
	}
	var lister interface {
		Tags(ctx context.Context, last string, fn func(tags []string) error) error
	} = st
	if variant == "ro" {
		ro, err := oci.NewFromFS(ctx, os.DirFS(dir))
		if err != nil {
			t.Fatal(err)
		}
		lister = ro
	}
	last := ""
	if c.Last > 0 {
		last = item(c.Last)
	}
	pages := [][]int{}
	err = lister.Tags(ctx, last, func(ss []string) error {
		idx := []int{}
		for _, s := range ss {
			idx = append(idx, itemIndex(s))
		}
		pages = append(pages, idx)
		if c.CbFail != 0 && len(pages) == c.CbFail {
			return errCb
		}
		return nil
	})
	switch {
	case err == nil:
		return pages, "ok"
	case errors.Is(err, errCb):
		return pages, "cb"
	}
	return pages, "err:" + err.Error()
}

func TestDrive(t *testing.T) {
	out := os.Getenv("VH_OUT")
	if out == "" {
		t.Skip("VH_OUT not set")
	}
	raw, err := os.ReadFile(os.Getenv("VH_CASES"))
	if err != nil {
		t.Fatal(err)
	}
	var cases []Case
	if err := json.Unmarshal(raw, &cases); err != nil {
		t.Fatal(err)
	}
	rot := &vh.Rot{Dir: out, Max: vh.EnvInt("VH_ROT", 25000)}
	ctx := context.Background()
	n := 0
	base := t.TempDir()
	eligible := map[string]int{}
	for ci, c := range cases {
		if c.Types == nil {
			c.Types = []string{}
		}
		if c.API == "ocitags" {
			// the OCI-layout store's own listing: read-write store and the same layout opened read-only
			for _, variant := range []string{"rw", "ro"} {
				pages, outcome := ociTags(t, ctx, base, c, variant)
				n++
				tr := rot.Next()
				tr.Begin(n)
				tr.Emit(map[string]any{"e": "page", "case": ci, "c": c, "pages": pages, "reqs": []any{}, "outcome": outcome, "consumed": []int{},
					"limit": limit, "wantpath": "", "variant": variant})
			}
			continue
		}
		if c.API == "referrers" && c.N == 0 && c.M == 0 && c.Link == "abs" && c.Oversize == 0 && c.CbFail <= 1 && !c.ServerFilters {
			// the same listing from a registry without the Referrers API (referrers tag schema): one index, filtered by
			// the client; the failing callback fails with an error that wraps ErrNotFound (as a callback that fetches
			// each referrer would when one is gone)
			ts := &tagSchemaServer{c: c}
			r, _ := remote.NewRepository(host + "/" + repo)
			r.PlainHTTP, r.Client, r.MaxMetadataBytes = true, &http.Client{Transport: ts}, limit
			r.SetReferrersCapability(false)
			at := ""
			if c.Filter != "" {
				at = atOf(c.Filter)
			}
			pages := [][]int{}
			errGone := fmt.Errorf("referrer is gone: %w", errdef.ErrNotFound)
			callErr := r.Referrers(ctx, subject, at, func(ds []ocispec.Descriptor) error {
				idx := []int{}
				for _, d := range ds {
					i, _ := strconv.Atoi(d.Annotations["idx"])
					idx = append(idx, i)
				}
				pages = append(pages, idx)
				if c.CbFail != 0 && len(pages) == c.CbFail {
					return errGone
				}
				return nil
			})
			outcome := "ok"
			switch {
			case callErr == nil:
			case callErr == errGone || errors.Is(callErr, errGone):
				outcome = "cb"
			default:
				outcome = "err:" + callErr.Error()
			}
			reqs := []reqRec{}
			for _, p := range ts.paths {
				reqs = append(reqs, reqRec{Path: p, Filter: c.Filter})
			}
			n++
			tr := rot.Next()
			tr.Begin(n)
			tr.Emit(map[string]any{"e": "page", "case": ci, "c": c, "pages": pages, "reqs": reqs, "outcome": outcome, "consumed": []int{},
				"limit": limit, "wantpath": "/v2/" + repo + "/manifests/" + strings.Replace(subject.Digest.String(), ":", "-", 1), "tagschema": true})
		}
		// every case with a Content-Length; the oversize cases and every fourth other case also without one
		// ... and some of the plain cases once more with the context cancelled from inside the first page's callback
		// (which itself returns nil): unless that page was the last one the call must not report success
		for variant := 0; variant < 3; variant++ {
			noLen, cancelAt := variant == 1, 0
			if noLen && c.Oversize == 0 && ci%4 != 0 {
				continue
			}
			if variant == 2 {
				if c.CbFail != 0 || c.Oversize != 0 {
					continue
				}
				eligible[c.API]++
				if eligible[c.API]%3 != 0 { // every third plain case of each API
					continue
				}
				cancelAt = 1
			}
			cctx, cancel := context.WithCancel(ctx)
			srv := &server{c: c, noLen: noLen}
			pages := [][]int{}
			var callErr error
			last := ""
			if c.Last > 0 {
				last = item(c.Last)
			}
			cb := func(items []int) error {
				pages = append(pages, items)
				if c.CbFail != 0 && len(pages) == c.CbFail {
					return errCb
				}
				if cancelAt != 0 && len(pages) == cancelAt {
					cancel()
				}
				return nil
			}
			strs := func(ss []string) error {
				idx := []int{}
				for _, s := range ss {
					idx = append(idx, itemIndex(s))
				}
				return cb(idx)
			}
			wantpath := ""
			switch c.API {
			case "tags":
				r, _ := remote.NewRepository(host + "/" + repo)
				r.PlainHTTP, r.Client, r.TagListPageSize, r.MaxMetadataBytes = true, &http.Client{Transport: srv}, c.N, limit
				callErr = r.Tags(cctx, last, strs)
				wantpath = "/v2/" + repo + "/tags/list"
			case "repos":
				r, _ := remote.NewRegistry(host)
				r.PlainHTTP, r.Client, r.RepositoryListPageSize, r.MaxMetadataBytes = true, &http.Client{Transport: srv}, c.N, limit
				callErr = r.Repositories(cctx, last, strs)
				wantpath = "/v2/_catalog"
			case "referrers":
				r, _ := remote.NewRepository(host + "/" + repo)
				r.PlainHTTP, r.Client, r.ReferrerListPageSize, r.MaxMetadataBytes = true, &http.Client{Transport: srv}, c.N, limit
				r.SetReferrersCapability(true)
				at := ""
				if c.Filter != "" {
					at = atOf(c.Filter)
				}
				callErr = r.Referrers(cctx, subject, at, func(ds []ocispec.Descriptor) error {
					idx := []int{}
					for _, d := range ds {
						i, _ := strconv.Atoi(d.Annotations["idx"])
						idx = append(idx, i)
					}
					return cb(idx)
				})
				wantpath = "/v2/" + repo + "/referrers/" + subject.Digest.String()
			}
			outcome := "ok"
			switch {
			case callErr == nil:
			case errors.Is(callErr, errCb):
				outcome = "cb"
			case c.Oversize != 0 && len(srv.reqs) >= c.Oversize:
				outcome = "toolarge"
			default:
				outcome = "err:" + callErr.Error()
			}
			consumed := []int{}
			for _, p := range srv.consumed {
				consumed = append(consumed, *p)
			}
			n++
			tr := rot.Next()
			tr.Begin(n)
			tr.Emit(map[string]any{"e": "page", "case": ci, "c": c, "pages": pages, "reqs": srv.reqs, "outcome": outcome, "consumed": consumed,
				"limit": limit, "wantpath": wantpath, "nolen": noLen, "cancelat": cancelAt})
			cancel()
		}
	}
	rot.Close()
	sum, _ := json.Marshal(map[string]any{"cases": len(cases), "records": n, "files": rot.Files})
	os.WriteFile(out+"/summary.json", sum, 0o644)
}
