#!/bin/sh
# Run once after a fresh restore, offline. Verifies the tools the checks need
# and that the harness module resolves and compiles against /repo.
cd "$(dirname "$0")" || exit 1
export GOFLAGS=-mod=mod GOPROXY=off GOSUMDB=off GOTOOLCHAIN=local
for t in go1.26.8 java python3 strace timeout; do
  command -v "$t" >/dev/null 2>&1 || { echo "missing tool: $t"; exit 1; }
done
[ -f /opt/veriftools/tla/tla2tools.jar ] || { echo "missing tla2tools.jar"; exit 1; }
mkdir -p evidence replays
cp /repo/go.sum harness/go.sum 2>/dev/null
(cd harness && go1.26.8 vet -tags verif ./... ) || { echo "harness does not build"; exit 1; }
echo "setup ok"
